"""Single-site variants for the both-ways self-test. kind 'break': compiles, passes (or is meant to pass) the
repo's tests, breaks the property -> the rule must fire. kind 'keep': behaviour preserving -> must stay silent."""
MUTANTS = []


def M(id, prop, kind, file, old, new, rule=None, **kw):
    MUTANTS.append(dict(id=id, prop=prop, kind=kind, file=file, old=old, new=new, rule=rule, **kw))


RQ, RS, TX = 'htp/htp_request.c', 'htp/htp_response.c', 'htp/htp_transaction.c'

# ---------------- C09
M('c09a-move-track-above-stop', 'C09', 'break', RQ,
  '    // Return if the connection is in stop state.\n    if (connp->in_status == HTP_STREAM_STOP) {',
  '    htp_conn_track_inbound_data(connp->conn, len, timestamp);\n    if (connp->in_status == HTP_STREAM_STOP) {', 'C09.a')
M('c09a-delete-error-guard', 'C09', 'break', RS,
  '    if (connp->out_status == HTP_STREAM_ERROR) {\n        htp_log(connp, HTP_LOG_MARK, HTP_LOG_ERROR, 0, "Outbound parser is in HTP_STREAM_ERROR");',
  '    if (0) {\n        htp_log(connp, HTP_LOG_MARK, HTP_LOG_ERROR, 0, "Outbound parser is in HTP_STREAM_ERROR");', 'C09.a')
M('c09a-swap-guards-keep', 'C09', 'keep', RQ,
  '    if (connp->in_status == HTP_STREAM_STOP) {\n        htp_log(connp, HTP_LOG_MARK, HTP_LOG_INFO, 0, "Inbound parser is in HTP_STREAM_STOP");\n        return HTP_STREAM_STOP;\n    }\n',
  '    if (connp->in_status != HTP_STREAM_STOP) {\n    } else {\n        htp_log(connp, HTP_LOG_MARK, HTP_LOG_INFO, 0, "Inbound parser is in HTP_STREAM_STOP");\n        return HTP_STREAM_STOP;\n    }\n')
M('c09c-stop-to-error', 'C09', 'break', RQ,
  '                connp->in_status = HTP_STREAM_STOP;\n\n                return HTP_STREAM_STOP;',
  '                connp->in_status = HTP_STREAM_ERROR;\n\n                return HTP_STREAM_ERROR;', 'C09.c')
M('c09c-data-other-always', 'C09', 'break', RS,
  '                if (connp->out_current_read_offset >= connp->out_current_len) {\n                    #ifdef HTP_DEBUG\n                    fprintf(stderr, "htp_connp_res_data: returning HTP_STREAM_DATA (suspended parsing)\\n");',
  '                if (connp->out_current_read_offset > connp->out_current_len) {\n                    #ifdef HTP_DEBUG\n                    fprintf(stderr, "htp_connp_res_data: returning HTP_STREAM_DATA (suspended parsing)\\n");', 'C09.c')
M('c09c-status-mismatch', 'C09', 'break', RS,
  '                connp->out_status = HTP_STREAM_DATA;\n\n                return HTP_STREAM_DATA;\n            }\n\n            // Check for stop',
  '                return HTP_STREAM_DATA;\n            }\n\n            // Check for stop', 'C09.c')
M('c09c-switch-keep', 'C09', 'keep', RQ,
  '            // Check for the stop signal.\n            if (rc == HTP_STOP) {',
  '            // Check for the stop signal.\n            if (!(rc != HTP_STOP)) {')
M('c09d-copy-byte-returns-data-early', 'C09', 'break', RQ,
  '#define IN_TEST_NEXT_BYTE_OR_RETURN(X) \\\nif ((X)->in_current_read_offset >= (X)->in_current_len) { \\',
  '#define IN_TEST_NEXT_BYTE_OR_RETURN(X) \\\nif ((X)->in_current_read_offset + 1 >= (X)->in_current_len) { \\', 'C09.d')
M('c09d-identity-return-data-before-consume', 'C09', 'break', RQ,
  '    if (connp->in_body_data_left == 0) {\n        // End of request body.',
  '    if (connp->in_body_data_left == 0 && connp->in_current_len > 4) {\n        // End of request body.', 'C09.d')
M('c09e-consumed-returns-consume-offset', 'C09', 'break', RS,
  'size_t htp_connp_res_data_consumed(htp_connp_t *connp) {\n    return connp->out_current_read_offset;',
  'size_t htp_connp_res_data_consumed(htp_connp_t *connp) {\n    return connp->out_current_consume_offset;', 'C09.e')
M('c09e-track-after-tunnel-return', 'C09', 'break', RS,
  '    htp_conn_track_outbound_data(connp->conn, len, timestamp);\n\n    // Return without processing any data if the stream is in tunneling\n    // mode (which it would be after an initial CONNECT transaction.\n    if (connp->out_status == HTP_STREAM_TUNNEL) {',
  '    if (connp->out_status != HTP_STREAM_TUNNEL) htp_conn_track_outbound_data(connp->conn, len, timestamp);\n\n    if (connp->out_status == HTP_STREAM_TUNNEL) {', 'C09.e')
