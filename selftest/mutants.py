"""Single-site variants for the both-ways self-test. kind 'break': compiles, passes (or is meant to pass) the
repo's tests, breaks the property -> the rule must fire. kind 'keep': behaviour preserving -> must stay silent."""
MUTANTS = []


def M(id, prop, kind, file, old, new, rule=None, **kw):
    MUTANTS.append(dict(id=id, prop=prop, kind=kind, file=file, old=old, new=new, rule=rule, **kw))


RQ, RS, TX = 'htp/htp_request.c', 'htp/htp_response.c', 'htp/htp_transaction.c'

# ---------------- C09
M('c09a-move-track-above-stop', 'C09', 'break', RQ,
  '    // Return if the connection is in stop state.\n    if (connp->in_status == HTP_STREAM_STOP) {',
  '    htp_conn_track_inbound_data(connp->conn, len, timestamp);\n    if (connp->in_status == HTP_STREAM_STOP) {', 'C09.a')
M('c09a-delete-error-guard', 'C09', 'break', RS,
  '    if (connp->out_status == HTP_STREAM_ERROR) {\n        htp_log(connp, HTP_LOG_MARK, HTP_LOG_ERROR, 0, "Outbound parser is in HTP_STREAM_ERROR");',
  '    if (0) {\n        htp_log(connp, HTP_LOG_MARK, HTP_LOG_ERROR, 0, "Outbound parser is in HTP_STREAM_ERROR");', 'C09.a')
M('c09a-swap-guards-keep', 'C09', 'keep', RQ,
  '    if (connp->in_status == HTP_STREAM_STOP) {\n        htp_log(connp, HTP_LOG_MARK, HTP_LOG_INFO, 0, "Inbound parser is in HTP_STREAM_STOP");\n        return HTP_STREAM_STOP;\n    }\n',
  '    if (connp->in_status != HTP_STREAM_STOP) {\n    } else {\n        htp_log(connp, HTP_LOG_MARK, HTP_LOG_INFO, 0, "Inbound parser is in HTP_STREAM_STOP");\n        return HTP_STREAM_STOP;\n    }\n')
M('c09c-stop-to-error', 'C09', 'break', RQ,
  '                connp->in_status = HTP_STREAM_STOP;\n\n                return HTP_STREAM_STOP;',
  '                connp->in_status = HTP_STREAM_ERROR;\n\n                return HTP_STREAM_ERROR;', 'C09.c')
M('c09c-data-other-always', 'C09', 'break', RS,
  '                if (connp->out_current_read_offset >= connp->out_current_len) {\n                    #ifdef HTP_DEBUG\n                    fprintf(stderr, "htp_connp_res_data: returning HTP_STREAM_DATA (suspended parsing)\\n");',
  '                if (connp->out_current_read_offset > connp->out_current_len) {\n                    #ifdef HTP_DEBUG\n                    fprintf(stderr, "htp_connp_res_data: returning HTP_STREAM_DATA (suspended parsing)\\n");', 'C09.c')
M('c09c-status-mismatch', 'C09', 'break', RS,
  '                connp->out_status = HTP_STREAM_DATA;\n\n                return HTP_STREAM_DATA;\n            }\n\n            // Check for stop',
  '                return HTP_STREAM_DATA;\n            }\n\n            // Check for stop', 'C09.c')
M('c09c-switch-keep', 'C09', 'keep', RQ,
  '            // Check for the stop signal.\n            if (rc == HTP_STOP) {',
  '            // Check for the stop signal.\n            if (!(rc != HTP_STOP)) {')
M('c09d-copy-byte-returns-data-early', 'C09', 'break', RQ,
  '#define IN_TEST_NEXT_BYTE_OR_RETURN(X) \\\nif ((X)->in_current_read_offset >= (X)->in_current_len) { \\',
  '#define IN_TEST_NEXT_BYTE_OR_RETURN(X) \\\nif ((X)->in_current_read_offset + 1 >= (X)->in_current_len) { \\', 'C09.d')
M('c09d-identity-return-data-before-consume', 'C09', 'break', RQ,
  '    if (connp->in_body_data_left == 0) {\n        // End of request body.',
  '    if (connp->in_body_data_left == 0 && connp->in_current_len > 4) {\n        // End of request body.', 'C09.d')
M('c09e-consumed-returns-consume-offset', 'C09', 'break', RS,
  'size_t htp_connp_res_data_consumed(htp_connp_t *connp) {\n    return connp->out_current_read_offset;',
  'size_t htp_connp_res_data_consumed(htp_connp_t *connp) {\n    return connp->out_current_consume_offset;', 'C09.e')
M('c09e-track-after-tunnel-return', 'C09', 'break', RS,
  '    htp_conn_track_outbound_data(connp->conn, len, timestamp);\n\n    // Return without processing any data if the stream is in tunneling\n    // mode (which it would be after an initial CONNECT transaction.\n    if (connp->out_status == HTP_STREAM_TUNNEL) {',
  '    if (connp->out_status != HTP_STREAM_TUNNEL) htp_conn_track_outbound_data(connp->conn, len, timestamp);\n\n    if (connp->out_status == HTP_STREAM_TUNNEL) {', 'C09.e')

# ---------------- C16
M('c16a-delete-post-dispatch-tunnel-test', 'C16', 'break', RQ,
  '            if (connp->in_status == HTP_STREAM_TUNNEL) {\n                #ifdef HTP_DEBUG\n                fprintf(stderr, "htp_connp_req_data: returning HTP_STREAM_TUNNEL\\n");\n                #endif\n\n                return HTP_STREAM_TUNNEL;\n            }\n\n            rc = htp_req_handle_state_change(connp);',
  '            rc = htp_req_handle_state_change(connp);', 'C16.a')
M('c16a-entry-test-after-loop-start', 'C16', 'break', RS,
  '    if (connp->out_status == HTP_STREAM_TUNNEL) {\n        #ifdef HTP_DEBUG\n        fprintf(stderr, "htp_connp_res_data: returning HTP_STREAM_TUNNEL\\n");\n        #endif\n\n        return HTP_STREAM_TUNNEL;\n    }\n\n    // Invoke a processor',
  '    if (connp->out_status == HTP_STREAM_TUNNEL && len > 1) {\n        return HTP_STREAM_TUNNEL;\n    }\n\n    // Invoke a processor', 'C16.a')
M('c16b-probe-forgets-out-status', 'C16', 'break', RQ,
  '        connp->in_status = HTP_STREAM_TUNNEL;\n        if ((connp->out_status != HTP_STREAM_ERROR) && (connp->out_status != HTP_STREAM_STOP))\n            connp->out_status = HTP_STREAM_TUNNEL;\n    }',
  '        connp->in_status = HTP_STREAM_TUNNEL;\n    }', 'C16.b')
M('c16b-101-forgets-in-status', 'C16', 'break', RS,
  '            if ((connp->in_status != HTP_STREAM_ERROR) && (connp->in_status != HTP_STREAM_STOP))\n                connp->in_status = HTP_STREAM_TUNNEL;\n            connp->out_status = HTP_STREAM_TUNNEL;',
  '            connp->out_status = HTP_STREAM_TUNNEL;', 'C16.b')
M('c16b-101-with-cl-tunnels', 'C16', 'break', RS,
  '        if (te == NULL && cl == NULL) {\n            connp->out_state = htp_connp_RES_FINALIZE;\n',
  '        if (te == NULL) {\n            connp->out_state = htp_connp_RES_FINALIZE;\n', 'C16.b')
M('c16c-wait-consumes', 'C16', 'break', RQ,
  '    if (connp->in_tx->response_progress <= HTP_RESPONSE_LINE) {\n        return HTP_DATA_OTHER;',
  '    if (connp->in_tx->response_progress <= HTP_RESPONSE_LINE) {\n        connp->in_current_read_offset = connp->in_current_len;\n        return HTP_DATA_OTHER;', 'C16.c')
M('c16c-wait-threshold', 'C16', 'break', RQ,
  '    if (connp->in_tx->response_progress <= HTP_RESPONSE_LINE) {',
  '    if (connp->in_tx->response_progress < HTP_RESPONSE_LINE) {', 'C16.c')
M('c16c-probe-clears-buffer', 'C16', 'break', RQ,
  '    // not calling htp_connp_req_clear_buffer, we\'re not consuming the data\n',
  '    htp_connp_req_clear_buffer(connp);\n', 'C16.c')
M('c16c-2xx-range', 'C16', 'break', RQ,
  '    if ((connp->in_tx->response_status_number >= 200) && (connp->in_tx->response_status_number <= 299)) {\n        // TODO Check',
  '    if ((connp->in_tx->response_status_number >= 200) && (connp->in_tx->response_status_number <= 399)) {\n        // TODO Check', 'C16.c')
M('c16d-flag-not-cleared', 'C16', 'break', TX,
  '            tx->connp->out_data_other_at_tx_end = 0;\n            yield = 1;',
  '            yield = 1;', 'C16.d')
M('c16d-yield-without-intx-test', 'C16', 'break', TX,
  '        if ((tx->connp->in_status == HTP_STREAM_DATA_OTHER) && (tx->connp->in_tx == tx->connp->out_tx)) {',
  '        if ((tx->connp->in_status == HTP_STREAM_DATA_OTHER)) {', 'C16.d')
M('c16d-flag-set-for-407', 'C16', 'break', RS,
  '            if ((connp->in_status != HTP_STREAM_ERROR) && (connp->in_status != HTP_STREAM_STOP))\n                connp->in_status = HTP_STREAM_DATA;\n        } else {',
  '            if ((connp->in_status != HTP_STREAM_ERROR) && (connp->in_status != HTP_STREAM_STOP))\n                connp->in_status = HTP_STREAM_DATA;\n            connp->out_data_other_at_tx_end = 1;\n        } else {', 'C16.d')
M('c16g-100-continue-keeps-progress', 'C16', 'break', RS,
  '            connp->out_state = htp_connp_RES_LINE;\n            connp->out_tx->response_progress = HTP_RESPONSE_LINE;\n            connp->out_tx->seen_100continue++;',
  '            connp->out_state = htp_connp_RES_LINE;\n            connp->out_tx->seen_100continue++;', 'C16.g')
M('c16g-reset-before-state-keep', 'C16', 'keep', RS,
  '            connp->out_state = htp_connp_RES_LINE;\n            connp->out_tx->response_progress = HTP_RESPONSE_LINE;\n            connp->out_tx->seen_100continue++;',
  '            connp->out_tx->response_progress = HTP_RESPONSE_LINE;\n            connp->out_tx->seen_100continue++;\n            connp->out_state = htp_connp_RES_LINE;')
M('c16g-reset-to-headers', 'C16', 'break', RS,
  '            connp->out_state = htp_connp_RES_LINE;\n            connp->out_tx->response_progress = HTP_RESPONSE_LINE;\n            connp->out_tx->seen_100continue++;',
  '            connp->out_state = htp_connp_RES_LINE;\n            connp->out_tx->response_progress = HTP_RESPONSE_HEADERS;\n            connp->out_tx->seen_100continue++;', 'C16.g')
M('c16d-keep-negated', 'C16', 'keep', TX,
  '    if (!hybrid_mode) {\n        // Check if the inbound parser is waiting on us.',
  '    if (hybrid_mode == 0) {\n        // Check if the inbound parser is waiting on us.')

# ---------------- C05
M('c05a-drop-not-complete-guard', 'C05', 'break', TX,
  '    if (tx->request_progress != HTP_REQUEST_COMPLETE) {\n        htp_status_t rc = htp_tx_state_request_complete_partial(tx);\n        if (rc != HTP_OK) return rc;\n    }',
  '    {\n        htp_status_t rc = htp_tx_state_request_complete_partial(tx);\n        if (rc != HTP_OK) return rc;\n    }', 'C05.a')
M('c05a-hook-before-progress', 'C05', 'break', TX,
  '        tx->response_progress = HTP_RESPONSE_COMPLETE;\n\n        // Run the last RESPONSE_BODY_DATA HOOK, but only if there was a response body present.',
  '        // Run the last RESPONSE_BODY_DATA HOOK, but only if there was a response body present.', 'C05.a')
M('c05a-is-complete-or', 'C05', 'break', TX,
  '    if ((tx->request_progress != HTP_REQUEST_COMPLETE) || (tx->response_progress != HTP_RESPONSE_COMPLETE)) {',
  '    if ((tx->request_progress != HTP_REQUEST_COMPLETE) && (tx->response_progress != HTP_RESPONSE_COMPLETE)) {', 'C05.a')
M('c05a-finalize-without-test', 'C05', 'break', TX,
  '    if (!htp_tx_is_complete(tx)) return HTP_OK;\n',
  '    if (tx->response_progress != HTP_RESPONSE_COMPLETE) return HTP_OK;\n', 'C05.a')
M('c05a-keep-swap-arms', 'C05', 'keep', TX,
  '    if (tx->request_progress != HTP_REQUEST_COMPLETE) {\n        htp_status_t rc = htp_tx_state_request_complete_partial(tx);\n        if (rc != HTP_OK) return rc;\n    }',
  '    if (tx->request_progress == HTP_REQUEST_COMPLETE) {\n    } else {\n        htp_status_t rc = htp_tx_state_request_complete_partial(tx);\n        if (rc != HTP_OK) return rc;\n    }')
M('c05b-early-ok-before-detach', 'C05', 'break', TX,
  '    // Make a copy of the connection parser pointer, so that\n    // we don\'t have to reference it via tx, which may be\n    // destroyed later.\n    htp_connp_t *connp = tx->connp;\n\n    // Determine what happens next, and remove this transaction from the parser.',
  '    if (tx->request_ignored_lines > 3) return HTP_OK;\n    htp_connp_t *connp = tx->connp;\n\n    // Determine what happens next, and remove this transaction from the parser.', 'C05.b')
M('c05b-response-forgets-idle', 'C05', 'break', TX,
  '    connp->out_tx = NULL;\n\n    connp->out_state = htp_connp_RES_IDLE;',
  '    connp->out_tx = NULL;\n    if (hybrid_mode) connp->out_state = htp_connp_RES_IDLE;', 'C05.b')
M('c05d-progress-decrement', 'C05', 'break', RQ,
  '            connp->in_tx->request_progress = HTP_REQUEST_BODY;\n            break;\n\n        case HTP_CODING_IDENTITY:',
  '            connp->in_tx->request_progress--;\n            break;\n\n        case HTP_CODING_IDENTITY:', 'C05.d')
M('c05d-restart-outside-100', 'C05', 'break', RS,
  '    if (connp->out_tx->response_status_number == 100 && te == NULL) {',
  '    if (connp->out_tx->response_status_number <= 100 && te == NULL) {', 'C05.d')

# ---------------- C04
CP = 'htp/htp_connection_parser.c'
M('c04b-no-increment-unmatched', 'C04', 'break', RS,
  '        // We\'ve used one transaction\n        connp->out_next_tx_index++;\n    } else {',
  '    } else {', 'C04.b')
M('c04b-no-decrement-on-shift', 'C04', 'break', CP,
  '        r++;\n        connp->out_next_tx_index--;', '        r++;', 'C04.b')
M('c04b-extra-writer', 'C04', 'break', CP,
  '    connp->in_chunk_request_index = connp->in_chunk_count;\n}',
  '    connp->in_chunk_request_index = connp->in_chunk_count;\n    if (connp->out_next_tx_index > 1000) connp->out_next_tx_index = 0;\n}', 'C04.b')
M('c04b-keep-hoist-increment', 'C04', 'keep', RS,
  '        // We\'ve used one transaction\n        connp->out_next_tx_index++;\n    } else {\n        // We\'ve used one transaction\n        connp->out_next_tx_index++;\n',
  '    } else {\n', edits=[(RS, '        // We\'ve used one transaction\n        connp->out_next_tx_index++;\n    } else {\n        // We\'ve used one transaction\n        connp->out_next_tx_index++;\n', '    } else {\n'),
                          (RS, '    htp_status_t rc = htp_tx_state_response_start(connp->out_tx);\n    if (rc != HTP_OK) return rc;\n\n    return HTP_OK;\n}\n\nint htp_connp_res_data', '    connp->out_next_tx_index++;\n    htp_status_t rc = htp_tx_state_response_start(connp->out_tx);\n    if (rc != HTP_OK) return rc;\n\n    return HTP_OK;\n}\n\nint htp_connp_res_data')])
M('c04c-get-after-increment', 'C04', 'break', RS,
  '    connp->out_tx = htp_list_get(connp->conn->transactions, connp->out_next_tx_index);\n    if (connp->out_tx == NULL) {',
  '    connp->out_tx = htp_list_get(connp->conn->transactions, connp->out_next_tx_index + (connp->out_next_tx_index > 64));\n    if (connp->out_tx == NULL) {', 'C04.c')
M('c04a-shift-live-tx', 'C04', 'break', CP,
  '        if (tx != NULL) {\n            break;\n        }\n        htp_list_shift',
  '        if (tx != NULL && i > 2) {\n            break;\n        }\n        htp_list_shift', 'C04.a')
M('c04a-index-after-push', 'C04', 'break', TX,
  '    tx->index = htp_list_size(tx->conn->transactions);\n    tx->cfg = connp->cfg;',
  '    tx->index = htp_list_size(tx->conn->transactions) + connp->in_chunk_count % 2 * 0 + (connp->conn->flags & 1);\n    tx->cfg = connp->cfg;', 'C04.a')
M('c04d-pipelined-ge', 'C04', 'break', CP,
  '    if (htp_list_size(connp->conn->transactions) > connp->out_next_tx_index) {',
  '    if (htp_list_size(connp->conn->transactions) > connp->out_next_tx_index + 1) {', 'C04.d')
M('c04d-pipelined-after-create', 'C04', 'break', CP,
  '    // Detect pipelining.\n    if (htp_list_size(connp->conn->transactions) > connp->out_next_tx_index) {\n        connp->conn->flags |= HTP_CONN_PIPELINED;\n    }\n',
  '', 'C04.d', edits=[(CP, '    // Detect pipelining.\n    if (htp_list_size(connp->conn->transactions) > connp->out_next_tx_index) {\n        connp->conn->flags |= HTP_CONN_PIPELINED;\n    }\n', ''),
                      (CP, '    connp->in_tx = tx;   \n', '    connp->in_tx = tx;   \n    if (htp_list_size(connp->conn->transactions) > connp->out_next_tx_index) {\n        connp->conn->flags |= HTP_CONN_PIPELINED;\n    }\n')])

# ---------------- C06
M('c06a-drop-entity-len-none-arm', 'C06', 'break', TX,
  '            tx->response_entity_len += d.len;\n\n            htp_status_t rc = htp_res_run_hook_body_data(tx->connp, &d);',
  '            ;\n            htp_status_t rc = htp_res_run_hook_body_data(tx->connp, &d);', 'C06.a')
M('c06a-keep-local-n', 'C06', 'keep', TX,
  '    d->tx->request_entity_len += d->len;\n\n    // Invoke all callbacks.\n    htp_status_t rc = htp_req_run_hook_body_data(d->tx->connp, d);',
  '    htp_tx_t *txl = d->tx;\n    txl->request_entity_len += d->len;\n\n    // Invoke all callbacks.\n    htp_status_t rc = htp_req_run_hook_body_data(d->tx->connp, d);')
M('c06a-entity-len-uses-other-len', 'C06', 'break', TX,
  '            tx->request_entity_len += d.len;\n            htp_status_t rc = htp_req_run_hook_body_data(tx->connp, &d);',
  '            tx->request_entity_len += len + (len > 65536);\n            htp_status_t rc = htp_req_run_hook_body_data(tx->connp, &d);', 'C06.a')
M('c06b-chunked-data-drop-consume', 'C06', 'break', RS,
  '    connp->out_current_read_offset += bytes_to_consume;\n    connp->out_current_consume_offset += bytes_to_consume;\n    connp->out_stream_offset += bytes_to_consume;\n    connp->out_chunked_length -= bytes_to_consume;',
  '    connp->out_current_read_offset += bytes_to_consume;\n    connp->out_stream_offset += bytes_to_consume;\n    connp->out_chunked_length -= bytes_to_consume;', 'C06.b')
M('c06b-identity-left-not-decremented-on-path', 'C06', 'break', RQ,
  '    connp->in_body_data_left -= bytes_to_consume;\n\n    if (connp->in_body_data_left == 0) {',
  '    if (bytes_to_consume > 1) connp->in_body_data_left -= bytes_to_consume;\n\n    if (connp->in_body_data_left == 0) {', 'C06.b')
M('c06b-keep-reorder', 'C06', 'keep', RQ,
  '    connp->in_current_read_offset += bytes_to_consume;\n    connp->in_current_consume_offset += bytes_to_consume;\n    connp->in_stream_offset += bytes_to_consume;\n    connp->in_body_data_left -= bytes_to_consume;',
  '    connp->in_body_data_left -= bytes_to_consume;\n    connp->in_stream_offset += bytes_to_consume;\n    connp->in_current_consume_offset += bytes_to_consume;\n    connp->in_current_read_offset += bytes_to_consume;')
M('c06b-min-shape-broken', 'C06', 'break', RS,
  '    if (connp->out_current_len - connp->out_current_read_offset >= connp->out_body_data_left) {\n        bytes_to_consume = connp->out_body_data_left;',
  '    if (connp->out_current_len - connp->out_current_read_offset + 1 >= connp->out_body_data_left) {\n        bytes_to_consume = connp->out_body_data_left;', 'C06.b')
M('c06c-central-message-len-missing', 'C06', 'break', TX,
  '    // Keep track of body size before decompression.\n    tx->request_message_len += d.len;\n\n    switch(tx->request_content_encoding) {', '    switch(tx->request_content_encoding) {', 'C06')
M('c06c-response-central-accounting-moved', 'C06', 'break', TX,
  '    // Keep track of body size before decompression.\n    tx->response_message_len += d.len;\n',
  '', 'C06.c', edits=[(TX, '    // Keep track of body size before decompression.\n    tx->response_message_len += d.len;\n', ''),
                      (TX, '            tx->response_entity_len += d.len;\n\n            htp_status_t rc = htp_res_run_hook_body_data(tx->connp, &d);', '            tx->response_entity_len += d.len;\n            tx->response_message_len += d.len;\n\n            htp_status_t rc = htp_res_run_hook_body_data(tx->connp, &d);')])
M('c06d-marker-after-hook', 'C06', 'break', TX,
  '    // Finalize request body.\n    if (htp_tx_req_has_body(tx)) {\n        htp_status_t rc = htp_tx_req_process_body_data_ex(tx, NULL, 0);\n        if (rc != HTP_OK) return rc;\n    }\n\n    tx->request_progress = HTP_REQUEST_COMPLETE;\n\n    // Run hook REQUEST_COMPLETE.\n    htp_status_t rc = htp_hook_run_all(tx->connp->cfg->hook_request_complete, tx);\n    if (rc != HTP_OK) return rc;',
  '    tx->request_progress = HTP_REQUEST_COMPLETE;\n\n    // Run hook REQUEST_COMPLETE.\n    htp_status_t rc = htp_hook_run_all(tx->connp->cfg->hook_request_complete, tx);\n    if (rc != HTP_OK) return rc;\n    if (htp_tx_req_has_body(tx)) {\n        rc = htp_tx_req_process_body_data_ex(tx, NULL, 0);\n        if (rc != HTP_OK) return rc;\n    }', 'C06.d')
M('c06d-marker-condition-weakened', 'C06', 'break', TX,
  '        if (tx->response_transfer_coding != HTP_CODING_NO_BODY) {\n            htp_tx_res_process_body_data_ex(tx, NULL, 0);',
  '        if (tx->response_transfer_coding == HTP_CODING_CHUNKED) {\n            htp_tx_res_process_body_data_ex(tx, NULL, 0);', 'C06.d')

# ---------------- C07
DC = 'htp/htp_decompressors.c'
M('c07a-ratio-20480', 'C07', 'break', 'htp/htp_private.h', '#define HTP_COMPRESSION_BOMB_RATIO          2048', '#define HTP_COMPRESSION_BOMB_RATIO          20480', 'C07.a')
M('c07a-bomb-test-skipped-on-path', 'C07', 'break', TX,
  '    if (d->tx->response_entity_len > d->tx->connp->cfg->compression_bomb_limit &&\n        d->tx->response_entity_len > HTP_COMPRESSION_BOMB_RATIO * d->tx->response_message_len) {',
  '    if (d->tx->connp->out_decompressor->passthrough) return HTP_OK;\n    if (d->tx->response_entity_len > d->tx->connp->cfg->compression_bomb_limit &&\n        d->tx->response_entity_len > HTP_COMPRESSION_BOMB_RATIO * d->tx->response_message_len) {', 'C07.a')
M('c07a-bomb-logs-only', 'C07', 'break', TX,
  '                d->tx->request_entity_len, d->tx->request_message_len);\n        return HTP_ERROR;',
  '                d->tx->request_entity_len, d->tx->request_message_len);', 'C07.a')
M('c07a-keep-rename-macro', 'C07', 'keep', 'htp/htp_private.h', '#define HTP_COMPRESSION_BOMB_RATIO          2048', '#define HTP_COMPRESSION_BOMB_RATIO          (1024 * 2)')
M('c07b-len-bufsize-times-two', 'C07', 'break', DC,
  '            d2.data = drec->buffer;\n            d2.len = GZIP_BUF_SIZE;',
  '            d2.data = drec->buffer;\n            d2.len = GZIP_BUF_SIZE + drec->stream.avail_out;', 'C07.b')
M('c07b-passthrough-len-from-consumed', 'C07', 'break', DC,
  '            d2.data = d->data;\n            d2.len = d->len;\n            d2.is_last = d->is_last;\n\n            callback_rc = drec->super.callback(&d2);\n            if (callback_rc != HTP_OK) {\n                return HTP_ERROR;\n            }\n\n            drec->stream.avail_out = GZIP_BUF_SIZE;',
  '            d2.data = d->data;\n            d2.len = d->len - consumed;\n            d2.is_last = d->is_last;\n\n            callback_rc = drec->super.callback(&d2);\n            if (callback_rc != HTP_OK) {\n                return HTP_ERROR;\n            }\n\n            drec->stream.avail_out = GZIP_BUF_SIZE;', 'C07.b')
M('c07c-no-end-on-error', 'C07', 'break', DC,
  '            if (callback_rc != HTP_OK) {\n                htp_gzip_decompressor_end(drec);\n                return callback_rc;\n            }\n\n            drec->stream.next_out = drec->buffer;',
  '            if (callback_rc != HTP_OK) {\n                return callback_rc;\n            }\n\n            drec->stream.next_out = drec->buffer;', 'C07.c')
M('c07c-end-does-not-reset-buffer', 'C07', 'break', DC,
  '    drec->stream.next_out = drec->buffer;\n    drec->stream.avail_out = GZIP_BUF_SIZE;\n    if (drec->zlib_initialized == HTP_COMPRESSION_LZMA) {',
  '    if (drec->zlib_initialized == HTP_COMPRESSION_LZMA) {', 'C07.c')
M('c07c-uninitialised-arm-keeps-going', 'C07', 'break', DC,
  '            // no initialization means previous error on stream\n            return HTP_ERROR;',
  '            // no initialization means previous error on stream\n            drec->stream.avail_out = 0; drec->stream.avail_in = 0;', 'C07.c')
M('c07e-layers-not-counted', 'C07', 'break', TX,
  '                if ((tx->connp->cfg->response_decompression_layer_limit != 0) &&\n                    ((++layers) > tx->connp->cfg->response_decompression_layer_limit))',
  '                if ((tx->connp->cfg->response_decompression_layer_limit != 0) && (tok_len > 8) &&\n                    ((++layers) > tx->connp->cfg->response_decompression_layer_limit))', 'C07.e')
M('c07e-lzma-limit-dropped', 'C07', 'break', TX,
  '                    if (nblzma > tx->connp->cfg->response_lzma_layer_limit) {',
  '                    if (0) {', 'C07.e')

# ---------------- C10
RG, SG = 'htp/htp_request_generic.c', 'htp/htp_response_generic.c'
M('c10a-limit-after-alloc', 'C10', 'break', RQ,
  '    if (newlen > connp->in_tx->cfg->field_limit_hard) {\n        htp_log(connp, HTP_LOG_MARK, HTP_LOG_ERROR, 0, "Request buffer over the limit: size %zd limit %zd.",\n                newlen, connp->in_tx->cfg->field_limit_hard);        \n        return HTP_ERROR;\n    }\n',
  '    if (newlen > connp->in_tx->cfg->field_limit_hard && connp->in_buf != NULL) {\n        htp_log(connp, HTP_LOG_MARK, HTP_LOG_ERROR, 0, "Request buffer over the limit: size %zd limit %zd.",\n                newlen, connp->in_tx->cfg->field_limit_hard);        \n        return HTP_ERROR;\n    }\n', 'C10.a')
M('c10a-header-term-dropped', 'C10', 'break', RS,
  '    if (connp->out_header != NULL) {\n        newlen += bstr_len(connp->out_header);\n    }\n\n    if (newlen > connp->out_tx->cfg->field_limit_hard) {',
  '    if (newlen > connp->out_tx->cfg->field_limit_hard) {', 'C10.a')
M('c10a-over-limit-truncates', 'C10', 'break', RS,
  '                newlen, connp->out_tx->cfg->field_limit_hard);\n        return HTP_ERROR;',
  '                newlen, connp->out_tx->cfg->field_limit_hard);\n        return HTP_OK;', 'C10.a')
M('c10a-driver-ignores-buffer-failure', 'C10', 'break', RS,
  '                    if (htp_connp_res_buffer(connp) != HTP_OK) {\n                        connp->out_status = HTP_STREAM_ERROR;\n                        return HTP_STREAM_ERROR;\n                    }',
  '                    htp_connp_res_buffer(connp);', 'C10.a')
M('c10a-finalize-ignores-again', 'C10', 'break', RQ,
  '        if (htp_connp_req_consolidate_data(connp, &data, &len) != HTP_OK) {\n            return HTP_ERROR;\n        }\n    }\n    // Interpret remaining bytes as body data',
  '        htp_connp_req_consolidate_data(connp, &data, &len);\n    }\n    // Interpret remaining bytes as body data', 'C10.a')
M('c10a-keep-flip-test', 'C10', 'keep', RQ,
  '    if (newlen > connp->in_tx->cfg->field_limit_hard) {\n        htp_log(connp, HTP_LOG_MARK, HTP_LOG_ERROR, 0, "Request buffer over the limit: size %zd limit %zd.",\n                newlen, connp->in_tx->cfg->field_limit_hard);        \n        return HTP_ERROR;\n    }\n',
  '    if (!(newlen <= connp->in_tx->cfg->field_limit_hard)) {\n        htp_log(connp, HTP_LOG_MARK, HTP_LOG_ERROR, 0, "Request buffer over the limit: size %zd limit %zd.",\n                newlen, connp->in_tx->cfg->field_limit_hard);        \n        return HTP_ERROR;\n    }\n')
M('c10b-folded-cap-deleted', 'C10', 'break', RQ,
  '                    if (bstr_len(connp->in_header) < HTP_MAX_HEADER_FOLDED) {\n                        bstr *new_in_header',
  '                    if (bstr_len(connp->in_header) < HTP_MAX_HEADER_FOLDED || len < 64) {\n                        bstr *new_in_header', 'C10.b')
M('c10c-repetition-cap-deleted', 'C10', 'break', SG,
  '            if (connp->out_tx->res_header_repetitions < HTP_MAX_HEADERS_REPETITIONS) {\n                connp->out_tx->res_header_repetitions++;\n            } else {\n                bstr_free(h->name);\n                bstr_free(h->value);\n                free(h);\n                return HTP_OK;\n            }',
  '            connp->out_tx->res_header_repetitions++;', 'C10.c')
M('c10c-counter-not-incremented', 'C10', 'break', RG,
  '            if (connp->in_tx->req_header_repetitions < HTP_MAX_HEADERS_REPETITIONS) {\n                connp->in_tx->req_header_repetitions++;\n            } else {',
  '            if (connp->in_tx->req_header_repetitions < HTP_MAX_HEADERS_REPETITIONS) {\n            } else {', 'C10.c')
M('c10d-max-tx-test-weakened', 'C10', 'break', CP,
  '    if (connp->cfg->max_tx > 0 &&\n        htp_list_size(connp->conn->transactions) > connp->cfg->max_tx) {',
  '    if (connp->cfg->max_tx > 0 && connp->out_next_tx_index == 0 &&\n        htp_list_size(connp->conn->transactions) > connp->cfg->max_tx) {', 'C10.d')
M('c10d-direct-create', 'C10', 'break', RS,
  '        connp->out_tx = htp_connp_tx_create(connp);\n        if (connp->out_tx == NULL) {',
  '        connp->out_tx = htp_tx_create(connp);\n        if (connp->out_tx == NULL) {', 'C10.d')
M('c10e-auto-destroy-skipped', 'C10', 'break', TX,
  '    if (tx_auto_destroy) {\n        htp_tx_destroy(tx);\n    }',
  '    if (tx_auto_destroy && tx->index < 1024) {\n        htp_tx_destroy(tx);\n    }', 'C10.e')
M('c10e-previous-chain-leaked', 'C10', 'break', TX,
  '        if (tx->connp->out_decompressor != NULL) {\n            htp_tx_res_destroy_decompressors(tx->connp);\n        }\n',
  '', 'C10.e')

# ---------------- C08
M('c08b-junk-cap-deleted', 'C08', 'break', RQ,
  '        if (connp->in_current_len > connp->in_current_read_offset + HTTP09_MAX_JUNK_LEN) {',
  '        if (connp->in_current_len > connp->in_current_read_offset + HTTP09_MAX_JUNK_LEN && connp->in_tx->request_ignored_lines) {', 'C08.b')
M('c08c-empty-chunk-line-not-consumed', 'C08', 'break', RS,
  '            if (connp->out_chunked_length == -1004) {\n                htp_connp_res_clear_buffer(connp);\n                continue;',
  '            if (connp->out_chunked_length == -1004) {\n                continue;', 'C08.c')
M('c08d-nul-skip-deleted', 'C08', 'break', 'htp/bstr.c',
  '        if (data1[i] == 0) {\n            // skip leading zeroes to avoid quadratic complexity\n            continue;\n        }\n',
  '', 'C08.d')
M('c08a-folded-cap', 'C08', 'break', RS,
  '                        if (bstr_len(connp->out_header) < HTP_MAX_HEADER_FOLDED) {',
  '                        if (1) {', 'C08.a')
M('c08e-second-per-byte-rescan', 'C08', 'break', RQ,
  '        // Have we reached the end of the line?\n        if (connp->in_next_byte == LF) {\n            unsigned char *data;\n            size_t len;\n\n            if (htp_connp_req_consolidate_data(connp, &data, &len) != HTP_OK) {\n                return HTP_ERROR;\n            }\n\n            connp->in_tx->request_message_len += len;',
  '        // Have we reached the end of the line?\n        if (connp->in_next_byte == LF || !req_probe_len(connp)) {\n            unsigned char *data;\n            size_t len;\n\n            if (htp_connp_req_consolidate_data(connp, &data, &len) != HTP_OK) {\n                return HTP_ERROR;\n            }\n\n            connp->in_tx->request_message_len += len;', 'C08.e',
  edits=[(RQ, '        // Have we reached the end of the line?\n        if (connp->in_next_byte == LF) {\n            unsigned char *data;\n            size_t len;\n\n            if (htp_connp_req_consolidate_data(connp, &data, &len) != HTP_OK) {\n                return HTP_ERROR;\n            }\n\n            connp->in_tx->request_message_len += len;',
          '        // Have we reached the end of the line?\n        if (connp->in_next_byte == LF || !req_probe_len(connp)) {\n            unsigned char *data;\n            size_t len;\n\n            if (htp_connp_req_consolidate_data(connp, &data, &len) != HTP_OK) {\n                return HTP_ERROR;\n            }\n\n            connp->in_tx->request_message_len += len;'),
         (RQ, 'htp_status_t htp_connp_REQ_BODY_CHUNKED_LENGTH(htp_connp_t *connp) {',
          'static int req_probe_len(htp_connp_t *connp) {\n    unsigned char *p = connp->in_current_data + connp->in_current_consume_offset;\n    size_t n = connp->in_current_read_offset - connp->in_current_consume_offset;\n    for (size_t i = 0; i < n; i++) if (p[i] > 0x7f) return 0;\n    return 1;\n}\n\nhtp_status_t htp_connp_REQ_BODY_CHUNKED_LENGTH(htp_connp_t *connp) {')])

# ---------------- C11
M('c11a-te-cl-smuggling-dropped', 'C11', 'break', TX,
  '                //  the latter MUST be ignored."\n                //\n                tx->flags |= HTP_REQUEST_SMUGGLING;',
  '                //  the latter MUST be ignored."\n                //', 'C11.a')
M('c11a-te-cl-framed-by-identity', 'C11', 'break', TX,
  '            // If the T-E header is present we are going to use it.\n            tx->request_transfer_coding = HTP_CODING_CHUNKED;\n\n            // We are still going to check for the presence of C-L.\n            if (cl != NULL) {',
  '            // If the T-E header is present we are going to use it.\n            tx->request_transfer_coding = HTP_CODING_CHUNKED;\n\n            // We are still going to check for the presence of C-L.\n            if (cl != NULL && tx->request_protocol_number < HTP_PROTOCOL_1_1) {\n                tx->request_transfer_coding = HTP_CODING_IDENTITY;\n            }\n            if (cl != NULL) {', 'C11.a')
M('c11a-old-proto-only-invalid-te', 'C11', 'break', TX,
  '                tx->flags |= HTP_REQUEST_INVALID_T_E;\n                tx->flags |= HTP_REQUEST_SMUGGLING;\n            }',
  '                tx->flags |= HTP_REQUEST_INVALID_T_E;\n            }', 'C11.a')
M('c11a-repeated-test-moved-into-else', 'C11', 'break', TX,
  '        // Check for multiple C-L headers.\n        if (cl->flags & HTP_FIELD_REPEATED) {\n            tx->flags |= HTP_REQUEST_SMUGGLING;',
  '        // Check for multiple C-L headers.\n        if ((cl->flags & HTP_FIELD_REPEATED) && (bstr_chr(cl->value, \',\') >= 0)) {\n            tx->flags |= HTP_REQUEST_SMUGGLING;', 'C11.a')
M('c11a-invalid-cl-not-invalid', 'C11', 'break', TX,
  '            tx->flags |= HTP_REQUEST_INVALID_C_L;\n            tx->flags |= HTP_REQUEST_INVALID;\n        } else {',
  '            tx->flags |= HTP_REQUEST_INVALID_C_L;\n        } else {', 'C11.a')
M('c11a-keep-has-cl-local', 'C11', 'keep', TX,
  '            // We are still going to check for the presence of C-L.\n            if (cl != NULL) {\n                // According to the HTTP/1.1 RFC (section 4.4):',
  '            // We are still going to check for the presence of C-L.\n            if (!(cl == NULL)) {\n                // According to the HTTP/1.1 RFC (section 4.4):')
M('c11h-host-missing-only-1-1-exact', 'C11', 'break', TX,
  '        if (tx->request_protocol_number >= HTP_PROTOCOL_1_1) {\n            tx->flags |= HTP_HOST_MISSING;',
  '        if (tx->request_protocol_number == HTP_PROTOCOL_1_1 && tx->request_method_number != HTP_M_CONNECT) {\n            tx->flags |= HTP_HOST_MISSING;', 'C11.h')
M('c11h-port-compare-dropped', 'C11', 'break', TX,
  '                if (((tx->request_port_number != -1)&&(port != -1))&&(tx->request_port_number != port)) {\n                    tx->flags |= HTP_HOST_AMBIGUOUS;\n                }',
  '', 'C11.h')
M('c11h-invalid-host-not-ambiguous', 'C11', 'break', TX,
  '            if (tx->request_hostname != NULL) {\n                // Raise the flag, even though the host information in the headers is invalid.\n                tx->flags |= HTP_HOST_AMBIGUOUS;\n            }',
  '', 'C11.h')
M('c11h-hosth-validation-dropped', 'C11', 'break', 'htp/htp_util.c',
  '    if (*hostname != NULL) {\n        if (htp_validate_hostname(*hostname) == 0) {\n            *flags |= HTP_HOSTH_INVALID;\n        }\n    }',
  '', 'C11.h')
M('c11r-response-te-cl-smuggling-dropped', 'C11', 'break', RS,
  '            if (cl != NULL) {\n                // This is a violation of the RFC\n                connp->out_tx->flags |= HTP_REQUEST_SMUGGLING;\n            }',
  '', 'C11.r')
M('c11c-cap-drops-before-repeated', 'C11', 'break', RG,
  '        if ((h_existing->flags & HTP_FIELD_REPEATED) == 0) {\n            // This is the second occurence for this header.\n            htp_log(connp, HTP_LOG_MARK, HTP_LOG_WARNING, 0, "Repetition for header");\n        } else {',
  '        if (connp->in_tx->req_header_repetitions == 0 && (h_existing->flags & HTP_FIELD_REPEATED) == 0) {\n            // This is the second occurence for this header.\n            htp_log(connp, HTP_LOG_MARK, HTP_LOG_WARNING, 0, "Repetition for header");\n        } else {', 'C11.c')
M('c11b-new-dead-flag', 'C11', 'break', TX,
  '    // Check for PUT requests, which we need to treat as file uploads.',
  '    if (cl != NULL && (cl->flags & HTP_FIELD_RAW_NUL)) tx->flags |= HTP_REQUEST_SMUGGLING;\n    // Check for PUT requests, which we need to treat as file uploads.', 'C11.b')

# ---------------- C12
UT, CFGC = 'htp/htp_util.c', 'htp/htp_config.c'
M('c12a-dot-segments-before-utf8', 'C12', 'break', UT,
  '        htp_decode_path_inplace(tx, normalized->path);\n',
  '        htp_decode_path_inplace(tx, normalized->path);\n        htp_normalize_uri_path_inplace(normalized->path);\n', 'C12.a',
  edits=[(UT, '        htp_decode_path_inplace(tx, normalized->path);\n', '        htp_decode_path_inplace(tx, normalized->path);\n        htp_normalize_uri_path_inplace(normalized->path);\n'),
         (UT, '        // RFC normalization.\n        htp_normalize_uri_path_inplace(normalized->path);\n', '')])
M('c12a-validate-skipped-when-bestfit-off', 'C12', 'break', UT,
  '            // No decoding, but try to validate the path as a UTF-8 stream.\n            htp_utf8_validate_path(tx, normalized->path);',
  '            // No decoding, but try to validate the path as a UTF-8 stream.\n            if (tx->cfg->decoder_cfgs[HTP_DECODER_URL_PATH].utf8_invalid_unwanted != HTP_UNWANTED_IGNORE) htp_utf8_validate_path(tx, normalized->path);', 'C12.a')
M('c12b-loop-guard-wpos-dropped', 'C12', 'break', UT,
  '    size_t wpos = 0;\n    int previous_was_separator = 0;\n\n    while ((rpos < len) && (wpos < len)) {',
  '    size_t wpos = 0;\n    int previous_was_separator = 0;\n\n    while (rpos < len) {', 'C12.b')
M('c12b-double-write-per-iteration', 'C12', 'break', UT,
  '                    data[wpos++] = bestfit_codepoint(cfg, HTP_DECODER_URL_PATH, codepoint);',
  '                    data[wpos++] = bestfit_codepoint(cfg, HTP_DECODER_URL_PATH, codepoint);\n                    if (codepoint > 0xffff) data[wpos++] = cfg->decoder_cfgs[HTP_DECODER_URL_PATH].bestfit_replacement_byte;', 'C12.b')
M('c12b-adjust-len-rpos', 'C12', 'break', UT,
  '            data[wpos++] = c;\n        }\n    }\n\n    bstr_adjust_len(path, wpos);',
  '            data[wpos++] = c;\n        }\n    }\n\n    bstr_adjust_len(path, rpos);', 'C12.b')
M('c12c-encoded-nul-raise-dropped-u-arm', 'C12', 'break', UT,
  '                                if (c == 0) {\n                                    tx->flags |= HTP_PATH_ENCODED_NUL;\n\n                                    if (cfg->decoder_cfgs[HTP_DECODER_URL_PATH].nul_encoded_unwanted',
  '                                if (c == 0) {\n                                    if (cfg->decoder_cfgs[HTP_DECODER_URL_PATH].nul_encoded_unwanted', 'C12.c', tier='quick')
M('c12c-raw-nul-raise-removed', 'C12', 'break', UT,
  '                tx->flags |= HTP_PATH_RAW_NUL;\n\n', '', 'C12.c')
M('c12c-overlong-raise-removed', 'C12', 'break', UT,
  'tx->flags |= HTP_PATH_UTF8_OVERLONG;', ';', 'C12.c', count=6)
M('c12d-setter-wrong-field', 'C12', 'break', CFGC,
  '    cfg->decoder_cfgs[ctx].nul_raw_terminates = convert_to_0_or_1(enabled);',
  '    cfg->decoder_cfgs[ctx].nul_encoded_terminates = convert_to_0_or_1(enabled);', 'C12.d')
M('c12d-defaults-loop-other-field', 'C12', 'break', CFGC,
  '            cfg->decoder_cfgs[i].utf8_invalid_unwanted = unwanted;',
  '            cfg->decoder_cfgs[i].url_encoding_invalid_unwanted = unwanted;', 'C12.d')

# ---------------- C13
M('c13a-scheme-for-slash', 'C13', 'break', UT, "    if (data[0] != '/') {\n        // Parse scheme", "    if (data[0] != '/' || (len > 1 && data[1] == '/')) {\n        // Parse scheme", 'C13.a')
M('c13a-authority-without-scheme', 'C13', 'break', UT, "    if ((*uri)->scheme != NULL)\n        if ((pos + 2 < len)", "    if (((*uri)->scheme != NULL) || (len > 2))\n        if ((pos + 2 < len)", 'C13.a')
M('c13b-port-65536-accepted', 'C13', 'break', UT, "    } else if ((port_parsed > 0) && (port_parsed < 65536)) {\n        // Valid port number.\n        *port = (int) port_parsed;", "    } else if ((port_parsed > 0) && (port_parsed <= 65536)) {\n        // Valid port number.\n        *port = (int) port_parsed;", 'C13.b')
M('c13b-port-zero-accepted-normalize', 'C13', 'break', UT, "        } else if ((port_parsed > 0) && (port_parsed < 65536)) {\n            // Valid port number.\n            normalized->port_number", "        } else if ((port_parsed >= 0) && (port_parsed < 65536)) {\n            // Valid port number.\n            normalized->port_number", 'C13.b')
M('c13b-out-of-range-not-marked', 'C13', 'break', UT, "        // Port number out of range.\n        *port = -1;\n        *invalid = 1;", "        // Port number out of range.\n        *port = -1;", 'C13.b')
M('c13c-fragment-from-literal', 'C13', 'break', UT, "        (*uri)->fragment = bstr_dup_mem(data + start, len - start);", "        (*uri)->fragment = (len - start) ? bstr_dup_mem(data + start, len - start) : bstr_dup_c(\"#\");", 'C13.c')
M('c13a-keep-eq-form', 'C13', 'keep', UT, "    if (data[0] != '/') {\n        // Parse scheme", "    if (!(data[0] == '/')) {\n        // Parse scheme")

# ---------------- C17
LS, TB, BS = 'htp/htp_list.c', 'htp/htp_table.c', 'htp/bstr.c'
M('c17a-growth-forgets-last', 'C17', 'break', LS, "        l->first = 0;\n        l->last = l->current_size;\n        l->max_size = new_size;", "        l->first = 0;\n        l->max_size = new_size;", 'C17.a')
M('c17a-shift-no-wrap', 'C17', 'break', LS, "    l->first++;\n    if (l->first == l->max_size) {\n        l->first = 0;\n    }\n\n    l->current_size--;", "    l->first++;\n\n    l->current_size--;", 'C17.a')
M('c17a-get-le', 'C17', 'break', LS, "    if (l->first + idx < l->max_size) {", "    if (l->first + idx <= l->max_size) {", 'C17.a')
M('c17a-get-no-size-check', 'C17', 'break', LS, "    if (idx >= l->current_size) return NULL;\n    \n", "", 'C17.a')
M('c17a-relinearise-tail-offset', 'C17', 'break', LS, "            memcpy((void *) ((char *) newblock + (l->max_size - l->first) * sizeof (void *)),", "            memcpy((void *) ((char *) newblock + (l->first) * sizeof (void *)),", 'C17.a')
M('c17a-pop-size-not-decremented-when-wrapped', 'C17', 'break', LS, "    r = l->elements[pos];\n    l->last = pos;\n\n    l->current_size--;", "    r = l->elements[pos];\n    l->last = pos;\n\n    if (pos) l->current_size--;", 'C17.a')
M('c17a-keep-modulo-wrap', 'C17', 'keep', LS, "    l->elements[(l->first + idx) % l->max_size] = e;", "    l->elements[(l->first + idx) % (l->max_size)] = e;")
M('c17b-overflow-check-dropped', 'C17', 'break', BS, "            if (((INT64_MAX - d) / base) < rval) {\n                // Overflow\n                return -2;\n            }\n", "", 'C17.b')
M('c17b-overflow-check-weak', 'C17', 'break', BS, "            if (((INT64_MAX - d) / base) < rval) {", "            if ((INT64_MAX / base) < rval - d) {", 'C17.b')
M('c17b-chunk-cap-dropped', 'C17', 'break', UT, "    if (chunk_len > INT32_MAX) return -1;\n", "", 'C17.b')
M('c17b-status-max', 'C17', 'break', 'htp/htp_private.h', "#define HTP_VALID_STATUS_MAX                999", "#define HTP_VALID_STATUS_MAX                9999", 'C17.b')
M('c17c-get-case-sensitive', 'C17', 'break', TB, "        if (bstr_cmp_nocase(key_candidate, key) == 0) {", "        if (bstr_cmp(key_candidate, key) == 0) {", 'C17.c')
M('c17c-get-c-last-match', 'C17', 'break', TB, "        if (bstr_cmp_c_nocasenorzero(key_candidate, ckey) == 0) {\n            return element;\n        }", "        if (bstr_cmp_c_nocasenorzero(key_candidate, ckey) == 0) {\n            found = element;\n        }", 'C17.c',
  edits=[(TB, "        if (bstr_cmp_c_nocasenorzero(key_candidate, ckey) == 0) {\n            return element;\n        }\n    }\n\n    return NULL;", "        if (bstr_cmp_c_nocasenorzero(key_candidate, ckey) == 0) {\n            found = element;\n        }\n    }\n\n    return found;"),
         (TB, "void *htp_table_get_c(const htp_table_t *table, const char *ckey) {\n    if ((table == NULL)||(ckey == NULL)) return NULL;\n", "void *htp_table_get_c(const htp_table_t *table, const char *ckey) {\n    if ((table == NULL)||(ckey == NULL)) return NULL;\n    void *found = NULL;\n")])
M('c17c-params-add-variant-mixed', 'C17', 'break', 'htp/htp_transaction.c', "    return htp_table_addk(tx->request_params, param->name, param);", "    if (param->source == HTP_SOURCE_COOKIE) return htp_table_add(tx->request_params, param->name, param);\n    return htp_table_addk(tx->request_params, param->name, param);", 'C17.c')

# ---------------- C18
M('c18a-tx-create-no-null-test', 'C18', 'break', TX, "    htp_tx_t *tx = calloc(1, sizeof (htp_tx_t));\n    if (tx == NULL) return NULL;\n", "    htp_tx_t *tx = calloc(1, sizeof (htp_tx_t));\n", 'C18.a')
M('c18a-list-push-newblock-copy', 'C18', 'break', LS, "            newblock = realloc(l->elements, new_size * sizeof (void *));\n            if (newblock == NULL) return HTP_ERROR;", "            newblock = realloc(l->elements, new_size * sizeof (void *));", 'C18.a')
M('c18a-urlenp-bb-escapes', 'C18', 'break', 'htp/htp_urlencoded.c', "    urlenp->_bb = bstr_builder_create();\n    if (urlenp->_bb == NULL) {\n        htp_table_destroy(urlenp->params);\n        free(urlenp);\n        return NULL;\n    }", "    urlenp->_bb = bstr_builder_create();", 'C18.a')
M('c18a-keep-pending-header-untested', 'C18', 'keep', RQ, "                    connp->in_header = bstr_dup_mem(data, len);\n                    if (connp->in_header == NULL) return HTP_ERROR;\n                }\n            } else {", "                    connp->in_header = bstr_dup_mem(data, len);\n                }\n            } else {")
M('c18a-keep-not-form', 'C18', 'keep', TX, "    htp_tx_t *tx = calloc(1, sizeof (htp_tx_t));\n    if (tx == NULL) return NULL;\n", "    htp_tx_t *tx = calloc(1, sizeof (htp_tx_t));\n    if (!tx) return NULL;\n")
M('c18a-decompressor-buffer-unchecked', 'C18', 'break', DC, "    drec->buffer = malloc(GZIP_BUF_SIZE);\n    if (drec->buffer == NULL) {\n        free(drec);\n        return NULL;\n    }", "    drec->buffer = malloc(GZIP_BUF_SIZE);", 'C18.a')
M('c18b-conn-open-dangling-again', 'C18', 'break', 'htp/htp_connection.c', "                free(conn->client_addr);\n                conn->client_addr = NULL;", "                free(conn->client_addr);", 'C18.b')
M('c18b-set-line-frees-without-clearing', 'C18', 'break', TX, "    if (tx->connp->cfg->parse_request_line(tx->connp) != HTP_OK) return HTP_ERROR;\n\n    return HTP_OK;\n}\n\nvoid htp_tx_req_set_parsed_uri", "    if (tx->connp->cfg->parse_request_line(tx->connp) != HTP_OK) {\n        bstr_free(tx->request_line);\n        return HTP_ERROR;\n    }\n\n    return HTP_OK;\n}\n\nvoid htp_tx_req_set_parsed_uri", 'C18.b')
M('c18b-keep-clear-through-temp', 'C18', 'keep', 'htp/htp_parsers.c', "        bstr_free(connp->in_tx->request_auth_username);\n        connp->in_tx->request_auth_username = NULL;", "        bstr *tmpu = connp->in_tx->request_auth_username;\n        connp->in_tx->request_auth_username = NULL;\n        bstr_free(tmpu);")
M('c18b-res-line-free-without-null', 'C18', 'break', RS, "            if (connp->out_tx->response_status != NULL) {\n                bstr_free(connp->out_tx->response_status);\n                connp->out_tx->response_status = NULL;\n            }", "            if (connp->out_tx->response_status != NULL) {\n                bstr_free(connp->out_tx->response_status);\n            }", 'C18.b')

# ---------------- C03
M('c03a-req-headers-drop-minus1-test', 'C03', 'break', RQ, "                if (connp->in_next_byte != -1 && htp_is_folding_char(connp->in_next_byte) == 0) {", "                if (htp_is_folding_char(connp->in_next_byte) == 0) {", 'C03.a')
M('c03a-keep-ge-zero', 'C03', 'keep', RQ, "                if (connp->in_next_byte != -1 && htp_is_folding_char(connp->in_next_byte) == 0) {", "                if (!(connp->in_next_byte == -1) && htp_is_folding_char(connp->in_next_byte) == 0) {")
M('c03a-res-headers-cr-peek-no-defer', 'C03', 'break', RS, "                OUT_PEEK_NEXT(connp);\n                if (connp->out_next_byte == -1) {\n                    return HTP_DATA_BUFFER;\n                } else if (connp->out_next_byte == LF) {\n                    OUT_COPY_BYTE_OR_RETURN(connp);\n                    if (lfcrending) {", "                OUT_PEEK_NEXT(connp);\n                if (connp->out_next_byte == LF) {\n                    OUT_COPY_BYTE_OR_RETURN(connp);\n                    if (lfcrending) {", 'C03.a')
M('c03a-res-line-cr-peek-no-defer', 'C03', 'break', RS, "            if (connp->out_next_byte == -1) {\n                return HTP_DATA_BUFFER;\n            } else if (connp->out_next_byte == LF) {\n                continue;\n            }\n            connp->out_next_byte = LF;", "            if (connp->out_next_byte == LF) {\n                continue;\n            }\n            connp->out_next_byte = LF;", 'C03.a')
M('c03a-req-line-completes-at-chunk-end', 'C03', 'break', RQ, "        if (connp->in_status == HTP_STREAM_CLOSED && connp->in_next_byte == -1) {\n            return htp_connp_REQ_LINE_complete(connp);", "        if (connp->in_next_byte == -1 && connp->in_current_consume_offset < connp->in_current_read_offset) {\n            return htp_connp_REQ_LINE_complete(connp);", 'C03.a')
M('c03b-copy-byte-returns-data', 'C03', 'break', RQ, "    (X)->in_stream_offset++; \\\n} else { \\\n    return HTP_DATA_BUFFER; \\\n}", "    (X)->in_stream_offset++; \\\n} else { \\\n    return HTP_DATA; \\\n}", 'C03.b')
M('c03b-keep-macro-as-if', 'C03', 'keep', RS, "#define OUT_COPY_BYTE_OR_RETURN(X) \\\nif ((X)->out_current_read_offset < (X)->out_current_len) { \\", "#define OUT_COPY_BYTE_OR_RETURN(X) \\\nif (!((X)->out_current_read_offset >= (X)->out_current_len)) { \\")
M('c03b-headers-forget-clear', 'C03', 'break', RS, "                htp_connp_res_clear_buffer(connp);\n\n                // We've seen all response headers.", "                // We've seen all response headers.", 'C03.b')
M('c03b-state-reads-raw-span', 'C03', 'break', RQ, "            if (htp_connp_req_consolidate_data(connp, &data, &len) != HTP_OK) {\n                return HTP_ERROR;\n            }\n\n            connp->in_tx->request_message_len += len;", "            data = connp->in_current_data + connp->in_current_consume_offset;\n            len = connp->in_current_read_offset - connp->in_current_consume_offset;\n\n            connp->in_tx->request_message_len += len;", 'C03.b')
M('c03c-buffer-overwrites', 'C03', 'break', RS, "        memcpy(connp->out_buf + connp->out_buf_size, data, len);", "        memcpy(connp->out_buf, data, len);", 'C03.c')
M('c03c-size-not-advanced', 'C03', 'break', RQ, "        memcpy(connp->in_buf + connp->in_buf_size, data, len);\n        connp->in_buf_size = newsize;", "        memcpy(connp->in_buf + connp->in_buf_size, data, len);\n        connp->in_buf_size = len;", 'C03.c')
M('c03d-new-lookahead', 'C03', 'break', RQ, "        // Have we reached the end of the line?\n        if (connp->in_next_byte == LF) {\n            return htp_connp_REQ_LINE_complete(connp);", "        // Have we reached the end of the line?\n        if (connp->in_next_byte == LF && !(connp->in_current_read_offset < connp->in_current_len && connp->in_current_data[connp->in_current_read_offset] == ' ')) {\n            return htp_connp_REQ_LINE_complete(connp);", 'C03.d')
M('c03e-rewind-to-consume', 'C03', 'break', RS, "    if (connp->out_current_read_offset < (int64_t)bytes_left) {\n        connp->out_current_read_offset=0;\n    } else {\n        connp->out_current_read_offset-=bytes_left;\n    }", "    connp->out_current_read_offset = connp->out_current_consume_offset;", 'C03.e')

# ---------------- C14
MP, UE = 'htp/htp_multipart.c', 'htp/htp_urlencoded.c'
M('c14a-other-byte-no-release', 'C14', 'break', MP, "                        if (parser->cr_aside) {\n                            parser->handle_data(parser, (unsigned char *) &\"\\r\", 1, /* not a line */ 0);\n                            parser->cr_aside = 0;\n                        }\n                    }\n                } // while", "                        parser->cr_aside = 0;\n                    }\n                } // while", 'C14.a')
M('c14a-fix-reverted', 'C14', 'break', MP, "                        if (parser->cr_aside) {\n                            parser->handle_data(parser, (unsigned char *) &\"\\r\", 1, /* not a line */ 0);\n                            parser->cr_aside = 0;\n                        }\n\n                        // Is this CR the last byte in the input buffer?", "                        // Is this CR the last byte in the input buffer?", 'C14.a')
M('c14a-aside-data-mode-no-emit', 'C14', 'break', MP, "        if (parser->cr_aside) {\n            parser->handle_data(parser, (const unsigned char *)&\"\\r\", 1, /* not a line */ 0);\n            parser->cr_aside = 0;\n        }", "        parser->cr_aside = 0;", 'C14.a')
M('c14b-header-pieces-not-cleared', 'C14', 'break', MP, "                if (line == NULL) return HTP_ERROR;\n                bstr_builder_clear(part->parser->part_header_pieces);", "                if (line == NULL) return HTP_ERROR;", 'C14.b')
M('c14c-mismatch-skips-aside-in-line-mode', 'C14', 'break', MP, "                        // Process stored (buffered) data.\n                        htp_martp_process_aside(parser, /* no match */ 0);\n\n                        // Return back where data parsing left off.", "                        // Process stored (buffered) data.\n                        if (parser->current_part_mode != MODE_LINE) htp_martp_process_aside(parser, /* no match */ 0);\n\n                        // Return back where data parsing left off.", 'C14.c')
M('c14c-tail-from-pos', 'C14', 'break', MP, "                bstr_builder_append_mem(parser->boundary_pieces, data + startpos, len - startpos);", "                bstr_builder_append_mem(parser->boundary_pieces, data + data_return_pos, len - data_return_pos);", 'C14.c')
M('c14d-tail-includes-cr', 'C14', 'break', MP, "                parser->handle_data(parser, data + startpos, pos - startpos - parser->cr_aside, /* not a line */ 0);", "                parser->handle_data(parser, data + startpos, pos - startpos, /* not a line */ 0);", 'C14.d')
M('c14d-strip-only-lf', 'C14', 'break', MP, "                        if ((dlen > 0) && (data[startpos + dlen - 1] == CR)) dlen--;\n", "", 'C14.d')
M('c14e-param-value-from-name', 'C14', 'break', 'htp/htp_content_handlers.c', "            param->value = part->value;", "            param->value = part->name;", 'C14.e')

# ---------------- C15
M('c15a-value-splits-at-every-eq', 'C15', 'break', UE, "                if ((c == urlenp->argument_separator) || (c == -1)) {\n                    // Data from startpos to pos.\n                    htp_urlenp_add_field_piece(urlenp, data, startpos, pos, c);\n\n                    // If it's not the end of input, then it must be the end of this field.\n                    if (c != -1) {\n                        // Next state.\n                        startpos = pos + 1;\n                        urlenp->_state = HTP_URLENP_STATE_KEY;", "                if ((c == urlenp->argument_separator) || (c == '=') || (c == -1)) {\n                    // Data from startpos to pos.\n                    htp_urlenp_add_field_piece(urlenp, data, startpos, pos, c);\n\n                    // If it's not the end of input, then it must be the end of this field.\n                    if (c != -1) {\n                        // Next state.\n                        startpos = pos + 1;\n                        urlenp->_state = HTP_URLENP_STATE_KEY;", 'C15.a')
M('c15a-restart-at-pos', 'C15', 'break', UE, "                        startpos = pos + 1;\n                        urlenp->_state = HTP_URLENP_STATE_KEY;\n                    }\n                }\n\n                pos++;\n\n                break;\n\n            default:", "                        startpos = pos;\n                        urlenp->_state = HTP_URLENP_STATE_KEY;\n                    }\n                }\n\n                pos++;\n\n                break;\n\n            default:", 'C15.a')
M('c15b-emit-at-chunk-end', 'C15', 'break', UE, "    if ((last_char != -1) || (urlenp->_complete)) {       ", "    if ((last_char != -1) || (urlenp->_complete) || (urlenp->_state == HTP_URLENP_STATE_VALUE && endpos > startpos + 64)) {       ", 'C15.b')
M('c15b-piece-not-stored-for-key', 'C15', 'break', UE, "        if ((data != NULL) && (endpos - startpos > 0)) {\n            bstr_builder_append_mem(urlenp->_bb, data + startpos, endpos - startpos);\n        }\n    }\n}", "        if ((data != NULL) && (endpos - startpos > 0) && (urlenp->_state == HTP_URLENP_STATE_VALUE)) {\n            bstr_builder_append_mem(urlenp->_bb, data + startpos, endpos - startpos);\n        }\n    }\n}", 'C15.b')
M('c15c-finalize-order', 'C15', 'break', UE, "    urlenp->_complete = 1;\n    return htp_urlenp_parse_partial(urlenp, NULL, 0);", "    htp_status_t rc = htp_urlenp_parse_partial(urlenp, NULL, 0);\n    urlenp->_complete = 1;\n    return rc;", 'C15.c')
M('c15c-value-not-decoded', 'C15', 'break', UE, "                htp_tx_urldecode_params_inplace(urlenp->tx, name);\n                htp_tx_urldecode_params_inplace(urlenp->tx, value);", "                htp_tx_urldecode_params_inplace(urlenp->tx, name);", 'C15.c')
M('c15b-builder-not-cleared', 'C14', 'break', UE, "            if (field == NULL) return;\n\n            bstr_builder_clear(urlenp->_bb);", "            if (field == NULL) return;\n", 'C14.b', )

# ---------------- C01
M('c01a-peek-off-by-one', 'C01', 'break', RQ, "#define IN_PEEK_NEXT(X) \\\nif ((X)->in_current_read_offset >= (X)->in_current_len) { \\", "#define IN_PEEK_NEXT(X) \\\nif ((X)->in_current_read_offset > (X)->in_current_len) { \\", 'C01.a')
M('c01a-h-lookahead-unguarded', 'C01', 'break', RS, "                if (connp->out_current_read_offset+1 < connp->out_current_len && (connp->out_current_data[connp->out_current_read_offset] == 'H' || len <= 2)) {", "                if ((connp->out_current_data[connp->out_current_read_offset] == 'H' || len <= 2) && connp->out_current_read_offset+1 < connp->out_current_len) {", 'C01.a')
M('c01a-keep-local-offset', 'C01', 'keep', RS, "            if (connp->out_current_read_offset < connp->out_current_len &&\n                connp->out_current_data[connp->out_current_read_offset] != LF) {", "            if (!(connp->out_current_read_offset >= connp->out_current_len) &&\n                connp->out_current_data[connp->out_current_read_offset] != LF) {")
M('c01b-u-decode-guard-4', 'C01', 'break', UT, "                        if (rpos + 5 < len) {\n                            if (isxdigit(data[rpos + 2]) && (isxdigit(data[rpos + 3]))\n                                    && isxdigit(data[rpos + 4]) && (isxdigit(data[rpos + 5]))) {\n                                // Decode a valid %u encoding\n                                c = decode_u_encoding_path", "                        if (rpos + 4 < len) {\n                            if (isxdigit(data[rpos + 2]) && (isxdigit(data[rpos + 3]))\n                                    && isxdigit(data[rpos + 4]) && (isxdigit(data[rpos + 5]))) {\n                                // Decode a valid %u encoding\n                                c = decode_u_encoding_path", 'C01.b')
M('c01b-cookie-scan-le', 'C01', 'break', 'htp/htp_cookies.c', "        while ((pos < len) && (data[pos] != ';')) pos++;", "        while ((pos <= len) && (data[pos] != ';')) pos++;", 'C01.b')
M('c01b-d12-guard-removed', 'C01', 'break', SG, "    if (value_end > value_start) {\n        prev = value_end - 1;", "    {\n        prev = value_end - 1;", 'C01.b')
M('c01b-keep-hoisted-read', 'C01', 'keep', 'htp/htp_cookies.c', "    while (pos < len) {", "    while (!(pos >= len)) {")
M('c01c-tx-hostname-leak', 'C01', 'break', TX, "    bstr_free(tx->request_hostname);\n", "", 'C01.c')
M('c01c-mpartp-pending-header-leak', 'C01', 'break', MP, "    bstr_free(parser->pending_header_line);\n", "", 'C01.c')
M('c01c-response-hook-leak-again', 'C01', 'break', TX, "    htp_hook_destroy(tx->hook_response_body_data);\n", "", 'C01.c')
M('c01c-keep-helper', 'C01', 'keep', TX, "    bstr_free(tx->response_line);\n    bstr_free(tx->response_protocol);", "    bstr *tmp_rl = tx->response_line;\n    bstr_free(tmp_rl);\n    bstr_free(tx->response_protocol);")
M('c01d-no-parser-unlink', 'C01', 'break', TX, "    htp_conn_remove_tx(tx->conn, tx);\n    htp_connp_tx_remove(tx->connp, tx);", "    htp_conn_remove_tx(tx->conn, tx);", 'C01.d')
M('c01d-remove-only-in-tx', 'C01', 'break', CP, "    if (connp->out_tx == tx) {\n        connp->out_tx = NULL;\n    }\n}", "}", 'C01.d')
M('c01e-use-tx-after-finalize', 'C01', 'break', TX, "    // At this point, tx may no longer be valid.\n\n    connp->in_tx = NULL;", "    // At this point, tx may no longer be valid.\n\n    tx->connp->in_tx = NULL;", 'C01.e')
M('c01g-new-unguarded-arithmetic', 'C01', 'break', RQ, "    if (connp->in_data_receiver_hook == NULL) return HTP_OK;\n\n    htp_status_t rc = htp_connp_req_receiver_send_data(connp, 1 /* last */);", "    if (connp->in_data_receiver_hook == NULL) return HTP_OK;\n    connp->in_next_byte = *(connp->in_current_data + connp->in_current_receiver_offset);\n\n    htp_status_t rc = htp_connp_req_receiver_send_data(connp, 1 /* last */);", 'C01.g')
M('c01h-d25-guard-removed', 'C01', 'break', MP, "                if (pos >= len) break;\n\n                if (data[pos] == '-') {\n                    // Found one dash, now go to check the next position.", "                if (data[pos] == '-') {\n                    // Found one dash, now go to check the next position.", 'C01.h')

# ---------------- C06.f
M('c06f-res-line-end-counts-lf-only', 'C06', 'break', RS,
  '        connp->out_tx->response_message_len++;\n\n        if (connp->out_next_byte == LF) {\n            connp->out_state = htp_connp_RES_BODY_CHUNKED_LENGTH;',
  '        if (connp->out_next_byte == LF) {\n            connp->out_tx->response_message_len++;\n            connp->out_state = htp_connp_RES_BODY_CHUNKED_LENGTH;', 'C06.f')
M('c06f-req-line-end-batched', 'C06', 'break', RQ,
  '    for (;;) {\n        IN_NEXT_BYTE_OR_RETURN(connp);\n\n        connp->in_tx->request_message_len++;\n\n        if (connp->in_next_byte == LF) {',
  '    int64_t start_offset = connp->in_current_read_offset;\n    for (;;) {\n        IN_NEXT_BYTE_OR_RETURN(connp);\n\n        if (connp->in_next_byte == LF) {\n            connp->in_tx->request_message_len += connp->in_current_read_offset - start_offset;', 'C06.f')
M('c06f-offsets-reordered-keep', 'C06', 'keep', RQ,
  '    connp->in_current_read_offset += bytes_to_consume;\n    connp->in_current_consume_offset += bytes_to_consume;\n    connp->in_stream_offset += bytes_to_consume;\n    connp->in_chunked_length -= bytes_to_consume;',
  '    connp->in_stream_offset += bytes_to_consume;\n    connp->in_current_consume_offset += bytes_to_consume;\n    connp->in_current_read_offset += bytes_to_consume;\n    connp->in_chunked_length -= bytes_to_consume;')

# ---------------- C03.f
M('c03f-res-clear-keeps-size', 'C03', 'break', RS,
  '        connp->out_buf = NULL;\n        connp->out_buf_size = 0;', '        connp->out_buf = NULL;', 'C03.f')
M('c03f-first-size-includes-header', 'C03', 'break', RQ,
  '        memcpy(connp->in_buf, data, len);\n        connp->in_buf_size = len;', '        memcpy(connp->in_buf, data, len);\n        connp->in_buf_size = newlen;', 'C03.f')
M('c03f-size-first-keep', 'C03', 'keep', RQ,
  '        connp->in_buf = NULL;\n        connp->in_buf_size = 0;', '        connp->in_buf_size = 0;\n        connp->in_buf = NULL;')

# ---------------- C07.g
M('c07g-disabled-keeps-multi-flag', 'C07', 'break', TX,
  '        tx->response_content_encoding_processing = HTP_COMPRESSION_NONE;\n        ce_multi_comp = 0;', '        tx->response_content_encoding_processing = HTP_COMPRESSION_NONE;', 'C07.g')
M('c07g-flag-reset-first-keep', 'C07', 'keep', TX,
  '        tx->response_content_encoding_processing = HTP_COMPRESSION_NONE;\n        ce_multi_comp = 0;', '        ce_multi_comp = 0;\n        tx->response_content_encoding_processing = HTP_COMPRESSION_NONE;')
M('c07g-single-arm-uses-header-coding', 'C07', 'break', TX,
  'tx->connp->out_decompressor = htp_gzip_decompressor_create(tx->connp, tx->response_content_encoding_processing);\n            if (tx->connp->out_decompressor == NULL) return HTP_ERROR;',
  'tx->connp->out_decompressor = htp_gzip_decompressor_create(tx->connp, tx->response_content_encoding);\n            if (tx->connp->out_decompressor == NULL) return HTP_ERROR;', 'C07.g')

# ---------------- C04.e / C04.f
M('c04e-second-100-falls-through', 'C04', 'break', RS,
  '        if (is100continue) {\n            if (connp->out_tx->seen_100continue != 0) {\n                htp_log(connp, HTP_LOG_MARK, HTP_LOG_ERROR, 0, "Already seen 100-Continue.");\n            }\n',
  '        if (connp->out_tx->seen_100continue != 0) {\n            htp_log(connp, HTP_LOG_MARK, HTP_LOG_ERROR, 0, "Already seen 100-Continue.");\n            is100continue = 0;\n        }\n        if (is100continue) {\n', 'C04.e')
M('c04e-log-hoisted-keep', 'C04', 'keep', RS,
  '        if (is100continue) {\n            if (connp->out_tx->seen_100continue != 0) {\n                htp_log(connp, HTP_LOG_MARK, HTP_LOG_ERROR, 0, "Already seen 100-Continue.");\n            }\n',
  '        if (is100continue && connp->out_tx->seen_100continue != 0) {\n            htp_log(connp, HTP_LOG_MARK, HTP_LOG_ERROR, 0, "Already seen 100-Continue.");\n        }\n        if (is100continue) {\n', None)
M('c04f-wrap-uses-current-size', 'C04', 'break', 'htp/htp_list.c',
  'return (void *) l->elements[idx - (l->max_size - l->first)];', 'return (void *) l->elements[idx - (l->current_size - l->first)];', 'C04.f')
M('c04f-wrap-rewritten-keep', 'C04', 'keep', 'htp/htp_list.c',
  'return (void *) l->elements[idx - (l->max_size - l->first)];', 'return (void *) l->elements[(l->first + idx) - l->max_size];')
M('c04f-replace-modulus', 'C04', 'break', 'htp/htp_list.c',
  'l->elements[(l->first + idx) % l->max_size] = e;', 'l->elements[(l->first + idx) % l->current_size] = e;', 'C04.f')

# ---------------- C12.f / C12.g
UT = 'htp/htp_util.c'
M('c12f-u-fourth-digit-unchecked', 'C12', 'break', UT,
  '                            if (isxdigit(data[rpos + 2]) && (isxdigit(data[rpos + 3]))\n                                    && isxdigit(data[rpos + 4]) && (isxdigit(data[rpos + 5]))) {\n                                // Decode a valid %u encoding\n                                c = decode_u_encoding_path(',
  '                            if (isxdigit(data[rpos + 2]) && (isxdigit(data[rpos + 3]))\n                                    && isxdigit(data[rpos + 4]) && (isxdigit(data[rpos + 4]))) {\n                                // Decode a valid %u encoding\n                                c = decode_u_encoding_path(', 'C12.f')
M('c12f-params-second-digit-unchecked', 'C12', 'break', UT,
  '                    if ((isxdigit(data[rpos + 1])) && (isxdigit(data[rpos + 2]))) {\n                        // Decode %HH encoding.',
  '                    if ((isxdigit(data[rpos + 1])) && (isxdigit(data[rpos + 1]))) {\n                        // Decode %HH encoding.', 'C12.f')
M('c12f-checks-reordered-keep', 'C12', 'keep', UT,
  '                    if ((isxdigit(data[rpos + 1])) && (isxdigit(data[rpos + 2]))) {\n                        // Decode %HH encoding.',
  '                    if ((isxdigit(data[rpos + 2])) && (isxdigit(data[rpos + 1]))) {\n                        // Decode %HH encoding.')
M('c12g-validate-reject-keeps-counter', 'C12', 'break', UT,
  '                state = HTP_UTF8_ACCEPT;\n\n                // Advance over the consumed byte and reset the byte counter.\n                rpos++;\n                counter = 0;',
  '                state = HTP_UTF8_ACCEPT;\n\n                // Advance over the consumed byte.\n                rpos++;', 'C12.g')
M('c12g-reset-order-keep', 'C12', 'keep', UT,
  '                state = HTP_UTF8_ACCEPT;\n\n                // Advance over the consumed byte and reset the byte counter.\n                rpos++;\n                counter = 0;',
  '                counter = 0;\n                state = HTP_UTF8_ACCEPT;\n                rpos++;')
M('c12g-continuation-resets', 'C12', 'break', UT,
  '            default:\n                // Keep going; the character is not yet formed.\n                rpos++;\n                break;\n        }\n    }\n\n    // Did the path end inside a multi-byte character?\n    if (state != HTP_UTF8_ACCEPT) {\n        tx->flags |= HTP_PATH_UTF8_INVALID;\n    }\n',
  '            default:\n                // Keep going; the character is not yet formed.\n                rpos++;\n                counter = 0;\n                break;\n        }\n    }\n\n    // Did the path end inside a multi-byte character?\n    if (state != HTP_UTF8_ACCEPT) {\n        tx->flags |= HTP_PATH_UTF8_INVALID;\n    }\n', 'C12.g')

# ---------------- C01.i
M('c01i-chain-cursor-not-advanced', 'C01', 'break', TX,
  '                        comp->next->callback = htp_tx_res_process_body_data_decompressor_callback;\n                        comp = comp->next;',
  '                        comp->next->callback = htp_tx_res_process_body_data_decompressor_callback;', 'C01.i')
M('c01i-cursor-advanced-first-keep', 'C01', 'keep', TX,
  '                        comp->next->callback = htp_tx_res_process_body_data_decompressor_callback;\n                        comp = comp->next;',
  '                        comp = comp->next;\n                        comp->callback = htp_tx_res_process_body_data_decompressor_callback;')
M('c01i-first-layer-cursor-not-set', 'C01', 'break', TX,
  '                        tx->connp->out_decompressor->callback = htp_tx_res_process_body_data_decompressor_callback;\n                        comp = tx->connp->out_decompressor;',
  '                        tx->connp->out_decompressor->callback = htp_tx_res_process_body_data_decompressor_callback;', 'C01.i')

M('c07e-layer-counter-reset-per-token', 'C07', 'break', TX,
  '            int layers = 0;\n            htp_decompressor_t *comp = NULL;', '            htp_decompressor_t *comp = NULL;', 'C07.e',
  edits=[(TX, '            int layers = 0;\n            htp_decompressor_t *comp = NULL;', '            htp_decompressor_t *comp = NULL;'),
         (TX, '                enum htp_content_encoding_t cetype = HTP_COMPRESSION_NONE;\n\n                /* check depth limit', '                enum htp_content_encoding_t cetype = HTP_COMPRESSION_NONE;\n                int layers = 0;\n\n                /* check depth limit')])

# ---------------- C01.b (zone domain)
M('c01b-ctx-guard-off-by-one', 'C01', 'break', 'htp/htp_config.c',
  'void htp_config_set_backslash_convert_slashes(htp_cfg_t *cfg, enum htp_decoder_ctx_t ctx, int enabled) {\n    if (ctx >= HTP_DECODER_CONTEXTS_MAX) return;',
  'void htp_config_set_backslash_convert_slashes(htp_cfg_t *cfg, enum htp_decoder_ctx_t ctx, int enabled) {\n    if (ctx > HTP_DECODER_CONTEXTS_MAX) return;', 'C01.b')
M('c01b-backward-scan-starts-at-len', 'C01', 'break', 'htp/htp_request_generic.c',
  '            pos = len - 1;\n            while ((pos > start) && (!htp_is_space(data[pos]))) pos--;', '            pos = len;\n            while ((pos > start) && (!htp_is_space(data[pos]))) pos--;', 'C01.b')
M('c01b-char-at-end-guard', 'C01', 'break', 'htp/bstr.c',
  '    if (pos >= len) return -1;\n    return data[len - 1 - pos];', '    if (pos > len) return -1;\n    return data[len - 1 - pos];', 'C01.b')
M('c01b-handled-flag-rewritten-keep', 'C01', 'keep', 'htp/htp_util.c',
  '                // Handle standard URL encoding\n                if (!handled) {', '                // Handle standard URL encoding\n                if (handled == 0) {')
M('c01b-percent-needs-one-more-keep', 'C01', 'keep', 'htp/htp_util.c',
  '        if (c == \'%\') {\n            if (rpos + 2 < len) {\n                int handled = 0;\n\n                if (cfg->decoder_cfgs[HTP_DECODER_URL_PATH].u_encoding_decode) {',
  '        if (c == \'%\') {\n            if (rpos + 3 <= len) {\n                int handled = 0;\n\n                if (cfg->decoder_cfgs[HTP_DECODER_URL_PATH].u_encoding_decode) {')
M('c01b-percent-guard-off-by-one', 'C01', 'break', 'htp/htp_util.c',
  '        if (c == \'%\') {\n            if (rpos + 2 < len) {\n                int handled = 0;\n\n                if (cfg->decoder_cfgs[HTP_DECODER_URL_PATH].u_encoding_decode) {',
  '        if (c == \'%\') {\n            if (rpos + 2 <= len) {\n                int handled = 0;\n\n                if (cfg->decoder_cfgs[HTP_DECODER_URL_PATH].u_encoding_decode) {', 'C01.b')

# ---------------- C01.j
M('c01j-strncpy-past-buffer', 'C01', 'break', 'htp/htp_multipart.c',
  'strncpy(buf, part->parser->extract_dir, 254);', 'strncpy(buf, part->parser->extract_dir, 256);', 'C01.j')
M('c01j-dup-copies-terminator', 'C01', 'break', 'htp/bstr.c',
  '    bstr *bnew = bstr_alloc(len);\n    if (bnew == NULL) return NULL;\n    memcpy(bstr_ptr(bnew), data, len);', '    bstr *bnew = bstr_alloc(len);\n    if (bnew == NULL) return NULL;\n    memcpy(bstr_ptr(bnew), data, len + 1);', 'C01.j')
M('c01j-first-buffer-one-short', 'C01', 'break', RQ,
  '        connp->in_buf = malloc(len);\n        if (connp->in_buf == NULL) return HTP_ERROR;', '        connp->in_buf = malloc(len - 1);\n        if (connp->in_buf == NULL) return HTP_ERROR;', 'C01.j')
M('c01j-append-count-rewritten-keep', 'C01', 'keep', RQ,
  '        memcpy(connp->in_buf + connp->in_buf_size, data, len);', '        memcpy(connp->in_buf + connp->in_buf_size, data, newsize - connp->in_buf_size);')
M('c01j-ipv6-copy-guard-weakened', 'C01', 'break', 'htp/htp_util.c',
  '        if (len < 2 || len - 2 >= INET6_ADDRSTRLEN) {', '        if (len < 2 || len - 2 > INET6_ADDRSTRLEN + 1) {', 'C01.j')

# ---------------- C17.a cursor store / C17.d
M('c17a-pop-stores-before-wrap', 'C17', 'break', 'htp/htp_list.c',
  '    if (pos > l->max_size - 1) pos -= l->max_size;\n\n    r = l->elements[pos];\n    l->last = pos;', '    l->last = pos;\n    if (pos > l->max_size - 1) pos -= l->max_size;\n\n    r = l->elements[pos];', 'C17.a')
M('c17a-pop-store-then-read-keep', 'C17', 'keep', 'htp/htp_list.c',
  '    r = l->elements[pos];\n    l->last = pos;', '    l->last = pos;\n    r = l->elements[pos];')
M('c17d-trailing-nul-loop-removed', 'C17', 'break', 'htp/bstr.c',
  '    while((p1 < len1) && (data1[p1] == 0)) {\n        p1++;\n    }\n    if ((p1 == len1) && (p2 == len2)) {', '    if ((p1 == len1) && (p2 == len2)) {', 'C17.d')
M('c17d-trailing-loop-as-for-keep', 'C17', 'keep', 'htp/bstr.c',
  '    while((p1 < len1) && (data1[p1] == 0)) {\n        p1++;\n    }\n    if ((p1 == len1) && (p2 == len2)) {', '    for (; (p1 < len1) && (data1[p1] == 0); p1++) {\n    }\n    if ((p1 == len1) && (p2 == len2)) {')

# ---------------- wave-6 rules
M('c14f-decoder-guard-too-strict', 'C14', 'break', 'htp/htp_multipart.c',
  "if ((*s == '\\\\')&&(pos + 1 < len)&&", "if ((*s == '\\\\')&&(pos + 2 < len)&&", 'C14.f')
M('c14e-empty-text-part-skipped', 'C14', 'break', 'htp/htp_content_handlers.c',
  '            if (part->type == MULTIPART_PART_TEXT) {', '            if (part->type == MULTIPART_PART_TEXT && part->value != NULL) {', 'C14.e')
M('c15d-signed-char-view', 'C15', 'break', 'htp/htp_urlencoded.c',
  '    unsigned char *data = (unsigned char *) _data;', '    const char *data = (const char *) _data;', 'C15.d',
  edits=[('htp/htp_urlencoded.c', '    unsigned char *data = (unsigned char *) _data;', '    const char *data = (const char *) _data;'),
         ('htp/htp_urlencoded.c', 'htp_urlenp_add_field_piece(urlenp, data, startpos, pos, c);', 'htp_urlenp_add_field_piece(urlenp, (const unsigned char *) data, startpos, pos, c);', 'all')])
M('c12h-plus-arm-stalls', 'C12', 'break', UT,
  '                c = 0x20;\n            }\n\n            rpos++;\n            data[wpos++] = c;', '                c = 0x20;\n                rpos++;\n            }\n\n            data[wpos++] = c;', 'C12.h')
M('c12h-advance-before-emit-keep', 'C12', 'keep', UT,
  '                c = 0x20;\n            }\n\n            rpos++;\n            data[wpos++] = c;', '                c = 0x20;\n            }\n\n            data[wpos++] = c;\n            rpos++;')
M('c13c-trim-by-helper', 'C13', 'break', UT,
  "    while (len > 0) {\n        if (data[len-1] != ' ') {\n            break;\n        }\n        len--;\n    }", '    bstr_util_mem_trim(&data, &len);', 'C13.c')
M('c13c-raw-fragment-decoded', 'C13', 'break', UT,
  'htp_tx_urldecode_uri_inplace(tx, normalized->fragment);', 'htp_tx_urldecode_uri_inplace(tx, incomplete->fragment);', 'C13.c')
M('c17b-tail-check-once', 'C17', 'break', UT,
  '    while (pos < len) {\n        if (!htp_is_lws(data[pos])) {\n            return -1002;\n        }\n\n        pos++;\n    }\n\n    return r;',
  '    if ((pos < len) && (!htp_is_lws(data[pos]))) {\n        return -1002;\n    }\n\n    return r;', 'C17.b')
M('c17b-tail-check-for-loop-keep', 'C17', 'keep', UT,
  '    while (pos < len) {\n        if (!htp_is_lws(data[pos])) {\n            return -1002;\n        }\n\n        pos++;\n    }\n\n    return r;',
  '    for (; pos < len; pos++) {\n        if (!htp_is_lws(data[pos])) return -1002;\n    }\n\n    return r;')

# ---------------- C13.d / C14.g (the repaired defects D29 / D28 must be reported again if they return)
M('c13d-bytes-after-bracket-dropped', 'C13', 'break', UT,
  '                        hostname_len = m - hostname_start;\n                    }\n\n                    (*uri)->hostname = bstr_dup_mem(hostname_start, hostname_len);',
  '                    }\n\n                    (*uri)->hostname = bstr_dup_mem(hostname_start, rest_start - hostname_start);', 'C13.d')
M('c13d-credentials-username-start-off', 'C13', 'break', UT,
  '                    (*uri)->username = bstr_dup_mem(credentials_start, m - credentials_start);', '                    (*uri)->username = bstr_dup_mem(credentials_start + 1, m - credentials_start - 1);', 'C13.d')
M('c13d-port-split-rewritten-keep', 'C13', 'keep', UT,
  '                    size_t port_len = hostname_len - (m - hostname_start) - 1;\n                    hostname_len = hostname_len - port_len - 1;',
  '                    size_t port_len = hostname_len - (m - hostname_start) - 1;\n                    hostname_len = m - hostname_start;')
M('c14g-assembled-line-keeps-ending', 'C14', 'break', 'htp/htp_multipart.c',
  '                        // The line was assembled from pieces; drop its line ending too.\n                        bstr_adjust_len(line, len);\n                        part->parser->pending_header_line = line;',
  '                        part->parser->pending_header_line = line;', 'C14.g')
M('c14g-kept-copy-uses-untrimmed-length', 'C14', 'break', 'htp/htp_multipart.c',
  '                        part->parser->pending_header_line = bstr_dup_mem(data, len);\n                        if (part->parser->pending_header_line == NULL) return HTP_ERROR;\n                    }\n                } else {',
  '                        part->parser->pending_header_line = bstr_dup_mem(data, part->len);\n                        if (part->parser->pending_header_line == NULL) return HTP_ERROR;\n                    }\n                } else {', 'C14.g')

# ---------------- C01.k
M('c01k-gzip-probe-memchr-underflow', 'C01', 'break', 'htp/htp_decompressors.c',
  '            size_t len;\n            for (len = 10; len < data_len && data[len] != \'\\0\'; len++);',
  '            const unsigned char *nul = memchr(data + 10, \'\\0\', data_len - 10);\n            size_t len = (nul != NULL) ? (size_t) (nul - data) : data_len;', 'C01.k')
M('c01k-cookie-window-one-too-long', 'C01', 'break', 'htp/htp_cookies.c',
  'htp_parse_single_cookie_v0(connp, data + start, pos - start)', 'htp_parse_single_cookie_v0(connp, data + start, pos - start + 1)', 'C01.k')

# ---------------- wave-7 rules
M('c16h-method-length-precheck', 'C16', 'break', UT,
  '    // TODO Optimize using parallel matching, or something similar.\n',
  '    size_t mlen = bstr_len(method);\n    if ((mlen < 3) || (mlen > 15)) return HTP_M_UNKNOWN;\n', 'C16.h')
M('c16h-method-length-precheck-exact-keep', 'C16', 'keep', UT,
  '    // TODO Optimize using parallel matching, or something similar.\n',
  '    size_t mlen = bstr_len(method);\n    if ((mlen < 3) || (mlen > 16)) return HTP_M_UNKNOWN;\n')
M('c09f-close-tests-wrong-direction', 'C09', 'break', 'htp/htp_connection_parser.c',
  '    if ((connp->out_status != HTP_STREAM_ERROR) && (connp->out_status != HTP_STREAM_STOP))\n        connp->out_status = HTP_STREAM_CLOSED;', '    if ((connp->in_status != HTP_STREAM_ERROR) && (connp->in_status != HTP_STREAM_STOP))\n        connp->out_status = HTP_STREAM_CLOSED;', 'C09.f')
M('c09e-tracker-needs-timestamp', 'C09', 'break', 'htp/htp_connection.c',
  'void htp_conn_track_inbound_data(htp_conn_t *conn, size_t len, const htp_time_t *timestamp) {\n    if (conn == NULL) return;',
  'void htp_conn_track_inbound_data(htp_conn_t *conn, size_t len, const htp_time_t *timestamp) {\n    if ((conn == NULL) || (timestamp == NULL)) return;', 'C09.e')
M('c03c-append-branch-keeps-consume-offset', 'C03', 'break', RQ,
  '        connp->in_buf_size = len;\n    } else {', '        connp->in_buf_size = len;\n        connp->in_current_consume_offset = connp->in_current_read_offset;\n        return HTP_OK;\n    } else {', 'C03.c',
  edits=[(RQ, '    // Reset the consumer position.\n    connp->in_current_consume_offset = connp->in_current_read_offset;\n\n    return HTP_OK;\n}\n\n/**\n * Returns to the caller the memory region', '    return HTP_OK;\n}\n\n/**\n * Returns to the caller the memory region'),
         (RQ, '        connp->in_buf_size = len;\n    } else {', '        connp->in_buf_size = len;\n        // Reset the consumer position.\n        connp->in_current_consume_offset = connp->in_current_read_offset;\n    } else {')])
M('c17b-status-erased-by-protocol', 'C17', 'break', TX,
  '    if (tx->response_protocol_number == HTP_PROTOCOL_INVALID) {', '    if (tx->response_protocol_number == HTP_PROTOCOL_INVALID) {\n        tx->response_status_number = HTP_STATUS_INVALID;', 'C17.b')

M('c06d-filter-swallows-response-marker', 'C06', 'break', UT,
  'htp_status_t htp_res_run_hook_body_data(htp_connp_t *connp, htp_tx_data_t *d) {\n    // Do not invoke callbacks with an empty data chunk.\n    if ((d->data != NULL) && (d->len == 0)) return HTP_OK;',
  'htp_status_t htp_res_run_hook_body_data(htp_connp_t *connp, htp_tx_data_t *d) {\n    // Do not invoke callbacks with an empty data chunk.\n    if ((d->len == 0) && !d->is_last) return HTP_OK;', 'C06.d')
M('c06d-filter-reordered-keep', 'C06', 'keep', UT,
  'htp_status_t htp_res_run_hook_body_data(htp_connp_t *connp, htp_tx_data_t *d) {\n    // Do not invoke callbacks with an empty data chunk.\n    if ((d->data != NULL) && (d->len == 0)) return HTP_OK;',
  'htp_status_t htp_res_run_hook_body_data(htp_connp_t *connp, htp_tx_data_t *d) {\n    // Do not invoke callbacks with an empty data chunk.\n    if ((d->len == 0) && (d->data != NULL)) return HTP_OK;')

# ---------------- C02
RG, SG = 'htp/htp_request_generic.c', 'htp/htp_response_generic.c'
M('c02a-protocol-from-literal', 'C02', 'break', RG,
  '    tx->request_protocol = bstr_dup_mem(data + pos, len - pos);', '    tx->request_protocol = bstr_dup_c("HTTP/1.1");', 'C02.a')
M('c02b-status-one-byte-short', 'C02', 'break', SG,
  '    tx->response_status = bstr_dup_mem(data + start, pos - start);', '    tx->response_status = bstr_dup_mem(data + start, pos - start - 1);', 'C02.b')
M('c02b-header-value-starts-late', 'C02', 'break', RG,
  '    h->value = bstr_dup_mem(data + value_start, value_end - value_start);', '    h->value = bstr_dup_mem(data + value_start + 2, value_end - value_start - 2);', 'C02.b')
M('c02b-method-slice-rewritten-keep', 'C02', 'keep', RG,
  '    tx->request_method = bstr_dup_mem(data + mstart, pos - mstart);', '    tx->request_method = bstr_dup_mem(&data[mstart], pos - mstart);')
M('c02c-backward-scan-looks-one-back', 'C02', 'break', RG,
  '        while (pos > start && htp_is_space(data[pos])) pos--;', '        while (pos > start && htp_is_space(data[pos - 1])) pos--;', 'C02.c')
M('c02d-merge-separator-dropped', 'C02', 'break', SG,
  '            bstr_add_mem_noex(h_existing->value, (unsigned char *) ", ", 2);\n            bstr_add_noex(h_existing->value, h->value);', '            bstr_add_noex(h_existing->value, h->value);', 'C02.d')
M('c02d-merge-order-swapped', 'C02', 'break', RG,
  '            bstr_add_mem_noex(h_existing->value, ", ", 2);\n            bstr_add_noex(h_existing->value, h->value);', '            bstr_add_noex(h_existing->value, h->value);\n            bstr_add_mem_noex(h_existing->value, ", ", 2);', 'C02.d')
M('c02e-basic-auth-split-at-last-colon', 'C02', 'break', 'htp/htp_parsers.c',
  'int i = bstr_index_of_c(decoded, ":");', 'int i = bstr_rchr(decoded, \':\');', 'C02.e')

# ---------------- C16.i
M('c16i-response-side-frees-request-header', 'C16', 'break', RS,
  '                    bstr_free(connp->out_header);\n                    connp->out_header = NULL;', '                    bstr_free(connp->in_header);\n                    connp->out_header = NULL;', 'C16.i', count=2)
M('c16i-request-callback-reads-response-length', 'C16', 'break', TX,
  'd->tx->request_entity_len > HTP_COMPRESSION_BOMB_RATIO * d->tx->request_message_len', 'd->tx->request_entity_len > HTP_COMPRESSION_BOMB_RATIO * d->tx->response_message_len', 'C16.i')
M('c16i-response-driver-clears-request-status', 'C16', 'break', RS,
  '    // Remember the timestamp of the current response data chunk', '    connp->in_status = HTP_STREAM_DATA;\n    // Remember the timestamp of the current response data chunk', 'C16.i')

# ---------------- wave-8 rules and mirrors
M('c04g-remove-tx-by-ordinal', 'C04', 'break', 'htp/htp_connection.c',
  '    for (size_t i = 0, n = htp_list_size(conn->transactions); i < n; i++) {\n        htp_tx_t *tx2 = htp_list_get(conn->transactions, i);\n        if (tx2 == tx) {\n            return htp_list_replace(conn->transactions, i, NULL);\n        }\n    }',
  '    if (htp_list_get(conn->transactions, tx->index) == tx) {\n        return htp_list_replace(conn->transactions, tx->index, NULL);\n    }', 'C04.g')
M('c07i-wait-before-close-test', 'C07', 'break', RS,
  '    if (connp->out_status == HTP_STREAM_CLOSED) {\n        connp->out_state = htp_connp_RES_FINALIZE;\n        // Sends close signal to decompressors\n        htp_status_t rc = htp_tx_res_process_body_data_ex(connp->out_tx, NULL, 0);\n        return rc;\n    }\n    if (bytes_to_consume == 0) return HTP_DATA;',
  '    if (bytes_to_consume == 0) return HTP_DATA;\n    if (connp->out_status == HTP_STREAM_CLOSED) {\n        connp->out_state = htp_connp_RES_FINALIZE;\n        // Sends close signal to decompressors\n        htp_status_t rc = htp_tx_res_process_body_data_ex(connp->out_tx, NULL, 0);\n        return rc;\n    }', 'C07.i')
M('c07h-usec-borrow-lost', 'C07', 'break', TX,
  '        *time_spent += (after->tv_sec - before->tv_sec) * 1000000 + after->tv_usec - before->tv_usec;', '        *time_spent += (after->tv_sec - before->tv_sec) * 1000000 + (after->tv_usec > before->tv_usec ? after->tv_usec - before->tv_usec : 0);', 'C07.h')
M('c07h-formula-regrouped-keep', 'C07', 'keep', TX,
  '        *time_spent += (after->tv_sec - before->tv_sec) * 1000000 + after->tv_usec - before->tv_usec;', '        *time_spent += (after->tv_usec - before->tv_usec) + 1000000 * (after->tv_sec - before->tv_sec);')
M('c03h-res-consolidate-diverges', 'C03', 'break', RS,
  '        *len = connp->out_current_read_offset - connp->out_current_consume_offset;', '        *len = connp->out_current_len - connp->out_current_consume_offset;', 'C03.h')
M('c09h-outbound-tracker-diverges', 'C09', 'break', 'htp/htp_connection.c',
  '    conn->out_data_counter += len;    ', '    if (len > 0) conn->out_data_counter += len - 0;', 'C09.h')
M('c06g-res-chunk-end-diverges', 'C06', 'break', RS,
  '        if (connp->out_next_byte == LF) {\n            connp->out_state = htp_connp_RES_BODY_CHUNKED_LENGTH;', '        if (connp->out_next_byte == LF || connp->out_next_byte == CR) {\n            connp->out_state = htp_connp_RES_BODY_CHUNKED_LENGTH;', 'C06.g')

M('c03h-one-sided-param-rename-keep', 'C03', 'keep', RS,
  'static void htp_connp_res_clear_buffer(htp_connp_t *connp) {\n    connp->out_current_consume_offset = connp->out_current_read_offset;\n\n    if (connp->out_buf != NULL) {\n        free(connp->out_buf);\n        connp->out_buf = NULL;\n        connp->out_buf_size = 0;',
  'static void htp_connp_res_clear_buffer(htp_connp_t *parser) {\n    parser->out_current_consume_offset = parser->out_current_read_offset;\n\n    if (!(parser->out_buf == NULL)) {\n        free(parser->out_buf);\n        parser->out_buf = NULL;\n        parser->out_buf_size = 0;')

# ---------------- repairs of recorded findings must leave the checks quiet (the known-finding entry just goes stale)
CP = 'htp/htp_connection_parser.c'
M('c09f-d23-close-overwrites-stop', 'C09', 'break', CP,
  '    if ((connp->in_status != HTP_STREAM_ERROR) && (connp->in_status != HTP_STREAM_STOP))\n        connp->in_status = HTP_STREAM_CLOSED;\n    if ((connp->out_status != HTP_STREAM_ERROR) && (connp->out_status != HTP_STREAM_STOP))\n        connp->out_status = HTP_STREAM_CLOSED;',
  '    if (connp->in_status != HTP_STREAM_ERROR)\n        connp->in_status = HTP_STREAM_CLOSED;\n    if (connp->out_status != HTP_STREAM_ERROR)\n        connp->out_status = HTP_STREAM_CLOSED;', 'C09.f')
M('c09f-guards-as-one-switch-keep', 'C09', 'keep', CP,
  '    if ((connp->out_status != HTP_STREAM_ERROR) && (connp->out_status != HTP_STREAM_STOP))\n        connp->out_status = HTP_STREAM_CLOSED;\n\n    // Call the parsers one last time, which will allow them\n    // to process the events that depend on stream closure\n    htp_connp_req_data(connp, timestamp, NULL, 0);\n    htp_connp_res_data',
  '    if (connp->out_status == HTP_STREAM_ERROR || connp->out_status == HTP_STREAM_STOP) {\n    } else {\n        connp->out_status = HTP_STREAM_CLOSED;\n    }\n\n    // Call the parsers one last time, which will allow them\n    // to process the events that depend on stream closure\n    htp_connp_req_data(connp, timestamp, NULL, 0);\n    htp_connp_res_data')
M('c01g-d16-arithmetic-on-null-chunk-pointer', 'C01', 'break', RQ,
  '        *data = (connp->in_current_data == NULL) ? NULL : connp->in_current_data + connp->in_current_consume_offset;',
  '        *data = connp->in_current_data + connp->in_current_consume_offset;', 'C01.g')
M('c01g-null-test-as-if-statement-keep', 'C01', 'keep', RQ,
  '        *data = (connp->in_current_data == NULL) ? NULL : connp->in_current_data + connp->in_current_consume_offset;',
  '        if (connp->in_current_data != NULL) *data = connp->in_current_data + connp->in_current_consume_offset; else *data = NULL;')
M('repair-d3-no-umask', 'C19', 'keep', 'htp/htp_multipart.c',
  '                        mode_t previous_mask = umask(S_IXUSR | S_IRWXG | S_IRWXO);\n                        part->file->fd = mkstemp(part->file->tmpname);\n                        umask(previous_mask);',
  '                        part->file->fd = mkstemp(part->file->tmpname);')

M('c10f-reclaim-depends-on-response-cursor', 'C10', 'break', CP,
  '    for (size_t i = 0; i < nb; i++) {\n        // 0 and not i because at next iteration, we have removed the first', '    for (size_t i = 0; (i < nb) && (connp->out_next_tx_index > 0); i++) {\n        // 0 and not i because at next iteration, we have removed the first', 'C10.f')
M('c10f-reclaim-while-loop-keep', 'C10', 'keep', CP,
  '    for (size_t i = 0; i < nb; i++) {\n        // 0 and not i because at next iteration, we have removed the first', '    size_t i = 0;\n    for (; i < nb; i++) {\n        // 0 and not i because at next iteration, we have removed the first')

# ---------------- C01.l
M('c01l-gap-dispatched-to-line-state', 'C01', 'break', RQ,
  '            if (connp->in_state == htp_connp_REQ_BODY_IDENTITY ||\n                connp->in_state == htp_connp_REQ_IGNORE_DATA_AFTER_HTTP_0_9) {',
  '            if (connp->in_state == htp_connp_REQ_BODY_IDENTITY ||\n                connp->in_state == htp_connp_REQ_BODY_CHUNKED_DATA_END ||\n                connp->in_state == htp_connp_REQ_IGNORE_DATA_AFTER_HTTP_0_9) {', 'C01.l')
M('c01l-identity-state-peeks', 'C01', 'break', RQ,
  '    // If the input buffer is empty, ask for more data.\n    if (bytes_to_consume == 0) return HTP_DATA;\n\n    // Consume data.\n    int rc = htp_tx_req_process_body_data_ex(',
  '    // If the input buffer is empty, ask for more data.\n    if (bytes_to_consume == 0) return HTP_DATA;\n    if (connp->in_current_data[connp->in_current_read_offset] == 0) connp->in_tx->flags |= HTP_REQUEST_INVALID;\n\n    // Consume data.\n    int rc = htp_tx_req_process_body_data_ex(', 'C01.l')

# ---------------- C19.g / C07.j
HK = 'htp/htp_hooks.c'
M('c19g-hook-copy-registers-on-source', 'C19', 'break', HK,
  '        if (htp_hook_register(&copy, callback->fn) != HTP_OK) {', '        if (htp_hook_register((htp_hook_t **) &hook, callback->fn) != HTP_OK) {', 'C19.g')
M('c19g-hook-copy-skips-first', 'C19', 'break', HK,
  '    for (size_t i = 0, n = htp_list_size(hook->callbacks); i < n; i++) {\n        htp_callback_t *callback = htp_list_get(hook->callbacks, i);\n        if (htp_hook_register(&copy',
  '    for (size_t i = 0, n = htp_list_size(copy->callbacks); i < n; i++) {\n        htp_callback_t *callback = htp_list_get(hook->callbacks, i);\n        if (htp_hook_register(&copy', 'C19.g')
M('c19g-set-config-destroys-unconditionally', 'C19', 'break', TX,
  '    if (tx->is_config_shared == HTP_CONFIG_PRIVATE) {\n        htp_config_destroy(tx->cfg);\n    }\n\n    tx->cfg = cfg;', '    if (tx->cfg != cfg) {\n        htp_config_destroy(tx->cfg);\n    }\n\n    tx->cfg = cfg;', 'C19.g')
M('c07j-request-decompressor-without-enable-test', 'C07', 'break', TX,
  '    if (tx->connp->cfg->request_decompression_enabled) {\n        tx->request_content_encoding = HTP_COMPRESSION_NONE;', '    {\n        tx->request_content_encoding = HTP_COMPRESSION_NONE;', 'C07.j')
M('c07j-left-over-not-destroyed', 'C07', 'break', TX,
  '                if (tx->connp->req_decompressor != NULL) {\n                    htp_tx_req_destroy_decompressors(tx->connp);\n                }\n                tx->connp->req_decompressor = htp_gzip_decompressor_create(', '                tx->connp->req_decompressor = htp_gzip_decompressor_create(', 'C07.j')

# ---------------- wave-9 rules
M('c17e-nul-consumes-needle-position', 'C17', 'break', 'htp/bstr.c',
  '            if (data1[k] == 0) {\n                j--;\n                continue;\n            }', '            if (data1[k] == 0) continue;', 'C17.e')
M('c17e-nul-skip-rewritten-keep', 'C17', 'keep', 'htp/bstr.c',
  '            if (data1[k] == 0) {\n                j--;\n                continue;\n            }', '            if (data1[k] == 0) {\n                --j;\n                continue;\n            }')
M('c13e-raw-split-only-without-supplied-uri', 'C13', 'break', TX,
  '    } else {\n        // Parse the request URI into htp_tx_t::parsed_uri_raw.', '    } else if (tx->parsed_uri == NULL) {\n        // Parse the request URI into htp_tx_t::parsed_uri_raw.', 'C13.e')
M('c13e-ipv6-port-text-window-differs', 'C13', 'break', UT,
  '                *port = bstr_dup_mem(data + pos + 1, len - pos - 1);', '                *port = bstr_dup_mem(data + pos, len - pos);', 'C13.e')
M('c19g-destroy-inferred-from-pointers', 'C19', 'break', TX,
  '    if (tx->is_config_shared == HTP_CONFIG_PRIVATE) {\n        htp_config_destroy(tx->cfg);\n    }\n\n    free(tx);', '    if (tx->cfg != tx->connp->cfg) {\n        htp_config_destroy(tx->cfg);\n    }\n\n    free(tx);', 'C19.g')

# ---------------- co-updated fields (C06.h, C07.k, C02.g)
M('c06h-stream-offset-not-advanced', 'C06', 'break', RQ,
  '    connp->in_current_consume_offset += bytes_to_consume;\n    connp->in_stream_offset += bytes_to_consume;\n    connp->in_chunked_length -= bytes_to_consume;',
  '    connp->in_current_consume_offset += bytes_to_consume;\n    connp->in_chunked_length -= bytes_to_consume;', 'C06.h')
M('c06h-res-stream-offset-moved-out-of-branch', 'C06', 'break', RS,
  '        connp->out_stream_offset += bytes_to_consume;        \n    }\n',
  '    }\n    connp->out_stream_offset += 1;\n', 'C06.h')
M('c06h-order-swapped-keep', 'C06', 'keep', RQ,
  '    connp->in_current_consume_offset += bytes_to_consume;\n    connp->in_stream_offset += bytes_to_consume;\n    connp->in_chunked_length -= bytes_to_consume;',
  '    connp->in_stream_offset += bytes_to_consume;\n    connp->in_current_consume_offset += bytes_to_consume;\n    connp->in_chunked_length -= bytes_to_consume;')
M('c07k-next-out-not-reset', 'C07', 'break', 'htp/htp_decompressors.c',
  '            drec->stream.avail_out = GZIP_BUF_SIZE;\n            drec->stream.next_out = drec->buffer;\n            // TODO Handle trailer.',
  '            drec->stream.avail_out = GZIP_BUF_SIZE;\n            // TODO Handle trailer.', 'C07.k')
M('c07k-order-swapped-keep', 'C07', 'keep', 'htp/htp_decompressors.c',
  '            drec->stream.avail_out = GZIP_BUF_SIZE;\n            drec->stream.next_out = drec->buffer;\n            // TODO Handle trailer.',
  '            drec->stream.next_out = drec->buffer;\n            drec->stream.avail_out = GZIP_BUF_SIZE;\n            // TODO Handle trailer.')
M('c02g-personality-leaves-response-line-parser-unset', 'C02', 'break', 'htp/htp_config.c',
  '        case HTP_SERVER_GENERIC:\n            cfg->parse_request_line = htp_parse_request_line_generic;\n            cfg->process_request_header = htp_process_request_header_generic;\n            cfg->parse_response_line = htp_parse_response_line_generic;\n',
  '        case HTP_SERVER_GENERIC:\n            cfg->parse_request_line = htp_parse_request_line_generic;\n            cfg->process_request_header = htp_process_request_header_generic;\n', 'C02.g')

# ---------------- C01.m a caller's bytes are not kept
M('c01m-builder-piece-wraps-caller-memory', 'C01', 'break', 'htp/bstr_builder.c',
  '    bstr *b = bstr_dup_mem(data, len);\n    if (b == NULL) return HTP_ERROR;\n    return htp_list_push(bb->pieces, b);',
  '    bstr *b = bstr_wrap_mem(data, len);\n    if (b == NULL) return HTP_ERROR;\n    return htp_list_push(bb->pieces, b);', 'C01.m')
M('c01m-request-line-wraps-current-chunk', 'C01', 'break', RQ,
  '    connp->in_tx->request_line = bstr_dup_mem(data, len);', '    connp->in_tx->request_line = bstr_wrap_mem(data, len);', 'C01.m')
M('c01m-res-header-stash-wraps-chunk', 'C01', 'break', RS,
  '                    connp->out_header = bstr_dup_mem(data, len);', '                    connp->out_header = bstr_wrap_mem(data, len);', 'C01.m')
M('c01m-temporary-wrap-freed-keep', 'C01', 'keep', RQ,
  '    bstr *method = bstr_dup_mem(data + mstart, pos - mstart);\n    if (method) {\n        methodi = htp_convert_method_to_number(method);\n        bstr_free(method);',
  '    bstr *method = bstr_wrap_mem(data + mstart, pos - mstart);\n    if (method) {\n        methodi = htp_convert_method_to_number(method);\n        bstr_free(method);')

# ---------------- C14.h (set-aside CR at end of stream), C14.i (type decided => data mode)
M('c14h-aside-cr-released-only-with-pieces', 'C14', 'break', 'htp/htp_multipart.c',
  '    if (parser->current_part != NULL) {\n        // Process buffered data, if any.\n        htp_martp_process_aside(parser, 0);\n',
  '    if (parser->current_part != NULL) {\n        // Process buffered data, if any.\n        if (bstr_builder_size(parser->boundary_pieces) > 0) htp_martp_process_aside(parser, 0);\n', 'C14.h')
M('c14h-aside-tested-explicitly-keep', 'C14', 'keep', 'htp/htp_multipart.c',
  '    if (parser->current_part != NULL) {\n        // Process buffered data, if any.\n        htp_martp_process_aside(parser, 0);\n',
  '    if (parser->current_part != NULL) {\n        // Process buffered data, if any.\n        if (parser->cr_aside != 0) htp_martp_process_aside(parser, 0); else if (bstr_builder_size(parser->boundary_pieces) > 0) htp_martp_process_aside(parser, 0);\n')
M('c14i-mode-switch-after-extraction-block', 'C14', 'break', 'htp/htp_multipart.c', None, None, 'C14.i',
  edits=[('htp/htp_multipart.c', '                part->parser->current_part_mode = MODE_DATA;\n                bstr_builder_clear(part->parser->part_header_pieces);\n\n                if (part->file != NULL) {',
          '                bstr_builder_clear(part->parser->part_header_pieces);\n\n                if (part->file != NULL) {'),
         ('htp/htp_multipart.c', '                } else {\n                    // Do nothing; the type stays MULTIPART_PART_UNKNOWN.\n                }\n',
          '                } else {\n                    // Do nothing; the type stays MULTIPART_PART_UNKNOWN.\n                }\n                part->parser->current_part_mode = MODE_DATA;\n')])
M('c14i-mode-switch-before-headers-keep', 'C14', 'keep', 'htp/htp_multipart.c',
  '                part->parser->current_part_mode = MODE_DATA;\n                bstr_builder_clear(part->parser->part_header_pieces);\n\n                if (part->file != NULL) {',
  '                bstr_builder_clear(part->parser->part_header_pieces);\n                part->parser->current_part_mode = MODE_DATA;\n\n                if (part->file != NULL) {')

# ---------------- C18.e / C18.f
M('c18e-callee-also-releases-boundary', 'C18', 'break', 'htp/htp_multipart.c',
  '    if (rc != HTP_OK) {\n        htp_mpartp_destroy(parser);\n        return NULL;\n    }',
  '    if (rc != HTP_OK) {\n        bstr_free(boundary);\n        htp_mpartp_destroy(parser);\n        return NULL;\n    }', 'C18.e')
M('c18f-d32-size-recorded-before-realloc', 'C18', 'break', 'htp/lzma/LzmaDec.c',
  '          Byte *tmp = realloc(p->dic, newSize);\n          if (!tmp) {\n            return SZ_ERROR_MEM;\n          }\n          p->dic = tmp;\n          p->dicBufSize = newSize;',
  '          p->dicBufSize = newSize;\n          Byte *tmp = realloc(p->dic, p->dicBufSize);\n          if (!tmp) {\n            return SZ_ERROR_MEM;\n          }\n          p->dic = tmp;', 'C18.f')
M('c18f-size-written-back-on-failure-keep', 'C18', 'keep', 'htp/lzma/LzmaDec.c',
  '          Byte *tmp = realloc(p->dic, newSize);\n          if (!tmp) {\n            return SZ_ERROR_MEM;\n          }\n          p->dic = tmp;\n          p->dicBufSize = newSize;',
  '          SizeT oldSize = p->dicBufSize;\n          p->dicBufSize = newSize;\n          Byte *tmp = realloc(p->dic, p->dicBufSize);\n          if (!tmp) {\n            p->dicBufSize = oldSize;\n            return SZ_ERROR_MEM;\n          }\n          p->dic = tmp;')
M('c18f-in-buf-size-before-realloc', 'C18', 'break', RQ,
  '        size_t newsize = connp->in_buf_size + len;\n        unsigned char *newbuf = realloc(connp->in_buf, newsize);\n        if (newbuf == NULL) return HTP_ERROR;\n        connp->in_buf = newbuf;\n        memcpy(connp->in_buf + connp->in_buf_size, data, len);\n        connp->in_buf_size = newsize;',
  '        size_t newsize = connp->in_buf_size + len;\n        size_t oldsize = connp->in_buf_size;\n        connp->in_buf_size = newsize;\n        unsigned char *newbuf = realloc(connp->in_buf, connp->in_buf_size);\n        if (newbuf == NULL) return HTP_ERROR;\n        connp->in_buf = newbuf;\n        memcpy(connp->in_buf + oldsize, data, len);', 'C18.f')
M('c18g-step-marked-before-allocate', 'C18', 'break', 'htp/htp_decompressors.c',
  '                rc = LzmaDec_Allocate(&drec->state, drec->header, LZMA_PROPS_SIZE, &lzma_Alloc);\n                if (rc != SZ_OK)\n                    return rc;\n                LzmaDec_Init(&drec->state);\n                // hacky to get to next step end retry allocate in case of failure\n                drec->header_len++;',
  '                drec->header_len++;\n                rc = LzmaDec_Allocate(&drec->state, drec->header, LZMA_PROPS_SIZE, &lzma_Alloc);\n                if (rc != SZ_OK)\n                    return rc;\n                LzmaDec_Init(&drec->state);', 'C18.g')
M('c18g-success-test-respelled-keep', 'C18', 'keep', 'htp/htp_decompressors.c',
  '                rc = LzmaDec_Allocate(&drec->state, drec->header, LZMA_PROPS_SIZE, &lzma_Alloc);\n                if (rc != SZ_OK)\n                    return rc;\n                LzmaDec_Init(&drec->state);',
  '                rc = LzmaDec_Allocate(&drec->state, drec->header, LZMA_PROPS_SIZE, &lzma_Alloc);\n                if (!(rc == SZ_OK)) {\n                    return rc;\n                }\n                LzmaDec_Init(&drec->state);')

# ---------------- C09.i error discipline
M('c09i-consolidate-status-dropped', 'C09', 'break', RQ,
  '    if (htp_connp_req_consolidate_data(connp, &data, &len) != HTP_OK) {\n        return HTP_ERROR;\n    }\n\n    #ifdef HTP_DEBUG\n    fprint_raw_data(stderr, __func__, data, len);',
  '    htp_connp_req_consolidate_data(connp, &data, &len);\n\n    #ifdef HTP_DEBUG\n    fprint_raw_data(stderr, __func__, data, len);', 'C09.i')
M('c09i-status-stored-then-overwritten', 'C09', 'break', 'htp/htp_request_generic.c',
  '        if (htp_table_add(connp->in_tx->request_headers, h->name, h) != HTP_OK) {',
  '        htp_status_t rc2 = htp_table_add(connp->in_tx->request_headers, h->name, h);\n        rc2 = HTP_OK;\n        if (rc2 != HTP_OK) {', 'C09.i')
M('c09i-status-through-local-keep', 'C09', 'keep', 'htp/htp_request_generic.c',
  '        if (htp_table_add(connp->in_tx->request_headers, h->name, h) != HTP_OK) {',
  '        htp_status_t rc2 = htp_table_add(connp->in_tx->request_headers, h->name, h);\n        if (rc2 != HTP_OK) {')

# ---------------- C01.n use before NULL test
M('c01n-null-check-below-use', 'C01', 'break', 'htp/htp_list.c',
  '    if (l == NULL) return NULL;    \n    if (idx >= l->current_size) return NULL;',
  '    if (idx >= l->current_size) return NULL;\n    if (l == NULL) return NULL;', 'C01.n')
M('c01n-destroy-frees-before-test', 'C01', 'break', 'htp/htp_list.c',
  '    if (l == NULL) return;\n\n    free(l->elements);\n    free(l);',
  '    free(l->elements);\n    if (l == NULL) return;\n\n    free(l);', 'C01.n')
M('c01n-retest-after-guarded-use-keep', 'C01', 'keep', 'htp/htp_list.c',
  '    if (l == NULL) return;\n\n    free(l->elements);\n    free(l);',
  '    if (l == NULL) return;\n\n    free(l->elements);\n    if (l != NULL) free(l);')
M('c09i-d33-request-start-status-dropped', 'C09', 'break', RQ,
  '    htp_status_t rc = htp_tx_state_request_start(connp->in_tx);\n    if (rc != HTP_OK) return rc;\n\n    return HTP_OK;',
  '    htp_tx_state_request_start(connp->in_tx);\n\n    return HTP_OK;', 'C09.i')
M('c09i-request-start-status-returned-directly-keep', 'C09', 'keep', RQ,
  '    htp_status_t rc = htp_tx_state_request_start(connp->in_tx);\n    if (rc != HTP_OK) return rc;\n\n    return HTP_OK;',
  '    return htp_tx_state_request_start(connp->in_tx);')

# ---------------- C01.e completion callbacks may destroy the transaction (D34)
M('c01e-d34-flag-read-after-callbacks', 'C01', 'break', TX,
  '    if (tx_auto_destroy) {\n        htp_tx_destroy(tx);', '    if (tx->connp->cfg->tx_auto_destroy) {\n        htp_tx_destroy(tx);', 'C01.e')
M('c01e-flag-read-into-differently-named-local-keep', 'C01', 'keep', TX, None, None, None,
  edits=[(TX, '    int tx_auto_destroy = tx->connp->cfg->tx_auto_destroy;', '    const int destroy_after = tx->connp->cfg->tx_auto_destroy;'),
         (TX, '    if (tx_auto_destroy) {\n        htp_tx_destroy(tx);', '    if (destroy_after != 0) {\n        htp_tx_destroy(tx);')])

# ---------------- D35 chunk-length probe consults the carry buffer
M('c03b-d35-probe-ignores-carry', 'C03', 'break', RS,
  '    size_t buffered = (connp->out_buf != NULL) ? connp->out_buf_size : 0;', '    size_t buffered = 0;', 'C03')

# ---------------- C02.h lock-step cursors
M('c02h-trim-end-follows-examined-position', 'C02', 'break', 'htp/htp_request_generic.c',
  '        prev--;\n        value_end--;', '        prev--;\n        value_end = prev;', 'C02.h')
M('c02h-end-recomputed-from-position-keep', 'C02', 'keep', 'htp/htp_request_generic.c',
  '        prev--;\n        value_end--;', '        prev--;\n        value_end = prev + 1;')
M('c03e-d24-buffer-not-cut-back', 'C03', 'break', RS,
  '    if (connp->out_buf != NULL) {\n        connp->out_buf_size = carried;\n    }\n', '', 'C03.e')
M('c03e-buffer-cleared-instead-of-cut-back', 'C03', 'break', RS,
  '    if (connp->out_buf != NULL) {\n        connp->out_buf_size = carried;\n    }\n', '    connp->out_buf_size = 0;\n', 'C03.e')
M('c03a-d5-response-folding-peek-ignores-no-byte', 'C03', 'break', RS,
  '                if (connp->out_next_byte != -1 && htp_is_folding_char(connp->out_next_byte) == 0) {',
  '                if (htp_is_folding_char(connp->out_next_byte) == 0) {', 'C03.a')

# ---------------- C01.o strncpy termination (D36)
M('c01o-d36-buffer-not-terminated', 'C01', 'break', 'htp/htp_multipart.c',
  "                        buf[254] = '\\0';\n", '', 'C01.o')
M('c01o-zero-filled-first-keep', 'C01', 'keep', 'htp/htp_multipart.c',
  "                        strncpy(buf, part->parser->extract_dir, 254);\n                        buf[254] = '\\0';\n",
  "                        memset(buf, 0, sizeof(buf));\n                        strncpy(buf, part->parser->extract_dir, 254);\n")

# ---------------- C07.l time budget clock (D37)
M('c07l-d37-request-clock-not-started', 'C07', 'break', TX,
  '            gettimeofday(&tx->connp->req_decompressor->time_before, NULL);\n', '', 'C07.l')
M('c07l-response-clock-started-after-the-call', 'C07', 'break', TX,
  '            gettimeofday(&tx->connp->out_decompressor->time_before, NULL);\n            // Send data buffer to the decompressor.\n            tx->connp->out_decompressor->nb_callbacks=0;\n            htp_gzip_decompressor_decompress(tx->connp->out_decompressor, &d);\n',
  '            // Send data buffer to the decompressor.\n            tx->connp->out_decompressor->nb_callbacks=0;\n            htp_gzip_decompressor_decompress(tx->connp->out_decompressor, &d);\n            gettimeofday(&tx->connp->out_decompressor->time_before, NULL);\n', 'C07.l')

# ---------------- C12.i NUL termination (D38)
M('c12i-d38-u-encoded-nul-does-not-terminate', 'C12', 'break', 'htp/htp_util.c',
  '                                    if (cfg->decoder_cfgs[HTP_DECODER_URL_PATH].nul_encoded_terminates) {\n                                        bstr_adjust_len(path, wpos);\n                                        return HTP_OK;\n                                    }\n', '', 'C12.i')
M('c12i-raw-nul-terminate-test-dropped', 'C12', 'break', 'htp/htp_util.c',
  '                if (cfg->decoder_cfgs[HTP_DECODER_URL_PATH].nul_raw_terminates) {', '                if (0) {', 'C12.i')

# ---------------- C07.m bomb divisor current (D39)
M('c07m-d39-request-bytes-counted-after-the-hand-over', 'C07', 'break', None, None, None, 'C07.m',
  edits=[(TX, '    // Keep track of body size before decompression.\n    tx->request_message_len += d.len;\n\n    switch(tx->request_content_encoding) {', '    switch(tx->request_content_encoding) {'),
         (RQ, '    connp->in_stream_offset += bytes_to_consume;\n    connp->in_chunked_length -= bytes_to_consume;', '    connp->in_stream_offset += bytes_to_consume;\n    connp->in_tx->request_message_len += bytes_to_consume;\n    connp->in_chunked_length -= bytes_to_consume;'),
         (RQ, '    connp->in_stream_offset += bytes_to_consume;\n    connp->in_body_data_left -= bytes_to_consume;', '    connp->in_stream_offset += bytes_to_consume;\n    connp->in_tx->request_message_len += bytes_to_consume;\n    connp->in_body_data_left -= bytes_to_consume;')])
M('c06c-request-bytes-counted-twice', 'C06', 'break', RQ,
  '    connp->in_stream_offset += bytes_to_consume;\n    connp->in_body_data_left -= bytes_to_consume;', '    connp->in_stream_offset += bytes_to_consume;\n    connp->in_tx->request_message_len += bytes_to_consume;\n    connp->in_body_data_left -= bytes_to_consume;', 'C06')

# ---------------- fifth-wave rules
M('c15f-params-decoder-reads-path-context', 'C15', 'break', 'htp/htp_util.c',
  '    unsigned char *p = cfg->decoder_cfgs[ctx].bestfit_map;\n    uint8_t r = cfg->decoder_cfgs[ctx].bestfit_replacement_byte;',
  '    unsigned char *p = cfg->decoder_cfgs[HTP_DECODER_URL_PATH].bestfit_map;\n    uint8_t r = cfg->decoder_cfgs[ctx].bestfit_replacement_byte;', 'C15.f')
M('c02d-room-without-separator', 'C02', 'break', 'htp/htp_request_generic.c',
  'bstr_len(h_existing->value) + 2 + bstr_len(h->value));', 'bstr_len(h_existing->value) + bstr_len(h->value));', 'C02.d')
M('c02d-room-operands-swapped-keep', 'C02', 'keep', 'htp/htp_request_generic.c',
  'bstr_len(h_existing->value) + 2 + bstr_len(h->value));', 'bstr_len(h->value) + bstr_len(h_existing->value) + 2);')
M('c17f-drained-list-rewinds-first-only', 'C17', 'break', 'htp/htp_list.c',
  '    if (l->first == l->max_size) {\n        l->first = 0;\n    }', '    if ((l->first == l->max_size) || (l->current_size == 1)) {\n        l->first = 0;\n    }', 'C17.f')
M('c02i-name-trim-steps-once', 'C02', 'break', 'htp/htp_response_generic.c',
  '        while ((prev > name_start) && htp_is_space(data[prev - 1])) {', '        if ((prev > name_start) && htp_is_space(data[prev - 1])) {', 'C02.i')
M('c07n-full-buffer-skips-next-layer', 'C07', 'break', 'htp/htp_decompressors.c',
  '            if (drec->super.next != NULL && drec->zlib_initialized) {\n                callback_rc = htp_gzip_decompressor_decompress(drec->super.next, &d2);\n            } else {\n                // Send decompressed data to callback.\n                callback_rc = drec->super.callback(&d2);\n            }',
  '            callback_rc = drec->super.callback(&d2);', 'C07.n')
M('c16i-response-side-releases-both-decompressors', 'C16', 'break', TX,
  '                htp_tx_res_destroy_decompressors(tx->connp);', '                htp_connp_destroy_decompressors(tx->connp);', 'C16.i')
M('c01p-extract-dir-owned-here-borrowed-there', 'C01', 'break', None, None, None, 'C01.p',
  edits=[('htp/htp_multipart.c', '    parser->extract_dir = cfg->tmpdir;\n', '    parser->extract_dir = (cfg->tmpdir != NULL) ? strdup(cfg->tmpdir) : NULL;\n')])

# ---------------- second build round (wave f)
M('c12j-validate-forgets-pending-sequence', 'C12', 'break', UT,
  '    // Did the path end inside a multi-byte character?\n    if (state != HTP_UTF8_ACCEPT) {\n        tx->flags |= HTP_PATH_UTF8_INVALID;\n    }\n', '', 'C12.j')
M('c12j-pending-sequence-tested-by-counter-keep', 'C12', 'keep', UT,
  '    // Did the path end inside a multi-byte character?\n    if (state != HTP_UTF8_ACCEPT) {\n        tx->flags |= HTP_PATH_UTF8_INVALID;\n    }\n',
  '    if (counter != 0) {\n        tx->flags |= HTP_PATH_UTF8_INVALID;\n    }\n')
M('c12k-u-decoder-tests-high-byte-only', 'C12', 'break', UT,
  '        if ((c1 == 0xff) && (c2 <= 0xef)) {\n            tx->flags |= HTP_PATH_HALF_FULL_RANGE;', '        if (c1 == 0xff) {\n            tx->flags |= HTP_PATH_HALF_FULL_RANGE;', 'C12.k')
M('c12k-range-written-with-strict-bounds-keep', 'C12', 'keep', UT,
  '                if ((codepoint >= 0xff00) && (codepoint <= 0xffef)) {\n                    tx->flags |= HTP_PATH_HALF_FULL_RANGE;\n                }\n\n                // Advance',
  '                if ((codepoint > 0xfeff) && (codepoint < 0xfff0)) {\n                    tx->flags |= HTP_PATH_HALF_FULL_RANGE;\n                }\n\n                // Advance')
M('c12l-bestfit-lookup-stops-at-larger-key', 'C12', 'break', UT,
  '        if (x == 0) {\n            return cfg->decoder_cfgs[ctx].bestfit_replacement_byte;', '        if ((x == 0) || (x > codepoint)) {\n            return cfg->decoder_cfgs[ctx].bestfit_replacement_byte;', 'C12.l')
M('c17g-search-skips-the-partial-match', 'C17', 'break', 'htp/bstr.c',
  '        if (j == len2) {\n            return (int) i;\n        }\n    }\n\n    return -1;\n}\n\nint bstr_util_mem_index_of_mem_nocase(',
  '        if (j == len2) {\n            return (int) i;\n        }\n        if (j > 1) i += j - 1;\n    }\n\n    return -1;\n}\n\nint bstr_util_mem_index_of_mem_nocase(', 'C17.g')
M('c17h-digit-scan-capped-at-eight', 'C17', 'break', UT,
  '    size_t i = 0;\n    while (i < len) {\n        unsigned char c = data[i];\n        if (!(isdigit(c) ||', '    size_t i = 0;\n    while ((i < len) && (i < 8)) {\n        unsigned char c = data[i];\n        if (!(isdigit(c) ||', 'C17.h')
M('c03b-blank-chunk-line-consumed-not-cleared', 'C03', 'break', RS,
  '            if (connp->out_chunked_length == -1004) {\n                htp_connp_res_clear_buffer(connp);\n                continue;',
  '            if (connp->out_chunked_length == -1004) {\n                connp->out_current_consume_offset = connp->out_current_read_offset;\n                continue;', 'C03.b')
M('c06i-line-counted-then-unread', 'C06', 'break', RS,
  '                connp->out_tx->response_message_len -= len;\n                htp_status_t rc = htp_tx_res_process_body_data_ex(connp->out_tx, data, len);\n                htp_connp_res_clear_buffer(connp);\n                return rc;',
  '                connp->out_current_read_offset -= len;\n                htp_connp_res_clear_buffer(connp);\n                return HTP_OK;', 'C06.i')
M('c02k-parked-response-header-dropped-at-close', 'C02', 'break', RS,
  '            // Parse previous header, if any.\n            if (connp->out_header != NULL) {\n                if (connp->cfg->process_response_header(connp, bstr_ptr(connp->out_header),\n                                                        bstr_len(connp->out_header)) != HTP_OK)\n                    return HTP_ERROR;\n                bstr_free(connp->out_header);\n                connp->out_header = NULL;\n            }\n\n            // Finalize sending raw trailer data.',
  '            // Finalize sending raw trailer data.', 'C02.k')
M('c02j-measuring-pass-walks-bytewise', 'C02', 'break', UT,
  '    while (pos < len) {\n        if (data[pos] == \'\\\\\') {\n            if (pos + 1 < len) {\n                escaped_chars++;\n                pos += 2;\n                continue;\n            }\n        } else if (data[pos] == \'"\') {\n            break;\n        }\n\n        pos++;\n    }\n',
  '    while (pos < len) {\n        if (data[pos] == \'\\\\\') {\n            if (pos + 1 < len) {\n                escaped_chars++;\n            }\n        } else if ((data[pos] == \'"\') && (data[pos - 1] != \'\\\\\')) {\n            break;\n        }\n\n        pos++;\n    }\n', 'C02.j')
M('c09j-dangling-request-finalized-whatever-its-status', 'C09', 'break', RS,
  '        if ((connp->in_state == htp_connp_REQ_FINALIZE)\n                && (connp->in_status != HTP_STREAM_ERROR) && (connp->in_status != HTP_STREAM_STOP)) {',
  '        if (connp->in_state == htp_connp_REQ_FINALIZE) {', 'C09.j')
M('c16j-connect-2xx-completes-without-looking', 'C16', 'break', RS,
  'htp_status_t htp_connp_RES_FINALIZE(htp_connp_t *connp) {\n',
  'htp_status_t htp_connp_RES_FINALIZE(htp_connp_t *connp) {\n    if ((connp->out_tx->request_method_number == HTP_M_CONNECT) && (connp->out_tx->response_status_number >= 200) && (connp->out_tx->response_status_number <= 299)) {\n        return htp_tx_state_response_complete_ex(connp->out_tx, 0);\n    }\n', 'C16.j')
M('c16g-wait-gate-keyed-on-status-number', 'C16', 'break', RQ,
  '    if (connp->in_tx->response_progress <= HTP_RESPONSE_LINE) {\n        return HTP_DATA_OTHER;', '    if (connp->in_tx->response_status_number == HTP_STATUS_UNKNOWN) {\n        return HTP_DATA_OTHER;', 'C16.g')
M('c07r-advance-measured-from-scan-start', 'C07', 'break', TX,
  '                size_t used = (size_t) (tok - input) + tok_len + 1;', '                size_t used = tok_len + 1;', 'C07.r')
M('c07r-advance-written-in-one-expression-keep', 'C07', 'keep', TX,
  '                input += used;\n                input_len -= used;', '                input_len -= used;\n                input = tok + tok_len + 1;')

# ---------------- second build round, later rules
M('c01q-view-lengthened-by-hand', 'C01', 'break', RQ,
  '        IN_COPY_BYTE_OR_RETURN(connp);\n        if (htp_connp_req_consolidate_data(connp, &data, &len) != HTP_OK) {\n            return HTP_ERROR;\n        }\n    }\n    // Interpret remaining bytes as body data',
  '        IN_COPY_BYTE_OR_RETURN(connp);\n        len++;\n    }\n    // Interpret remaining bytes as body data', 'C01.q')
M('c01s-early-return-keeps-the-decoded-buffer', 'C01', 'break', 'htp/htp_parsers.c',
  '    connp->in_tx->request_auth_username = bstr_dup_ex(decoded, 0, i);', '    if (i + 1 == (int) bstr_len(decoded)) return HTP_OK;\n    connp->in_tx->request_auth_username = bstr_dup_ex(decoded, 0, i);', 'C01.s')
M('c05h-close-finalizes-again', 'C05', 'break', 'htp/htp_connection_parser.c',
  '        connp->out_status = HTP_STREAM_CLOSED;\n\n    // Call the parsers one last time, which will allow them\n', '        connp->out_status = HTP_STREAM_CLOSED;\n\n    if (connp->out_tx != NULL) htp_tx_finalize(connp->out_tx);\n    // Call the parsers one last time, which will allow them\n', 'C05.h')
M('c05i-finalize-state-moves-progress-back', 'C05', 'break', RS,
  '        htp_log(connp, HTP_LOG_MARK, HTP_LOG_WARNING, 0, "Unexpected response body");', '        connp->out_tx->response_progress = HTP_RESPONSE_BODY;\n        htp_log(connp, HTP_LOG_MARK, HTP_LOG_WARNING, 0, "Unexpected response body");', 'C05.i')
M('c06l-dispatch-skipped-without-a-config-hook', 'C06', 'break', TX,
  '            tx->response_entity_len += d.len;\n\n            htp_status_t rc = htp_res_run_hook_body_data(tx->connp, &d);',
  '            tx->response_entity_len += d.len;\n\n            if (tx->connp->cfg->hook_response_body_data == NULL) break;\n            htp_status_t rc = htp_res_run_hook_body_data(tx->connp, &d);', 'C06.l')
M('c13h-host-port-written-into-the-uri', 'C13', 'break', TX,
  '                tx->request_port_number = port;', '                tx->request_port_number = port;\n                tx->parsed_uri->port_number = port;', 'C13.h')
M('c16l-idle-state-suspends', 'C16', 'break', RQ,
  'htp_status_t htp_connp_REQ_IDLE(htp_connp_t * connp) {\n', 'htp_status_t htp_connp_REQ_IDLE(htp_connp_t * connp) {\n    if (connp->in_status == HTP_STREAM_DATA_OTHER) return HTP_DATA_OTHER;\n', 'C16.l')
M('c03i-finalize-releases-the-carry-buffer', 'C03', 'break', TX,
  'htp_status_t htp_tx_finalize(htp_tx_t *tx) {\n    if (tx == NULL) return HTP_ERROR;\n', 'htp_status_t htp_tx_finalize(htp_tx_t *tx) {\n    if (tx == NULL) return HTP_ERROR;\n    if (tx->connp->in_tx == tx) { free(tx->connp->in_buf); tx->connp->in_buf = NULL; tx->connp->in_buf_size = 0; }\n', 'C03.i')
M('c08h-equals-searched-in-the-rest-of-the-header', 'C08', 'break', 'htp/htp_cookies.c',
  '        // Find the end of the cookie.\n        while ((pos < len) && (data[pos] != \';\')) pos++;',
  '        // Find the end of the cookie.\n        int eqpos = bstr_util_mem_index_of_c(data + pos, len - pos, "=");\n        (void) eqpos;\n        while ((pos < len) && (data[pos] != \';\')) pos++;', 'C08.h')
