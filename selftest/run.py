#!/usr/bin/env python3
"""Both-ways self-test of the checkers (DESIGN.md §2.4).
Each variant is a single-site edit of a scratch copy of /repo's sources (created with mktemp outside /repo
and /verif, removed immediately afterwards). 'break' variants must make the named check exit 1 and mention
the expected rule; 'keep' variants (behaviour preserving) must leave it silent (exit 0).
usage: selftest/run.py [ID-prefix ...] [-v]"""
import os, shutil, subprocess, sys, tempfile, json
from concurrent.futures import ThreadPoolExecutor
V = os.path.dirname(os.path.dirname(os.path.abspath(__file__)))
sys.path.insert(0, os.path.dirname(os.path.abspath(__file__)))
from mutants import MUTANTS


def scratch(repo='/repo'):
    d = tempfile.mkdtemp(prefix='libhtp-selftest-')
    os.makedirs(os.path.join(d, 'htp', 'lzma'))
    for sub in ('htp', 'htp/lzma'):
        for fn in os.listdir(os.path.join(repo, sub)):
            if fn.endswith(('.c', '.h', '.am')):
                shutil.copy(os.path.join(repo, sub, fn), os.path.join(d, sub, fn))
    if os.path.exists(os.path.join(repo, 'htp_config_auto_gen.h')):
        shutil.copy(os.path.join(repo, 'htp_config_auto_gen.h'), d)
    return d


def run_one(m, verbose=False):
    d = scratch()
    try:
        edits = m['edits'] if 'edits' in m else [(m['file'], m['old'], m['new'])]
        for ed in edits:
            file, old, new = ed[:3]
            p = os.path.join(d, file)
            s = open(p).read()
            n = s.count(old)
            if len(ed) > 3 and ed[3] == 'all' and n >= 1:
                open(p, 'w').write(s.replace(old, new))
                continue
            if n != m.get('count', 1):
                return m, 'SKIP', 'pattern occurs %d times in %s (expected %d): %r' % (n, file, m.get('count', 1), old[:60])
            s = s.replace(old, new) if m.get('count', 1) != 1 or True else s
            open(p, 'w').write(s)
        r = subprocess.run([os.path.join(V, 'check'), m['prop'], '--repo', d, '--tier', m.get('tier', 'quick')], capture_output=True, text=True,
                           env=dict(os.environ, VERIF_NO_EVIDENCE='1'))
        out = r.stdout + r.stderr
        if m['kind'] == 'break':
            viol = [l for l in out.split('\n') if l.startswith('   ' + m.get('rule', m['prop']))]
            ok = r.returncode == 1 and (not m.get('rule') or any(m['rule'] in l for l in out.split('\n') if 'VIOLATION' not in l and m['rule'] + ' ' in l))
            if ok and m.get('mention') and m['mention'] not in out:
                ok = False
            return m, 'OK' if ok else 'MISSED', out if (verbose or not ok) else ''
        else:
            ok = r.returncode == 0
            return m, 'OK' if ok else 'FALSE-ALARM', out if (verbose or not ok) else ''
    finally:
        shutil.rmtree(d, ignore_errors=True)


def main():
    args = [a for a in sys.argv[1:] if not a.startswith('-')]
    verbose = '-v' in sys.argv
    ms = [m for m in MUTANTS if not args or any(m['id'].startswith(a) or m['prop'] == a for a in args)]
    bad = 0
    with ThreadPoolExecutor(max_workers=8) as ex:
        for m, status, out in ex.map(lambda m: run_one(m, verbose), ms):
            print('%-12s %-6s %-5s %s' % (status, m['prop'], m['kind'], m['id']))
            if status not in ('OK',):
                bad += 1
                print('\n'.join('      ' + l for l in out.split('\n')[-25:]))
            elif verbose:
                print('\n'.join('      ' + l for l in out.split('\n') if l.startswith('   C') or 'VIOLATION' in l))
    print('%d variants, %d not as expected' % (len(ms), bad))
    return 2 if bad else 0


if __name__ == '__main__':
    sys.exit(main())
