#!/bin/sh
# Builds the fact extractor from files on disk only (offline). Idempotent.
set -e
cd "$(dirname "$0")"
mkdir -p work/bin evidence
if [ ! -x work/bin/htpfacts ] || [ tools/htpfacts.cc -nt work/bin/htpfacts ]; then
  clang++ $(llvm-config-14 --cxxflags) -fno-rtti -O1 tools/htpfacts.cc -o work/bin/htpfacts.tmp \
    /usr/lib/llvm-14/lib/libclang-cpp.so.14 /usr/lib/llvm-14/lib/libLLVM-14.so
  mv work/bin/htpfacts.tmp work/bin/htpfacts
fi
echo "setup ok: $(pwd)/work/bin/htpfacts"
