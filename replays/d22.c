/* D22 (C08): per-byte chunk-length probe rescans the unconsumed span: a chunk-size line of k control
 * characters followed by k hex digits, delivered in ONE response chunk, costs O(k^2). Also D14: k distinct
 * header names cost O(k^2) table scans. Prints a crude operation count via clock(). */
#include "h.h"
#include <time.h>
static double run_chunklen(size_t k) {
    htp_cfg_t *cfg = htp_config_create(); htp_config_set_field_limits(cfg, 9000, 1 << 30);
    htp_connp_t *c = htp_connp_create(cfg); htp_connp_open(c, "1.1.1.1", 1, "2.2.2.2", 80, NULL);
    const char *req = "GET / HTTP/1.1\r\nHost: a\r\n\r\n"; htp_connp_req_data(c, NULL, req, strlen(req));
    const char *hdr = "HTTP/1.1 200 OK\r\nTransfer-Encoding: chunked\r\n\r\n"; htp_connp_res_data(c, NULL, hdr, strlen(hdr));
    char *line = malloc(2 * k + 1); memset(line, '\t', k); memset(line + k, 'a', k);
    clock_t t0 = clock(); int rc = htp_connp_res_data(c, NULL, line, 2 * k); double t = (double)(clock() - t0) / CLOCKS_PER_SEC;
    (void)rc; htp_connp_destroy_all(c); htp_config_destroy(cfg); free(line); return t;
}
static double run_headers(size_t k) {
    htp_cfg_t *cfg = htp_config_create();
    htp_connp_t *c = htp_connp_create(cfg); htp_connp_open(c, "1.1.1.1", 1, "2.2.2.2", 80, NULL);
    size_t cap = 40 + k * 16; char *buf = malloc(cap); size_t n = sprintf(buf, "GET / HTTP/1.1\r\n");
    for (size_t i = 0; i < k; i++) n += sprintf(buf + n, "X%07zu: v\r\n", i);
    n += sprintf(buf + n, "\r\n");
    clock_t t0 = clock(); htp_connp_req_data(c, NULL, buf, n); double t = (double)(clock() - t0) / CLOCKS_PER_SEC;
    htp_connp_destroy_all(c); htp_config_destroy(cfg); free(buf); return t;
}
int main(void) {
    for (size_t k = 5000; k <= 40000; k *= 2) printf("chunk-length line: k=%zu ctl + k hex in one chunk: %.3f s\n", k, run_chunklen(k));
    for (size_t k = 5000; k <= 40000; k *= 2) printf("distinct headers:  k=%zu: %.3f s\n", k, run_headers(k));
    return 0;
}
