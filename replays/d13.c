/* D13 (C01): a per-transaction RESPONSE_BODY_DATA hook registered with htp_tx_register_response_body_data()
 * is never destroyed by the transaction destructor (its request sibling is): LeakSanitizer reports it. */
#include "h.h"
static int cb_body(htp_tx_data_t *d) { return HTP_OK; }
static int cb_headers(htp_tx_t *tx) { htp_tx_register_response_body_data(tx, cb_body); htp_tx_register_request_body_data(tx, cb_body); return HTP_OK; }
int main(void) {
    htp_cfg_t *cfg = htp_config_create(); htp_config_register_request_headers(cfg, cb_headers);
    htp_connp_t *c = htp_connp_create(cfg); htp_connp_open(c, "1.1.1.1", 1, "2.2.2.2", 80, NULL);
    const char *req = "GET / HTTP/1.1\r\nHost: a\r\n\r\n"; htp_connp_req_data(c, NULL, req, strlen(req));
    const char *res = "HTTP/1.1 200 OK\r\nContent-Length: 2\r\n\r\nok"; htp_connp_res_data(c, NULL, res, strlen(res));
    htp_connp_close(c, NULL); htp_connp_destroy_all(c); htp_config_destroy(cfg);
    printf("done\n"); return 0;
}
