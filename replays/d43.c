/* D43 (C02, rule C02.k): a response header line is parked in connp->out_header while the parser waits to see whether the next
   line continues it. When the stream is closed at that moment htp_connp_RES_HEADERS went on to RES_FINALIZE without
   processing the parked line (htp_connp_REQ_HEADERS does process it): the last header line that was received is missing
   from response_headers. Exit 1 when the defect shows. */
#include "h.h"
int main(void) {
    htp_cfg_t *cfg = htp_config_create();
    htp_connp_t *c = htp_connp_create(cfg); htp_connp_open(c, "1.1.1.1", 1, "2.2.2.2", 80, NULL);
    const char *rq = "GET / HTTP/1.0\r\n\r\n";
    htp_connp_req_data(c, NULL, rq, strlen(rq));
    const char *rs = "HTTP/1.0 200 OK\r\nX-First: 1\r\nX-Last: 2\r\n";
    htp_connp_res_data(c, NULL, rs, strlen(rs));
    htp_connp_close(c, NULL);
    htp_tx_t *tx = htp_list_get(c->conn->transactions, 0);
    dump_headers(tx);
    int bad = htp_table_get_c(tx->response_headers, "X-Last") == NULL;
    /* request side, same situation */
    htp_connp_t *c2 = htp_connp_create(cfg); htp_connp_open(c2, "1.1.1.1", 1, "2.2.2.2", 80, NULL);
    const char *rq2 = "GET / HTTP/1.0\r\nX-First: 1\r\nX-Last: 2\r\n";
    htp_connp_req_data(c2, NULL, rq2, strlen(rq2));
    htp_connp_close(c2, NULL);
    htp_tx_t *tx2 = htp_list_get(c2->conn->transactions, 0);
    printf("request side keeps X-Last: %d\n", htp_table_get_c(tx2->request_headers, "X-Last") != NULL);
    printf(bad ? "DEFECT: the parked response header line X-Last is lost when the stream closes\n" : "ok: X-Last is reported\n");
    htp_connp_destroy_all(c); htp_connp_destroy_all(c2); htp_config_destroy(cfg);
    return bad;
}
