/* probe (remark of a seeding agent): tx_auto_destroy + refused CONNECT + pipelined request, documented DATA_OTHER hand-over */
#include "h.h"
static int txc(htp_tx_t *tx) { printf("    transaction_complete tx#%zu\n", tx->index); return HTP_OK; }
static void run(int autod, const char *status) {
    printf("tx_auto_destroy=%d answer=%s\n", autod, status);
    htp_cfg_t *cfg = htp_config_create(); htp_config_set_tx_auto_destroy(cfg, autod); htp_config_register_transaction_complete(cfg, txc);
    htp_connp_t *c = htp_connp_create(cfg); htp_connp_open(c, "1.1.1.1", 1, "2.2.2.2", 80, NULL);
    const char *rq = "CONNECT h:443 HTTP/1.1\r\nHost: h\r\n\r\nGET /next HTTP/1.1\r\nHost: h\r\n\r\n";
    char rs[256]; snprintf(rs, sizeof rs, "HTTP/1.1 %s\r\nContent-Length: 0\r\n\r\nHTTP/1.1 200 OK\r\nContent-Length: 0\r\n\r\n", status);
    size_t ro = 0, so = 0, rl = strlen(rq), sl = strlen(rs); int guard = 0;
    while ((ro < rl || so < sl) && guard++ < 12) {
        if (ro < rl) { int rc = htp_connp_req_data(c, NULL, rq + ro, rl - ro); size_t k = (rc == HTP_STREAM_DATA_OTHER) ? htp_connp_req_data_consumed(c) : rl - ro; printf("  req rc=%d consumed=%zu\n", rc, k); ro += k; }
        if (so < sl) { int rc = htp_connp_res_data(c, NULL, rs + so, sl - so); size_t k = (rc == HTP_STREAM_DATA_OTHER) ? htp_connp_res_data_consumed(c) : sl - so; printf("  res rc=%d consumed=%zu\n", rc, k); so += k; }
    }
    htp_connp_close(c, NULL); htp_connp_destroy_all(c); htp_config_destroy(cfg);
}
int main(void) { run(0, "405 No"); run(1, "405 No"); return 0; }
