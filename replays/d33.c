/* D33 (C09; also C08/C10): htp_connp_REQ_IDLE drops the status of htp_tx_state_request_start().  When a REQUEST_START callback
   returns HTP_STOP (or HTP_ERROR) the state function still reports HTP_OK without having left REQ_IDLE and without having
   consumed a byte, so the driver loop of htp_connp_req_data() re-enters REQ_IDLE, creates the next transaction, runs the
   callback again, ... : the call never returns and allocates one transaction per round (max_tx is unlimited by default).
   The harness stops itself after 100000 rounds. */
#include "h.h"
#include <unistd.h>
static long starts = 0;
static htp_connp_t *connp;
static int cb_start(htp_tx_t *tx) {
    if (++starts == 100000) {
        printf("still inside the first htp_connp_req_data() call after %ld REQUEST_START callbacks; transactions: %zu -> endless loop\n", starts, htp_list_size(connp->conn->transactions));
        fflush(stdout); _exit(3);
    }
    return HTP_STOP;
}
int main(void) {
    htp_cfg_t *cfg = htp_config_create();
    htp_config_register_request_start(cfg, cb_start);
    connp = htp_connp_create(cfg);
    htp_connp_open(connp, "1.1.1.1", 1, "2.2.2.2", 80, NULL);
    const char *rq = "GET / HTTP/1.1\r\nHost: a\r\n\r\n";
    int rc = htp_connp_req_data(connp, NULL, rq, strlen(rq));
    printf("req_data returned %d (HTP_STREAM_STOP is %d); REQUEST_START callbacks: %ld; transactions: %zu\n", rc, HTP_STREAM_STOP, starts, htp_list_size(connp->conn->transactions));
    rc = htp_connp_req_data(connp, NULL, rq, strlen(rq));
    printf("second call returned %d; REQUEST_START callbacks: %ld\n", rc, starts);
    htp_connp_destroy_all(connp); htp_config_destroy(cfg);
    return 0;
}
