#include "h.h"
int main(int argc, char **argv) {
    FILE *f = fopen("bomb.bin", "rb"); static unsigned char buf[1<<20]; size_t n = fread(buf, 1, sizeof buf, f); fclose(f);
    htp_cfg_t *cfg = htp_config_create(); htp_config_register_response_body_data(cfg, cb_res_body);
    htp_connp_t *c = htp_connp_create(cfg);
    htp_connp_open(c, "1.1.1.1", 1, "2.2.2.2", 80, NULL);
    const char *req = "GET / HTTP/1.1\r\nHost: a\r\n\r\n";
    htp_connp_req_data(c, NULL, req, strlen(req));
    char hdr[256]; snprintf(hdr, sizeof hdr, "HTTP/1.1 200 OK\r\nContent-Encoding: gzip, gzip\r\nContent-Length: %zu\r\n\r\n", n);
    htp_connp_res_data(c, NULL, hdr, strlen(hdr));
    size_t step = argc > 1 ? atoi(argv[1]) : 1; long prev = 0;
    for (size_t i = 0; i < n; i += step) {
        size_t l = (i + step <= n) ? step : n - i;
        int rc = htp_connp_res_data(c, NULL, buf + i, l);
        if (body_bytes != prev && (i % 97 == 0 || body_bytes - prev != 8192)) { printf("after byte %zu rc=%d delivered=%ld (+%ld)\n", i + l, rc, body_bytes, body_bytes - prev); }
        prev = body_bytes;
    }
    htp_connp_close(c, NULL);
    htp_tx_t *tx = htp_list_get(c->conn->transactions, 0);
    printf("compressed=%zu message_len=%ld entity_len=%ld delivered=%ld calls=%d bound=max(1MiB,2048*msg)+8192=%ld\n", n, (long)tx->response_message_len, (long)tx->response_entity_len, body_bytes, body_calls,
        (long)((2048L*tx->response_message_len > 1048576 ? 2048L*tx->response_message_len : 1048576) + 8192));
    htp_connp_destroy_all(c); htp_config_destroy(cfg);
    return 0;
}
