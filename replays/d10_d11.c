/* D10: a raw NUL in the path never raises HTP_PATH_RAW_NUL.  D11: htp_config_set_control_chars_unwanted()
 * writes u_encoding_unwanted instead of control_chars_unwanted. */
#include "h.h"
#include "htp/htp_config_private.h"
int main(void) {
    int bad = 0;
    htp_cfg_t *cfg = htp_config_create();
    htp_config_set_control_chars_unwanted(cfg, HTP_DECODER_URL_PATH, HTP_UNWANTED_400);
    printf("D11: after set_control_chars_unwanted(400): control_chars_unwanted=%d u_encoding_unwanted=%d\n",
           cfg->decoder_cfgs[HTP_DECODER_URL_PATH].control_chars_unwanted, cfg->decoder_cfgs[HTP_DECODER_URL_PATH].u_encoding_unwanted);
    if (cfg->decoder_cfgs[HTP_DECODER_URL_PATH].control_chars_unwanted != HTP_UNWANTED_400) bad |= 1;
    htp_connp_t *c = htp_connp_create(cfg); htp_connp_open(c, "1.1.1.1", 1, "2.2.2.2", 80, NULL);
    const char req[] = "GET /a\0b\x01 HTTP/1.1\r\nHost: a\r\n\r\n";
    htp_connp_req_data(c, NULL, req, sizeof(req) - 1);
    htp_tx_t *tx = htp_list_get(c->conn->transactions, 0);
    printf("D10: path with raw NUL: HTP_PATH_RAW_NUL=%d  expected_status=%d (control char, want 400)\n", !!(tx->flags & HTP_PATH_RAW_NUL), tx->response_status_expected_number);
    if (!(tx->flags & HTP_PATH_RAW_NUL)) bad |= 2;
    htp_connp_destroy_all(c); htp_config_destroy(cfg);
    return bad;
}
