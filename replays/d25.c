/* D25 (C01): htp_mpartp_parse jumps to STATE_SWITCH after a boundary match without re-checking pos < len;
 * when a chunk ends exactly with the last byte of the boundary token, STATE_BOUNDARY_IS_LAST2 reads data[len]. */
#include "h.h"
#include "htp/htp_multipart_private.h"
int main(void) {
    htp_cfg_t *cfg = htp_config_create();
    htp_mpartp_t *p = htp_mpartp_create(cfg, bstr_dup_c("BB"), 0);
    const char *full = "--BB\r\nContent-Disposition: form-data; name=\"a\"\r\n\r\nv\r\n--BB--\r\n";
    size_t cut = strstr(full, "\r\n--BB--") - full + 6;   /* chunk 1 ends right after the boundary token "\r\n--BB" */
    char *c1 = malloc(cut); memcpy(c1, full, cut);           /* exact-size heap copy so that ASan sees data[len] */
    htp_mpartp_parse(p, c1, cut);
    size_t rest = strlen(full) - cut; char *c2 = malloc(rest); memcpy(c2, full + cut, rest);
    htp_mpartp_parse(p, c2, rest);
    htp_mpartp_finalize(p);
    htp_multipart_t *m = htp_mpartp_get_multipart(p);
    printf("flags=%llx seen_last=%d\n", (unsigned long long)m->flags, !!(m->flags & HTP_MULTIPART_SEEN_LAST_BOUNDARY));
    free(c1); free(c2); htp_mpartp_destroy(p); htp_config_destroy(cfg); return 0;
}
