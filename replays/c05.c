#include "h.h"
static int ev(const char *n, htp_tx_t *tx) { printf("    %s tx#%zu\n", n, tx ? tx->index : 99); return HTP_OK; }
#define CB(N) static int cb_##N(htp_tx_t *tx) { return ev(#N, tx); }
CB(request_start) CB(request_line) CB(request_headers) CB(request_trailer) CB(request_complete) CB(response_start) CB(response_line) CB(response_headers) CB(response_complete) CB(transaction_complete)
static int cb_reqbody(htp_tx_data_t *d) { printf("    request_body_data tx#%zu len=%zu %s\n", d->tx->index, d->len, d->data ? "" : "(end marker)"); return HTP_OK; }
static htp_connp_t *mk(htp_cfg_t **pcfg) {
    htp_cfg_t *cfg = htp_config_create();
    htp_config_register_request_start(cfg, cb_request_start); htp_config_register_request_line(cfg, cb_request_line); htp_config_register_request_headers(cfg, cb_request_headers);
    htp_config_register_request_trailer(cfg, cb_request_trailer); htp_config_register_request_complete(cfg, cb_request_complete); htp_config_register_request_body_data(cfg, cb_reqbody);
    htp_config_register_response_start(cfg, cb_response_start); htp_config_register_response_line(cfg, cb_response_line); htp_config_register_response_headers(cfg, cb_response_headers);
    htp_config_register_response_complete(cfg, cb_response_complete); htp_config_register_transaction_complete(cfg, cb_transaction_complete);
    htp_connp_t *c = htp_connp_create(cfg); htp_connp_open(c, "1.1.1.1", 1, "2.2.2.2", 80, NULL); *pcfg = cfg; return c;
}
int main(void) {
    htp_cfg_t *cfg; htp_connp_t *c;
    puts("(1) stream closes inside the request header block:");
    c = mk(&cfg); { const char *r = "GET / HTTP/1.1\r\nHost: a\r\nX: y"; htp_connp_req_data(c, NULL, r, strlen(r)); htp_connp_close(c, NULL); } htp_connp_destroy_all(c); htp_config_destroy(cfg);
    puts("(2) bytes after the trailer of a chunked request (unknown method):");
    c = mk(&cfg); { const char *r = "POST / HTTP/1.1\r\nHost: a\r\nTransfer-Encoding: chunked\r\n\r\n3\r\nabc\r\n0\r\nT: v\r\n\r\nFOO /x HTTP/1.1\r\n"; htp_connp_req_data(c, NULL, r, strlen(r)); htp_connp_close(c, NULL); } htp_connp_destroy_all(c); htp_config_destroy(cfg);
    puts("(3) response that matches no request:");
    c = mk(&cfg); { const char *r = "HTTP/1.1 200 OK\r\nContent-Length: 0\r\n\r\n"; htp_connp_res_data(c, NULL, r, strlen(r)); htp_connp_close(c, NULL); } htp_connp_destroy_all(c); htp_config_destroy(cfg);
    puts("(F4) refused CONNECT, then documented DATA_OTHER hand-over:");
    c = mk(&cfg); {
        const char *rq = "CONNECT h:443 HTTP/1.1\r\nHost: h\r\n\r\nGET /next HTTP/1.1\r\nHost: h\r\n\r\n"; const char *rs = "HTTP/1.1 405 No\r\nContent-Length: 0\r\n\r\nHTTP/1.1 200 OK\r\nContent-Length: 0\r\n\r\n";
        size_t ro = 0, so = 0, rl = strlen(rq), sl = strlen(rs); int guard = 0;
        while ((ro < rl || so < sl) && guard++ < 20) {
            if (ro < rl) { int rc = htp_connp_req_data(c, NULL, rq + ro, rl - ro); size_t k = (rc == HTP_STREAM_DATA_OTHER) ? htp_connp_req_data_consumed(c) : rl - ro; printf("  req rc=%d consumed=%zu\n", rc, k); ro += k; }
            if (so < sl) { int rc = htp_connp_res_data(c, NULL, rs + so, sl - so); size_t k = (rc == HTP_STREAM_DATA_OTHER) ? htp_connp_res_data_consumed(c) : sl - so; printf("  res rc=%d consumed=%zu\n", rc, k); so += k; }
        }
        htp_connp_close(c, NULL); } htp_connp_destroy_all(c); htp_config_destroy(cfg);
    return 0;
}
