# LZMA-alone (.lzma, 13-byte header) stream of 40000 bytes with a 64 KiB dictionary: the decoder starts with a 4 KiB
# dictionary buffer (LZMA_DIC_MIN) and grows it with realloc while decoding
import lzma, random
random.seed(7)
data = bytes(random.randrange(256) for _ in range(40000))
body = lzma.compress(data, format=lzma.FORMAT_ALONE, filters=[{'id': lzma.FILTER_LZMA1, 'dict_size': 1 << 16}])
open('d32.body', 'wb').write(body)
