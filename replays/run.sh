#!/bin/sh
# Concrete replay of a reported violation against the real library (triage only; never part of a check).
# usage: replays/run.sh <harness.c> [args...]     env: REPO=/repo  FI=1 (build with the failing allocator shim)
# Builds an ASan+UBSan copy of the library sources of $REPO in a mktemp dir, runs the harness, removes the dir.
set -e
REPO=${REPO:-/repo}
HERE=$(cd "$(dirname "$0")" && pwd)
H=$1; shift
D=$(mktemp -d /tmp/libhtp-replay-XXXXXX)
trap 'rm -rf "$D"' EXIT
FLAGS="$EXTRA -g -O1 -fsanitize=address,undefined -fno-omit-frame-pointer -DHAVE_CONFIG_H -I$REPO -I$REPO/htp -I$HERE -D_GNU_SOURCE -std=gnu99 -w"
INC=""
[ -n "$FI" ] && INC="-include $HERE/fi/vf.h"
cd "$D"
for f in $REPO/htp/*.c $REPO/htp/lzma/*.c; do
  case "$f" in *htp_request_parsers.c) continue;; esac
  echo "clang $FLAGS $INC -c $f -o $D/$(basename $f .c).o"
done | xargs -P16 -I{} sh -c '{}'
[ -n "$FI" ] && clang $FLAGS -c $HERE/fi/vf.c -o vf.o
clang $FLAGS "$HERE/$H" *.o -lz -o harness
[ -f "$HERE/${H%.c}.gen.py" ] && python3 "$HERE/${H%.c}.gen.py"
ASAN_OPTIONS=detect_leaks=1:halt_on_error=0 UBSAN_OPTIONS=print_stacktrace=1 ./harness "$@"
