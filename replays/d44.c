/* D44 (C09, rule C09.j): once the request direction has reported ERROR no request callback may run any more.
   htp_connp_RES_IDLE "finalizes a dangling request" (htp_tx_state_request_complete(connp->in_tx)) whenever a response arrives
   that matches no transaction and the request parser sits in REQ_FINALIZE - without looking at in_status.
   Scenario: POST with Content-Length 3 followed by stray bytes "XYZ\r\n"; the REQUEST_BODY_DATA callback returns HTP_ERROR on
   the stray bytes, htp_connp_req_data returns HTP_STREAM_ERROR. One matching response, then a second (unmatched) response.
   Exit 1 when a request callback runs after the ERROR. */
#include "h.h"
static int after_error = 0, errored = 0;
static int cb_body(htp_tx_data_t *d) {
    if (errored) { after_error++; printf("  REQUEST_BODY_DATA callback after ERROR (data=%p len=%zu)\n", (void *)d->data, d->len); return HTP_OK; }
    if (d->data && d->len >= 3 && memcmp(d->data, "XYZ", 3) == 0) return HTP_ERROR;
    return HTP_OK;
}
static int cb_complete(htp_tx_t *tx) { if (errored) { after_error++; printf("  REQUEST_COMPLETE callback after ERROR\n"); } return HTP_OK; }
int main(void) {
    htp_cfg_t *cfg = htp_config_create();
    htp_config_register_request_body_data(cfg, cb_body);
    htp_config_register_request_complete(cfg, cb_complete);
    htp_connp_t *c = htp_connp_create(cfg); htp_connp_open(c, "1.1.1.1", 1, "2.2.2.2", 80, NULL);
    const char *rq = "POST / HTTP/1.1\r\nHost: a\r\nContent-Length: 3\r\n\r\nabcXYZ\r\n";
    int rc = htp_connp_req_data(c, NULL, rq, strlen(rq));
    printf("req_data -> %d (HTP_STREAM_ERROR is %d)\n", rc, HTP_STREAM_ERROR);
    if (rc != HTP_STREAM_ERROR) { printf("scenario not reached\n"); return 2; }
    errored = 1;
    const char *rs = "HTTP/1.1 200 OK\r\nContent-Length: 0\r\n\r\nHTTP/1.1 200 OK\r\nContent-Length: 0\r\n\r\nHTTP/1.1 200 OK\r\nContent-Length: 0\r\n\r\n";
    htp_connp_res_data(c, NULL, rs, strlen(rs));
    rc = htp_connp_req_data(c, NULL, "GET / HTTP/1.1\r\n\r\n", 18);
    printf("req_data after the error -> %d\n", rc);
    printf(after_error ? "DEFECT: %d request callback(s) ran after the request direction had reported ERROR\n" : "ok: no request callback after ERROR\n", after_error);
    htp_connp_destroy_all(c); htp_config_destroy(cfg);
    return after_error ? 1 : 0;
}
