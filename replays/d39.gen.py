# a 3 MiB request body of poorly compressible text, gzip-compressed (ratio ~1.3: far from the bomb ratio)
import gzip, random, base64
random.seed(3)
data = base64.b64encode(bytes(random.randrange(256) for _ in range(2400000)))
open('d39.body', 'wb').write(gzip.compress(data))
open('d39.len', 'w').write(str(len(data)))
