/* D30 (C03 / C14): a multipart epilogue that ends in a newline is lost when it arrives in one piece; every cut inside it reports it */
#include "h.h"
static void run(const char *title, const char *body, size_t cut) {
    htp_cfg_t *cfg = htp_config_create();
    htp_mpartp_t *p = htp_mpartp_create(cfg, bstr_dup_c("BBB"), 0);
    size_t n = strlen(body);
    if (cut == 0 || cut >= n) htp_mpartp_parse(p, body, n);
    else { htp_mpartp_parse(p, body, cut); htp_mpartp_parse(p, body + cut, n - cut); }
    htp_mpartp_finalize(p);
    htp_multipart_t *m = htp_mpartp_get_multipart(p);
    printf("%-30s flags=0x%llx parts=%zu:", title, (unsigned long long) m->flags, htp_list_size(m->parts));
    for (size_t i = 0; i < htp_list_size(m->parts); i++) {
        htp_multipart_part_t *part = htp_list_get(m->parts, i);
        printf(" {type=%d value=[", part->type);
        if (part->value) for (size_t k = 0; k < bstr_len(part->value); k++) { unsigned char c = bstr_ptr(part->value)[k]; if (c < 32) printf("\\x%02x", c); else putchar(c); }
        printf("]}");
    }
    printf("\n");
    htp_mpartp_destroy(p); htp_config_destroy(cfg);
}
int main(void) {
    const char *b1 = "--BBB\r\nContent-Disposition: form-data; name=\"a\"\r\n\r\nvalue\r\n--BBB--\r\nepilogue\r\n";
    for (size_t c = 0; c <= strlen(b1); c += 1) { char t[32]; snprintf(t, sizeof t, "cut %zu", c); if (c == 0 || c > 60) run(c ? t : "whole", b1, c); }
    const char *b2 = "--BBB\r\nContent-Disposition: form-data; name=\"a\"\r\n\r\nvalue\r\n--BBB--\r\nepilogue";
    run("no trailing newline, whole", b2, 0); run("no trailing newline, cut 75", b2, 75);
    return 0;
}
