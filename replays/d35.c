/* D35 (C03 / C06 / C02): a chunk-size line with a chunk extension, cut right after the size digits.  data_probe_chunk_length()
   looks only at the unconsumed part of the CURRENT chunk (at least 8 bytes of it); with the digits set aside in out_buf by
   the previous call, the first byte it sees is ';', it answers "not a chunk length", the line is ended early after 8 bytes
   of the extension, the length still parses (5), and the next 5 bytes of the extension are delivered as body. */
#include "h.h"
static char got[256]; static size_t gl;
static int cb(htp_tx_data_t *d) { if (d->data) { memcpy(got + gl, d->data, d->len); gl += d->len; } return HTP_OK; }
static void run(const char *title, const char **pieces) {
    gl = 0; memset(got, 0, sizeof got);
    htp_cfg_t *cfg = htp_config_create();
    htp_config_register_response_body_data(cfg, cb);
    htp_connp_t *connp = htp_connp_create(cfg);
    htp_connp_open(connp, "1.1.1.1", 1, "2.2.2.2", 80, NULL);
    const char *rq = "GET / HTTP/1.1\r\nHost: a\r\n\r\n";
    htp_connp_req_data(connp, NULL, rq, strlen(rq));
    for (int i = 0; pieces[i]; i++) htp_connp_res_data(connp, NULL, pieces[i], strlen(pieces[i]));
    htp_tx_t *tx = htp_list_get(connp->conn->transactions, 0);
    printf("%-28s body=[%s] (%zu bytes) response_progress=%d\n", title, got, gl, tx->response_progress);
    htp_connp_destroy_all(connp); htp_config_destroy(cfg);
}
int main(void) {
    const char *whole[] = { "HTTP/1.1 200 OK\r\nTransfer-Encoding: chunked\r\n\r\n5;ext=abcdefgh\r\nhello\r\n0\r\n\r\n", NULL };
    const char *cut[]   = { "HTTP/1.1 200 OK\r\nTransfer-Encoding: chunked\r\n\r\n5", ";ext=abcdefgh\r\nhello\r\n0\r\n\r\n", NULL };
    const char *cut2[]  = { "HTTP/1.1 200 OK\r\nTransfer-Encoding: chunked\r\n\r\n5;e", "xt=abcdefgh\r\nhello\r\n0\r\n\r\n", NULL };
    run("one piece", whole); run("cut after the size digit", cut); run("cut inside the extension", cut2);
    return 0;
}
