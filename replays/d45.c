/* D45 (C16, rule C16.k): after a 2xx answer to CONNECT it is the REQUEST side that probes the first tunnel bytes and decides
   between tunnel mode and plain HTTP. When the SERVER speaks first (SSH, SMTP, FTP banners), htp_connp_RES_IDLE finds no
   transaction for those bytes, logs "Unable to match response to request", creates a request-less transaction, overwrites
   in_tx and forces in_state = REQ_FINALIZE underneath the suspended request parser: the tunnel is never entered and every
   later chunk produces more transactions.  Exit 1 when that happens. */
#include "h.h"
int main(void) {
    htp_cfg_t *cfg = htp_config_create();
    htp_connp_t *c = htp_connp_create(cfg); htp_connp_open(c, "1.1.1.1", 1, "2.2.2.2", 80, NULL);
    const char *rq = "CONNECT host:22 HTTP/1.1\r\nHost: host:22\r\n\r\n";
    int r1 = htp_connp_req_data(c, NULL, rq, strlen(rq));
    const char *rs = "HTTP/1.1 200 Connection established\r\n\r\n";
    int r2 = htp_connp_res_data(c, NULL, rs, strlen(rs));
    const char *banner = "SSH-2.0-OpenSSH_9.0\r\n";
    int r3 = htp_connp_res_data(c, NULL, banner, strlen(banner));
    const char *cl = "SSH-2.0-client\r\n";
    int r4 = htp_connp_req_data(c, NULL, cl, strlen(cl));
    int r5 = htp_connp_res_data(c, NULL, "\x00\x00\x01\x14", 4);
    size_t n = htp_list_size(c->conn->transactions);
    printf("req=%d res=%d banner=%d client=%d more=%d (TUNNEL is %d); transactions=%zu\n", r1, r2, r3, r4, r5, HTP_STREAM_TUNNEL, n);
    int bad = n > 1 || r5 != HTP_STREAM_TUNNEL;
    printf(bad ? "DEFECT: server-first tunnel bytes start new transactions and the tunnel is not entered\n" : "ok\n");
    htp_connp_destroy_all(c); htp_config_destroy(cfg);
    return bad;
}
