/* D23 (C09): STOP is not sticky across htp_connp_close()/htp_connp_req_close(): they overwrite in_status with
 * CLOSED unless it is ERROR, then call the parser, which runs callbacks for a direction that reported STOP.
 * Also: a 407/4xx answer to a CONNECT sets in_status = DATA unless ERROR, reviving a stopped request side. */
#include "h.h"
static int n_after = 0, stopped = 0;
static int cb_line(htp_tx_t *tx) { return HTP_STOP; }
static int cb_any2(htp_tx_data_t *d) { if (stopped) { n_after++; printf("  body callback after STOP\n"); } return HTP_OK; }
static int cb_any(htp_tx_t *tx) { if (stopped) { n_after++; printf("  callback after STOP (request_progress=%d)\n", tx->request_progress); } return HTP_OK; }
int main(void) {
    htp_cfg_t *cfg = htp_config_create();
    htp_config_register_request_headers(cfg, cb_line);
    htp_config_register_request_complete(cfg, cb_any); htp_config_register_request_trailer(cfg, cb_any); htp_config_register_request_body_data(cfg, (int (*)(htp_tx_data_t *))cb_any2);
    htp_connp_t *c = htp_connp_create(cfg); htp_connp_open(c, "1.1.1.1", 1, "2.2.2.2", 80, NULL);
    const char *req = "POST / HTTP/1.1\r\nHost: a\r\nContent-Length: 5\r\n\r\n";
    int rc = htp_connp_req_data(c, NULL, req, strlen(req)); stopped = 1;
    printf("req_data rc=%d (6=STOP) in_status=%d\n", rc, c->in_status);
    int rc2 = htp_connp_req_data(c, NULL, "hello", 5);
    printf("second req_data rc=%d in_status=%d\n", rc2, c->in_status);
    htp_connp_close(c, NULL);
    printf("after close: in_status=%d callbacks after STOP=%d\n", c->in_status, n_after);
    htp_connp_destroy_all(c); htp_config_destroy(cfg);
    return n_after ? 1 : 0;
}
