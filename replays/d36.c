/* D36 (C01, configuration lattice): multipart file extraction builds the temporary file name with
   strncpy(buf[255], tmpdir, 254) - which does not terminate buf when tmpdir has 254 or more characters - and then
   strncat(buf, suffix, 254 - strlen(buf)): strlen runs off the end of buf and the unsigned difference wraps. */
#include "h.h"
int main(void) {
    htp_cfg_t *cfg = htp_config_create();
    char dir[400]; memset(dir, 'd', sizeof dir); dir[0] = '/'; dir[300] = 0;
    htp_config_set_tmpdir(cfg, dir);
    htp_config_set_extract_request_files(cfg, 1, -1);
    htp_config_register_multipart_parser(cfg);
    htp_connp_t *c = htp_connp_create(cfg); htp_connp_open(c, "1.1.1.1", 1, "2.2.2.2", 80, NULL);
    const char *body = "--B\r\nContent-Disposition: form-data; name=\"f\"; filename=\"a.txt\"\r\n\r\nfile bytes\r\n--B--\r\n";
    char rq[1024]; int n = snprintf(rq, sizeof rq, "POST / HTTP/1.1\r\nHost: a\r\nContent-Type: multipart/form-data; boundary=B\r\nContent-Length: %zu\r\n\r\n%s", strlen(body), body);
    int rc = htp_connp_req_data(c, NULL, rq, n);
    printf("req_data -> %d\n", rc);
    htp_connp_destroy_all(c); htp_config_destroy(cfg);
    return 0;
}
