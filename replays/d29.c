/* D29 (C13): bytes between the ']' of a bracketed host and the port colon (or the end of the authority) are dropped from the raw components */
#include "h.h"
static void show(const char *t) {
    htp_uri_t *u = NULL; bstr *in = bstr_dup_c(t);
    htp_parse_uri(in, &u);
#define P(F) if (u->F) printf(" " #F "=[%.*s]", (int) bstr_len(u->F), bstr_ptr(u->F));
    printf("%-28s ->", t); P(scheme) P(username) P(password) P(hostname) P(port) P(path) P(query) P(fragment) printf("\n");
    htp_uri_free(u); bstr_free(in);
}
int main(void) { show("http://[::1]:80/p"); show("http://[::1]junk:80/p"); show("http://[::1]junk/p"); show("http://[]aa"); return 0; }
