#include "h.h"
static void run(const char *req, const char **res, int n) {
    htp_cfg_t *cfg = htp_config_create(); htp_connp_t *c = htp_connp_create(cfg);
    htp_connp_open(c, "1.1.1.1", 1, "2.2.2.2", 80, NULL);
    htp_connp_req_data(c, NULL, req, strlen(req));
    for (int i = 0; i < n; i++) htp_connp_res_data(c, NULL, res[i], strlen(res[i]));
    htp_connp_close(c, NULL);
    htp_tx_t *tx = htp_list_get(c->conn->transactions, 0); dump_headers(tx);
    htp_connp_destroy_all(c); htp_config_destroy(cfg);
}
int main(void) {
    const char *req = "GET / HTTP/1.1\r\nHost: a\r\n\r\n";
    const char *w[] = {"HTTP/1.1 200 OK\r\nX-A: one\r\n two\r\nContent-Length: 0\r\n\r\n"};
    const char *s[] = {"HTTP/1.1 200 OK\r\nX-A: one\r\n", " two\r\nContent-Length: 0\r\n\r\n"};
    puts("whole:"); run(req, w, 1); puts("cut before the continuation line:"); run(req, s, 2);
    return 0;
}
