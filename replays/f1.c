#include "h.h"
static long n=0; static unsigned char got[64];
static int cbb(htp_tx_data_t *d) { if (d->data) for (size_t i=0;i<d->len && n<60;i++) got[n++]=d->data[i]; return HTP_OK; }
static void run(const char **res, int k) {
    n=0; htp_cfg_t *cfg = htp_config_create(); htp_config_register_response_body_data(cfg, cbb); htp_connp_t *c = htp_connp_create(cfg);
    htp_connp_open(c, "1.1.1.1", 1, "2.2.2.2", 80, NULL);
    const char *req = "GET / HTTP/1.1\r\nHost: a\r\n\r\n"; htp_connp_req_data(c, NULL, req, strlen(req));
    for (int i = 0; i < k; i++) htp_connp_res_data(c, NULL, res[i], strlen(res[i]));
    htp_connp_close(c, NULL);
    htp_tx_t *tx = htp_list_get(c->conn->transactions, 0);
    printf("  headers=%zu body=", htp_table_size(tx->response_headers)); for (long i=0;i<n;i++) printf("%02x ", got[i]); printf(" flags=%llx\n", (unsigned long long)tx->flags);
    htp_connp_destroy_all(c); htp_config_destroy(cfg);
}
int main(void) {
    const char *w[] = {"HTTP/1.1 200 OK\r\nContent-Length: 3\r\n\r\n\rXY"};
    const char *s[] = {"HTTP/1.1 200 OK\r\nContent-Length: 3\r\n\r", "\n\rXY"};
    puts("whole:"); run(w,1); puts("cut between CR and LF of the empty line:"); run(s,2); return 0;
}
