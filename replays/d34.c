/* D34 (C01): a TRANSACTION_COMPLETE callback that destroys the (completed) transaction - a callback behaviour C01 quantifies
   over - makes htp_tx_finalize() read tx->connp->cfg->tx_auto_destroy from the freed transaction. Default configuration
   (auto-destroy off), one plain exchange. */
#include "h.h"
static int cb_tx_complete(htp_tx_t *tx) { htp_tx_destroy(tx); return HTP_OK; }
int main(void) {
    htp_cfg_t *cfg = htp_config_create();
    htp_config_register_transaction_complete(cfg, cb_tx_complete);
    htp_connp_t *connp = htp_connp_create(cfg);
    htp_connp_open(connp, "1.1.1.1", 1, "2.2.2.2", 80, NULL);
    const char *rq = "GET / HTTP/1.1\r\nHost: a\r\n\r\n";
    const char *rs = "HTTP/1.1 200 OK\r\nContent-Length: 2\r\n\r\nok";
    int a = htp_connp_req_data(connp, NULL, rq, strlen(rq));
    int b = htp_connp_res_data(connp, NULL, rs, strlen(rs));
    printf("req_data %d res_data %d transactions listed: %zu\n", a, b, htp_list_size(connp->conn->transactions));
    htp_connp_destroy_all(connp); htp_config_destroy(cfg);
    return 0;
}
