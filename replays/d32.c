/* D32 (C18 / C01): when the realloc that grows the LZMA dictionary fails, the decoder has already recorded the larger size
   (p->dicBufSize) while p->dic is still the old, smaller block.  The failure is reported as Z_DATA_ERROR; if the call had
   produced output, htp_gzip_decompressor_decompress() turns that into Z_STREAM_END, delivers the bytes and returns HTP_OK
   with the decoder still live.  The next body chunk makes LzmaDec_DecodeToDic write past the end of the old block.
   Build with FI=1 (failing allocator shim); sweeps the failing allocation over the whole run. */
#include "h.h"
extern long vf_count, vf_fail_at;
static unsigned char body[200000]; static size_t body_len;
static long run_once(long fail_at) {
    vf_count = 0; vf_fail_at = fail_at; body_bytes = 0;
    htp_cfg_t *cfg = htp_config_create();
    if (!cfg) return -1;
    htp_config_set_server_personality(cfg, HTP_SERVER_GENERIC);
    htp_config_register_response_body_data(cfg, cb_res_body);
    htp_config_set_lzma_memlimit(cfg, 1 << 20);
    htp_connp_t *connp = htp_connp_create(cfg);
    if (!connp) { htp_config_destroy(cfg); return -1; }
    htp_connp_open(connp, "1.1.1.1", 1, "2.2.2.2", 80, NULL);
    const char *rq = "GET / HTTP/1.1\r\nHost: a\r\n\r\n";
    htp_connp_req_data(connp, NULL, rq, strlen(rq));
    char hd[256]; int n = snprintf(hd, sizeof hd, "HTTP/1.1 200 OK\r\nContent-Encoding: lzma\r\nContent-Length: %zu\r\n\r\n", body_len);
    htp_connp_res_data(connp, NULL, hd, n);
    /* the body in 2000-byte chunks, each from its own heap block */
    for (size_t off = 0; off < body_len; off += 2000) {
        size_t l = body_len - off < 2000 ? body_len - off : 2000;
        unsigned char *c = __builtin_malloc(l); memcpy(c, body + off, l);
        htp_connp_res_data(connp, NULL, c, l);
        __builtin_free(c);
    }
    long total = vf_count;
    htp_connp_destroy_all(connp); htp_config_destroy(cfg);
    return total;
}
int main(void) {
    FILE *f = fopen("d32.body", "rb"); body_len = fread(body, 1, sizeof body, f); fclose(f);
    long total = run_once(-1);
    printf("fault-free run: %ld allocations, %ld body bytes delivered\n", total, body_bytes);
    for (long k = 1; k <= total; k++) { run_once(k); printf("fail allocation %ld: %ld body bytes delivered\n", k, body_bytes); fflush(stdout); }
    return 0;
}
