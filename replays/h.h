#include <stdio.h>
#include <stdlib.h>
#include <string.h>
#include "htp/htp.h"
#include "htp/htp_private.h"
static long body_bytes = 0; static int body_calls = 0;
static int cb_res_body(htp_tx_data_t *d) { if (d->data) { body_bytes += d->len; body_calls++; } return HTP_OK; }
static void dump_headers(htp_tx_t *tx) {
    for (size_t i = 0; i < htp_table_size(tx->response_headers); i++) {
        htp_header_t *h = htp_table_get_index(tx->response_headers, i, NULL);
        printf("  [%.*s] = [%.*s] flags=%llx\n", (int)bstr_len(h->name), bstr_ptr(h->name), (int)bstr_len(h->value), bstr_ptr(h->value), (unsigned long long)h->flags);
    }
    printf("  tx flags=%llx\n", (unsigned long long)tx->flags);
}
