#include "h.h"
static int cb_hdrs(htp_tx_t *tx) { htp_tx_register_response_body_data(tx, cb_res_body); return HTP_OK; }
int main(int argc, char **argv) {
    htp_cfg_t *cfg = htp_config_create(); 
    if (argc > 1) htp_config_register_response_headers(cfg, cb_hdrs);
    htp_connp_t *c = htp_connp_create(cfg);
    htp_connp_open(c, "1.1.1.1", 1, "2.2.2.2", 80, NULL);
    static const char req[] = "GET /a%00b\0c HTTP/1.1\r\nHost: a\r\n\r\n";
    htp_connp_req_data(c, NULL, req, sizeof(req) - 1);
    const char *res = "HTTP/1.1 200 OK\r\n  \r\nX: y\r\nContent-Length: 3\r\n\r\nabc";
    htp_connp_res_data(c, NULL, res, strlen(res));
    htp_connp_close(c, NULL);
    htp_tx_t *tx = htp_list_get(c->conn->transactions, 0); dump_headers(tx);
    printf("path=[%.*s] len=%zu flags RAW_NUL=%d ENCODED_NUL=%d\n", (int)bstr_len(tx->parsed_uri->path), bstr_ptr(tx->parsed_uri->path), bstr_len(tx->parsed_uri->path), !!(tx->flags & HTP_PATH_RAW_NUL), !!(tx->flags & HTP_PATH_ENCODED_NUL));
    htp_connp_destroy_all(c); htp_config_destroy(cfg);
    return 0;
}
