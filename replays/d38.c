/* D38 (C12): with %u decoding and "encoded NUL terminates" both on, /a%00b is cut at the NUL but /a%u0000b is not:
   the %u arm of htp_decode_path_inplace raises the indicator and never looks at nul_encoded_terminates. */
#include "h.h"
static void run(const char *uri) {
    htp_cfg_t *cfg = htp_config_create();
    htp_config_set_u_encoding_decode(cfg, HTP_DECODER_URL_PATH, 1);
    htp_config_set_nul_encoded_terminates(cfg, HTP_DECODER_URL_PATH, 1);
    htp_connp_t *c = htp_connp_create(cfg); htp_connp_open(c, "1.1.1.1", 1, "2.2.2.2", 80, NULL);
    char rq[256]; int n = snprintf(rq, sizeof rq, "GET %s HTTP/1.1\r\nHost: a\r\n\r\n", uri);
    htp_connp_req_data(c, NULL, rq, n);
    htp_tx_t *tx = htp_list_get(c->conn->transactions, 0);
    printf("%-14s -> path [", uri);
    for (size_t i = 0; i < bstr_len(tx->parsed_uri->path); i++) { unsigned char ch = bstr_ptr(tx->parsed_uri->path)[i]; if (ch) putchar(ch); else printf("\\0"); }
    printf("] ENCODED_NUL=%d\n", (tx->flags & HTP_PATH_ENCODED_NUL) != 0);
    htp_connp_destroy_all(c); htp_config_destroy(cfg);
}
int main(void) { run("/a%00b/c"); run("/a%u0000b/c"); return 0; }
