#include "h.h"
static void run(const char *req, size_t n) {
    htp_cfg_t *cfg = htp_config_create(); htp_connp_t *c = htp_connp_create(cfg);
    htp_connp_open(c, "1.1.1.1", 1, "2.2.2.2", 80, NULL);
    int rc = htp_connp_req_data(c, NULL, req, n);
    htp_tx_t *tx = htp_list_get(c->conn->transactions, 0);
    printf(" rc=%d flags=%llx SMUGGLING=%d INVALID_T_E=%d INVALID=%d coding=%d msg_len=%ld entity_len=%ld ntx=%zu\n", rc, (unsigned long long)tx->flags, !!(tx->flags & HTP_REQUEST_SMUGGLING), !!(tx->flags & HTP_REQUEST_INVALID_T_E), !!(tx->flags&HTP_REQUEST_INVALID), tx->request_transfer_coding, (long)tx->request_message_len, (long)tx->request_entity_len, htp_list_size(c->conn->transactions));
    htp_connp_destroy_all(c); htp_config_destroy(cfg);
}
int main(void) {
    const char *a = "POST / HTTP/1.1\r\nHost: a\r\nTransfer-Encoding: gzip\r\nContent-Length: 5\r\nContent-Length: 6\r\n\r\nhello!";
    const char *b = "POST / HTTP/1.1\r\nHost: a\r\nContent-Length: 5\r\nContent-Length: 6\r\n\r\nhello!";
    const char *c = "POST / HTTP/1.1\r\nHost: a\r\nContent-Length:\r\n 5\r\n\r\nhello";
    const char *d = "GET / HTTP/1.1\r\nHost: a\r\n\r\nFOO /x HTTP/1.1\r\nHost: a\r\n\r\n";
    puts("D8 unsupported T-E + two C-L:"); run(a, strlen(a));
    puts("two C-L only:"); run(b, strlen(b));
    puts("D7 folded C-L:"); run(c, strlen(c));
    puts("D9 / extension method pipelined in same chunk:"); run(d, strlen(d));
    return 0;
}
