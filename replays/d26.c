/* D26 (C05, response side): order inversions found as abstract counterexamples by the typestate exploration.
 * Prints the response callback trace for three inputs. */
#include "h.h"
static char trace[1024];
#define CB(name) static int cb_##name(htp_tx_t *tx) { strcat(trace, #name " "); return HTP_OK; }
CB(start) CB(line) CB(headers) CB(trailer) CB(complete) CB(txc)
static int cb_body(htp_tx_data_t *d) { strcat(trace, d->data ? "body " : "end-marker "); return HTP_OK; }
static void run(const char *title, const char *req, const char **res, int nres) {
    trace[0] = 0;
    htp_cfg_t *cfg = htp_config_create();
    htp_config_register_response_start(cfg, cb_start); htp_config_register_response_line(cfg, cb_line); htp_config_register_response_headers(cfg, cb_headers);
    htp_config_register_response_trailer(cfg, cb_trailer); htp_config_register_response_complete(cfg, cb_complete); htp_config_register_response_body_data(cfg, cb_body);
    htp_config_register_transaction_complete(cfg, cb_txc);
    htp_connp_t *c = htp_connp_create(cfg); htp_connp_open(c, "1.1.1.1", 1, "2.2.2.2", 80, NULL);
    htp_connp_req_data(c, NULL, req, strlen(req));
    for (int i = 0; i < nres; i++) htp_connp_res_data(c, NULL, res[i], strlen(res[i]));
    htp_connp_close(c, NULL);
    printf("%-46s: %s\n", title, trace);
    htp_connp_destroy_all(c); htp_config_destroy(cfg);
}
int main(void) {
    const char *req = "GET / HTTP/1.1\r\nHost: a\r\n\r\n";
    const char *r1[] = { "this is not a status line\r\nneither is this one\r\n", "HTTP/1.1 200 OK\r\nContent-Length: 1\r\n\r\nx" };
    run("garbage line, then a status line (2 chunks)", req, r1, 2);
    const char *r1b[] = { "this is not a status line\r\nxyz\r\nHTTP/1.1 200 OK\r\nContent-Length: 1\r\n\r\nx" };
    run("garbage lines then a status line (1 chunk)", req, r1b, 1);
    const char *r2[] = { "HTTP/1.1 200 OK\r\nTransfer-Encoding: chunked\r\n\r\n1\r\na\r\n0\r\nT: v\r\n\r\nmore bytes that are not a status line\r\n" };
    run("chunked + trailer, then junk", req, r2, 1);
    /* body_data after COMPLETE (same root as F4): refused CONNECT + pipelined request, caller follows the documented DATA_OTHER hand-over;
     * the bytes after the 405 are not a status line */
    {
        trace[0] = 0;
        htp_cfg_t *cfg = htp_config_create();
        htp_config_register_response_start(cfg, cb_start); htp_config_register_response_line(cfg, cb_line); htp_config_register_response_headers(cfg, cb_headers);
        htp_config_register_response_trailer(cfg, cb_trailer); htp_config_register_response_complete(cfg, cb_complete); htp_config_register_response_body_data(cfg, cb_body);
        htp_config_register_transaction_complete(cfg, cb_txc);
        htp_connp_t *c = htp_connp_create(cfg); htp_connp_open(c, "1.1.1.1", 1, "2.2.2.2", 80, NULL);
        const char *rq = "CONNECT h:443 HTTP/1.1\r\nHost: h\r\n\r\nGET /next HTTP/1.1\r\nHost: h\r\n\r\n";
        const char *rs[2] = { "HTTP/1.1 405 No\r\nContent-Length: 0\r\n\r\n", "this is not a status line\r\n" };
        size_t ro = 0, rl = strlen(rq);
        for (int i = 0; i < 2; i++) {
            if (ro < rl) { int rc = htp_connp_req_data(c, NULL, rq + ro, rl - ro); size_t k = (rc == HTP_STREAM_DATA_OTHER) ? htp_connp_req_data_consumed(c) : rl - ro; ro += k; }
            size_t so = 0, sl = strlen(rs[i]); int guard = 0;
            while (so < sl && guard++ < 5) {
                int rc = htp_connp_res_data(c, NULL, rs[i] + so, sl - so); size_t k = (rc == HTP_STREAM_DATA_OTHER) ? htp_connp_res_data_consumed(c) : sl - so; so += k; strcat(trace, "| ");
                if (ro < rl) { int rc2 = htp_connp_req_data(c, NULL, rq + ro, rl - ro); size_t k2 = (rc2 == HTP_STREAM_DATA_OTHER) ? htp_connp_req_data_consumed(c) : rl - ro; ro += k2; }
            }
        }
        htp_connp_close(c, NULL);
        printf("%-46s: %s\n", "405 to CONNECT, hand-over, then junk", trace);
        htp_connp_destroy_all(c); htp_config_destroy(cfg);
    }
    return 0;
}
