/* D12 (request sibling): htp_parse_request_header_generic() computes prev = value_end - 1 with len == 0. */
#include "h.h"
int main(void) {
    htp_cfg_t *cfg = htp_config_create();
    htp_connp_t *c = htp_connp_create(cfg); htp_connp_open(c, "1.1.1.1", 1, "2.2.2.2", 80, NULL);
    const char *req = "GET / HTTP/1.1\r\n \r\nX: y\r\n\r\n";
    int rc = htp_connp_req_data(c, NULL, req, strlen(req));
    printf("rc=%d\n", rc);
    htp_connp_destroy_all(c); htp_config_destroy(cfg); return 0;
}
