/* D46 (C07, rule C07.r): the Content-Encoding token loop of htp_tx_state_response_headers advances its input by tok_len + 1
   from where the scan STARTED, although get_token() skips leading separators and returns the token further on. With more than
   one separator character in front of a token the next scan starts inside that token: "gzip ,  deflate" yields the tokens
   gzip, deflate and "te" (an unknown coding that still counts as a layer); "deflate,        gzip" yields gzip twice - three
   decompressors for a two-coding list.  Counts the decompressors that were chained.  Exit 1 when a list of two codings
   produces anything but two layers and no unknown token. */
#include "h.h"
static int unknown = 0;
static int cb_log(htp_log_t *l) { if (l->msg && strstr(l->msg, "C-E unknown setting")) unknown++; return HTP_OK; }
static int run(const char *ce) {
    htp_cfg_t *cfg = htp_config_create();
    htp_config_register_log(cfg, cb_log);
    htp_config_set_response_decompression_layer_limit(cfg, 10);
    htp_connp_t *c = htp_connp_create(cfg); htp_connp_open(c, "1.1.1.1", 1, "2.2.2.2", 80, NULL);
    const char *rq = "GET / HTTP/1.1\r\nHost: a\r\n\r\n";
    htp_connp_req_data(c, NULL, rq, strlen(rq));
    char rs[512]; int n = snprintf(rs, sizeof rs, "HTTP/1.1 200 OK\r\nContent-Encoding: %s\r\nContent-Length: 100\r\n\r\n", ce);
    unknown = 0;
    htp_connp_res_data(c, NULL, rs, n);
    int layers = 0;
    for (htp_decompressor_t *d = c->out_decompressor; d != NULL; d = d->next) layers++;
    printf("Content-Encoding: [%s] -> %d layer(s), %d unknown token(s)\n", ce, layers, unknown);
    htp_connp_destroy_all(c); htp_config_destroy(cfg);
    return layers != 2 || unknown != 0;
}
int main(void) {
    int ctl = run("gzip, deflate");
    if (ctl) { printf("control failed\n"); return 2; }
    int bad = run("gzip ,  deflate") | run("deflate,        gzip");
    printf(bad ? "DEFECT: a token is scanned again from its middle when several separators precede it\n" : "ok\n");
    return bad;
}
