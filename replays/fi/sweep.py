#!/usr/bin/env python3
"""Fail-the-k-th-allocation sweep over the three scenarios of fi.c against an ASan+UBSan build of $REPO
(triage only). usage: replays/fi/sweep.py [REPO]"""
import os, re, shutil, subprocess, sys, tempfile, collections
from concurrent.futures import ThreadPoolExecutor
HERE = os.path.dirname(os.path.abspath(__file__))
REPO = sys.argv[1] if len(sys.argv) > 1 else '/repo'
d = tempfile.mkdtemp(prefix='libhtp-fi-')
try:
    flags = ('-g -O1 -fsanitize=address,undefined -fno-omit-frame-pointer -DHAVE_CONFIG_H -I%s -I%s/htp -D_GNU_SOURCE -std=gnu99 -w' % (REPO, REPO)).split()
    srcs = [os.path.join(REPO, 'htp', f) for f in os.listdir(os.path.join(REPO, 'htp')) if f.endswith('.c') and f != 'htp_request_parsers.c'] + \
           [os.path.join(REPO, 'htp', 'lzma', f) for f in os.listdir(os.path.join(REPO, 'htp', 'lzma')) if f.endswith('.c')]
    def cc(s):
        subprocess.run(['clang'] + flags + ['-include', os.path.join(HERE, 'vf.h'), '-c', s, '-o', os.path.join(d, os.path.basename(s)[:-2] + '.o')], check=True)
    with ThreadPoolExecutor(16) as ex:
        list(ex.map(cc, srcs))
    subprocess.run(['clang'] + flags + ['-c', os.path.join(HERE, 'vf.c'), '-o', os.path.join(d, 'vf.o')], check=True)
    objs = [os.path.join(d, f) for f in os.listdir(d) if f.endswith('.o')]
    subprocess.run(['clang'] + flags + [os.path.join(HERE, 'fi.c')] + objs + ['-lz', '-o', os.path.join(d, 'fi')], check=True)
    env = dict(os.environ, ASAN_OPTIONS='detect_leaks=0')
    found = collections.defaultdict(list)
    total = 0
    for sc in (1, 2, 3):
        n = int(subprocess.run([os.path.join(d, 'fi'), str(sc), '0'], capture_output=True, text=True, env=env).stdout.strip())
        def one(k):
            r = subprocess.run([os.path.join(d, 'fi'), str(sc), str(k)], capture_output=True, text=True, env=env)
            m = re.search(r'SUMMARY: \w+Sanitizer: (.*)', r.stderr)
            rt = re.search(r'runtime error: (.*)', r.stderr)
            return k, (m.group(1) if m else ('UBSan: ' + rt.group(1)) if rt else ('signal %d' % r.returncode if r.returncode < 0 else None))
        with ThreadPoolExecutor(16) as ex:
            for k, s in ex.map(one, range(1, n + 1)):
                total += 1
                if s:
                    found[re.sub(r'0x[0-9a-f]+', 'ADDR', s)].append((sc, k))
    print('%d runs (fail the k-th allocation), %d distinct failures' % (total, len(found)))
    for s, ks in found.items():
        print('  %s  <- scenario,k = %s' % (s, ks[:6]))
finally:
    shutil.rmtree(d, ignore_errors=True)
