#include <stdio.h>
#include <stdlib.h>
#include <string.h>
#include "htp/htp.h"
extern long vf_count, vf_fail_at;
static const char *REQ1 = "GET http://user:pw@[::1]:8080/p?a=1&b=2&c=3 HTTP/1.1\r\nHost: [::1]:8080\r\nAuthorization: Basic dXNlcjpwYXNz\r\nCookie: a=b; c=d\r\n\r\n";
static const char *REQ2 = "CONNECT [::1]:443 HTTP/1.1\r\nHost: [::1]:443\r\n\r\n";
static const char *REQ3 = "POST /u HTTP/1.1\r\nHost: h\r\nContent-Type: multipart/form-data; boundary=BB\r\nContent-Length: 118\r\n\r\n--BB\r\nContent-Disposition: form-data; name=\"f\"; filename=\"x.txt\"\r\nContent-Type: text/plain\r\n\r\nDATA\r\n--BB--\r\n";
static const char *RES = "HTTP/1.1 200 OK\r\nContent-Length: 2\r\n\r\nok";
static void scenario(int which) {
    htp_cfg_t *cfg = htp_config_create(); if (!cfg) return;
    htp_config_register_urlencoded_parser(cfg); htp_config_register_multipart_parser(cfg);
    htp_connp_t *c = htp_connp_create(cfg); if (!c) { htp_config_destroy(cfg); return; }
    htp_connp_open(c, "10.0.0.1", 1234, "10.0.0.2", 80, NULL);
    const char *rq = which == 1 ? REQ1 : which == 2 ? REQ2 : REQ3;
    htp_connp_req_data(c, NULL, rq, strlen(rq));
    htp_connp_res_data(c, NULL, RES, strlen(RES));
    htp_connp_close(c, NULL);
    htp_connp_destroy_all(c); htp_config_destroy(cfg);
}
int main(int argc, char **argv) {
    int which = atoi(argv[1]); long k = atol(argv[2]);
    if (k == 0) { vf_fail_at = -1; scenario(which); printf("%ld\n", vf_count); return 0; }
    vf_count = 0; vf_fail_at = k; scenario(which); return 0;
}
