#include <stdio.h>
#include <stdlib.h>
#include "htp/htp.h"
extern long vf_count, vf_fail_at;
static int cb(htp_tx_t *tx) { return HTP_OK; }
static void scenario(void) {
    htp_cfg_t *cfg = htp_config_create(); if (!cfg) return;
    htp_config_register_request_start(cfg, cb); htp_config_register_request_line(cfg, cb); htp_config_register_response_complete(cfg, cb);
    htp_cfg_t *copy = htp_config_copy(cfg);
    if (copy) htp_config_destroy(copy);
    htp_config_destroy(cfg);
}
int main(int argc, char **argv) { long k = atol(argv[1]); if (k == 0) { scenario(); printf("%ld\n", vf_count); return 0; } vf_count = 0; vf_fail_at = k; scenario(); return 0; }
