#include <stddef.h>
void *vf_malloc(size_t); void *vf_calloc(size_t, size_t); void *vf_realloc(void *, size_t); char *vf_strdup(const char *);
#define malloc vf_malloc
#define calloc vf_calloc
#define realloc vf_realloc
#undef strdup
#define strdup vf_strdup
