#include <stdlib.h>
#include <string.h>
long vf_count = 0, vf_fail_at = -1;
static int hit(void) { return ++vf_count == vf_fail_at; }
void *vf_malloc(size_t n) { return hit() ? NULL : malloc(n); }
void *vf_calloc(size_t a, size_t b) { return hit() ? NULL : calloc(a, b); }
void *vf_realloc(void *p, size_t n) { return hit() ? NULL : realloc(p, n); }
char *vf_strdup(const char *s) { return hit() ? NULL : strdup(s); }
