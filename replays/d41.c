/* D41 (C12, rule C12.k): HTP_PATH_HALF_FULL_RANGE is documented as "Range U+FF00 - U+FFEF detected" (htp_core.h) and that is
   what the best-fit conversion and the parameter decoder test; the validating UTF-8 pass and the %u path decoder raise it for
   U+FFF0..U+FFFF (specials) as well.  Exit 1 when the defect shows. */
#include "h.h"
static int run(const char *uri, int udecode, int bestfit, const char *what) {
    htp_cfg_t *cfg = htp_config_create();
    htp_config_set_u_encoding_decode(cfg, HTP_DECODER_URL_PATH, udecode);
    htp_config_set_utf8_convert_bestfit(cfg, HTP_DECODER_URL_PATH, bestfit);
    htp_connp_t *c = htp_connp_create(cfg); htp_connp_open(c, "1.1.1.1", 1, "2.2.2.2", 80, NULL);
    char rq[256]; int n = snprintf(rq, sizeof rq, "GET %s HTTP/1.1\r\nHost: a\r\n\r\n", uri);
    htp_connp_req_data(c, NULL, rq, n);
    htp_tx_t *tx = htp_list_get(c->conn->transactions, 0);
    int f = (tx->flags & HTP_PATH_HALF_FULL_RANGE) != 0;
    printf("%-44s -> HALF_FULL_RANGE=%d\n", what, f);
    htp_connp_destroy_all(c); htp_config_destroy(cfg);
    return f;
}
int main(void) {
    int bad = 0;
    /* U+FFFD (replacement character, EF BF BD) and U+FFF0 are outside U+FF00..U+FFEF */
    bad |= run("/a\xef\xbf\xbd", 0, 0, "U+FFFD as UTF-8, validating pass");
    bad |= run("/a\xef\xbf\xbd", 0, 1, "U+FFFD as UTF-8, best-fit pass") << 1;
    bad |= run("/a%uFFFD", 1, 0, "%uFFFD in the path") << 2;
    int c1 = run("/a\xef\xbc\x8f", 0, 0, "U+FF0F (fullwidth solidus), validating pass");
    int c2 = run("/a%uFF0F", 1, 0, "%uFF0F in the path");
    if (!c1 || !c2) { printf("control failed\n"); return 2; }
    printf(bad ? "DEFECT: the indicator is raised outside U+FF00..U+FFEF (mask %d)\n" : "ok: raised for U+FF00..U+FFEF only\n", bad);
    return bad ? 1 : 0;
}
