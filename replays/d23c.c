/* D23 (c): a 407 (or any non-2xx) answer to a CONNECT sets in_status = HTP_STREAM_DATA unless it is ERROR,
 * which revives a request direction that had reported STOP. */
#include "h.h"
static int n_after = 0, stopped = 0;
static int cb_stop(htp_tx_t *tx) { return HTP_STOP; }
static int cb_any(htp_tx_t *tx) { if (stopped) { n_after++; printf("  request callback after STOP\n"); } return HTP_OK; }
int main(void) {
    htp_cfg_t *cfg = htp_config_create();
    htp_config_register_request_headers(cfg, cb_stop);
    htp_config_register_request_complete(cfg, cb_any); htp_config_register_request_start(cfg, cb_any); htp_config_register_request_line(cfg, cb_any);
    htp_connp_t *c = htp_connp_create(cfg); htp_connp_open(c, "1.1.1.1", 1, "2.2.2.2", 80, NULL);
    const char *req = "CONNECT a:443 HTTP/1.1\r\nHost: a\r\n\r\n";
    int rc = htp_connp_req_data(c, NULL, req, strlen(req)); stopped = 1;
    printf("req_data rc=%d (6=STOP) in_status=%d\n", rc, c->in_status);
    const char *res = "HTTP/1.1 407 Auth\r\nContent-Length: 0\r\n\r\n";
    int rc2 = htp_connp_res_data(c, NULL, res, strlen(res));
    printf("res_data rc=%d, in_status now %d\n", rc2, c->in_status);
    int rc3 = htp_connp_req_data(c, NULL, "GET / HTTP/1.1\r\n\r\n", 18);
    printf("req_data after STOP rc=%d callbacks after STOP=%d\n", rc3, n_after);
    htp_connp_destroy_all(c); htp_config_destroy(cfg);
    return (n_after || rc3 != 6) ? 1 : 0;
}
