/* D21 (C10/C03): REQ_FINALIZE ignores the result of the second htp_connp_req_consolidate_data().
 * An "unexpected body" line of exactly hard_limit+1 bytes (LF included), cut anywhere, loses its LF silently
 * (the hard-limit failure is logged but the stream carries on); in one chunk all bytes are delivered. */
#include "h.h"
static long nb = 0; static int last = -1;
static int cb_req_body(htp_tx_data_t *d) { if (d->data && d->len) { nb += d->len; last = d->data[d->len - 1]; } return HTP_OK; }
static void run(int split, size_t hard) {
    nb = 0; last = -1;
    htp_cfg_t *cfg = htp_config_create(); htp_config_set_field_limits(cfg, 100, hard);
    htp_config_register_request_body_data(cfg, cb_req_body);
    htp_connp_t *c = htp_connp_create(cfg); htp_connp_open(c, "1.1.1.1", 1, "2.2.2.2", 80, NULL);
    const char *req = "GET / HTTP/1.1\r\nHost: a\r\n\r\n";
    char *junk = malloc(hard + 2); memset(junk, 'x', hard); junk[hard] = '\n';
    size_t rl = strlen(req); char *all = malloc(rl + hard + 2); memcpy(all, req, rl); memcpy(all + rl, junk, hard + 1);
    int rc1, rc2 = -1, rc3 = -1;
    if (split) { rc1 = htp_connp_req_data(c, NULL, all, rl + hard / 2); rc2 = htp_connp_req_data(c, NULL, all + rl + hard / 2, hard + 1 - hard / 2); }
    else rc1 = htp_connp_req_data(c, NULL, all, rl + hard + 1);
    printf("split=%d rc=%d,%d,%d body bytes delivered=%ld (sent %zu) last byte=0x%02x\n", split, rc1, rc2, rc3, nb, hard + 1, last);
    htp_connp_close(c, NULL); htp_connp_destroy_all(c); htp_config_destroy(cfg); free(junk);
}
int main(void) { run(0, 1000); run(1, 1000); return 0; }
