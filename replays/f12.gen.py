import zlib
open('z.bin','wb').write(zlib.compress(b'The quick brown fox jumps over it.\n', 9))
