/* Triage helper (not a check): for a few well-formed exchanges, parse the response stream whole, with every single cut and
   one byte per call, and print the cuts whose reported result differs from the uncut parse. */
#include "h.h"
static char dig[8192]; static size_t dl;
static void add(const char *f, ...) { va_list a; va_start(a, f); dl += vsnprintf(dig + dl, sizeof dig - dl, f, a); va_end(a); }
static int body(htp_tx_data_t *d) { if (d->data) add("B[%.*s]", (int)d->len, d->data); return HTP_OK; }
static void digest(htp_connp_t *c) {
    for (size_t t = 0; t < htp_list_size(c->conn->transactions); t++) {
        htp_tx_t *tx = htp_list_get(c->conn->transactions, t); if (!tx) continue;
        add("|tx%zu st=%d prog=%d flags=%llx line=[%.*s]", t, tx->response_status_number, tx->response_progress, (unsigned long long)(tx->flags & ~HTP_MULTI_PACKET_HEAD),
            tx->response_line ? (int)bstr_len(tx->response_line) : 0, tx->response_line ? (char *)bstr_ptr(tx->response_line) : "");
        for (size_t i = 0; tx->response_headers && i < htp_table_size(tx->response_headers); i++) { htp_header_t *h = htp_table_get_index(tx->response_headers, i, NULL);
            add(" {%.*s:%.*s:%llx}", (int)bstr_len(h->name), bstr_ptr(h->name), (int)bstr_len(h->value), bstr_ptr(h->value), (unsigned long long)h->flags); }
    }
}
static void parse(const char *req, const char *res, size_t cut, int bytes, char *out) {
    dl = 0; dig[0] = 0;
    htp_cfg_t *cfg = htp_config_create(); htp_config_register_response_body_data(cfg, body);
    htp_connp_t *c = htp_connp_create(cfg); htp_connp_open(c, "1.1.1.1", 1, "2.2.2.2", 80, NULL);
    htp_connp_req_data(c, NULL, req, strlen(req));
    size_t n = strlen(res);
    if (bytes) for (size_t i = 0; i < n; i++) htp_connp_res_data(c, NULL, res + i, 1);
    else if (cut) { htp_connp_res_data(c, NULL, res, cut); htp_connp_res_data(c, NULL, res + cut, n - cut); }
    else htp_connp_res_data(c, NULL, res, n);
    htp_connp_close(c, NULL);
    digest(c); strcpy(out, dig);
    htp_connp_destroy_all(c); htp_config_destroy(cfg);
}
#include <stdarg.h>
int main(void) {
    const char *rq1 = "GET /1 HTTP/1.1\r\nHost: a\r\n\r\n", *rq2 = "GET /1 HTTP/1.1\r\nHost: a\r\n\r\nGET /2 HTTP/1.1\r\nHost: a\r\n\r\n";
    struct { const char *name, *req, *res; } T[] = {
        { "folded header", rq1, "HTTP/1.1 200 OK\r\nX-A: one\r\n two\r\n\tthree\r\nContent-Length: 3\r\n\r\nabc" },
        { "chunked with extensions and trailer", rq1, "HTTP/1.1 200 OK\r\nTransfer-Encoding: chunked\r\n\r\n5;ext=abcdefgh\r\nhello\r\n6;x\r\n world\r\n0\r\nX-T: v\r\n\r\n" },
        { "pipelined", rq2, "HTTP/1.1 200 OK\r\nContent-Length: 2\r\n\r\nokHTTP/1.1 404 Not Found\r\nContent-Length: 4\r\nX-B: b\r\n\r\nnope" },
        { "close delimited", rq1, "HTTP/1.0 200 OK\r\nServer: s\r\n\r\nbody until close\r\nmore" },
        { "lf only", rq1, "HTTP/1.1 200 OK\nX-A: 1\nContent-Length: 2\n\nhi" },
    };
    int bad = 0;
    for (size_t t = 0; t < sizeof T / sizeof T[0]; t++) {
        static char ref[8192], got[8192];
        parse(T[t].req, T[t].res, 0, 0, ref);
        size_t n = strlen(T[t].res); int diffs = 0;
        for (size_t cut = 1; cut < n; cut++) { parse(T[t].req, T[t].res, cut, 0, got);
            /* body pieces differ by design: compare with the B[ ][ ] boundaries removed */
            char a[8192], b[8192]; size_t i, j; for (i = j = 0; ref[i]; i++) if (strncmp(ref + i, "]B[", 3) == 0) i += 2; else a[j++] = ref[i]; a[j] = 0;
            for (i = j = 0; got[i]; i++) if (strncmp(got + i, "]B[", 3) == 0) i += 2; else b[j++] = got[i]; b[j] = 0;
            if (strcmp(a, b)) { if (diffs++ < 3) printf("%s: cut %zu differs\n   whole: %s\n   cut:   %s\n", T[t].name, cut, a, b); } }
        parse(T[t].req, T[t].res, 0, 1, got);
        { char a[8192], b[8192]; size_t i, j; for (i = j = 0; ref[i]; i++) if (strncmp(ref + i, "]B[", 3) == 0) i += 2; else a[j++] = ref[i]; a[j] = 0;
          for (i = j = 0; got[i]; i++) if (strncmp(got + i, "]B[", 3) == 0) i += 2; else b[j++] = got[i]; b[j] = 0;
          if (strcmp(a, b)) { diffs++; printf("%s: 1-byte chunks differ\n   whole: %s\n   bytes: %s\n", T[t].name, a, b); } }
        printf("%-40s %d differing segmentations of %zu\n", T[t].name, diffs, n);
        bad += diffs;
    }
    return bad != 0;
}
