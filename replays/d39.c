/* D39 (C07): on the request side the compression-bomb ratio test compares the decompressed total with request_message_len,
   which the body states advance only AFTER the hand-over call returns (the response side advances it inside the call).
   While the first piece of a body is being decompressed the divisor is 0, so any request whose first piece inflates past the
   bomb limit (1 MiB) is refused as a bomb, whatever its ratio: the same body passes in small pieces and fails in one. */
#include "h.h"
static long got = 0;
static int cb(htp_tx_data_t *d) { if (d->data) got += d->len; return HTP_OK; }
static int logcb(htp_log_t *l) { if (strstr(l->msg, "bomb")) printf("  log: %s\n", l->msg); return HTP_OK; }
static void run(size_t piece) {
    static unsigned char body[4 << 20]; FILE *f = fopen("d39.body", "rb"); size_t n = fread(body, 1, sizeof body, f); fclose(f);
    long want = 0; f = fopen("d39.len", "r"); fscanf(f, "%ld", &want); fclose(f);
    got = 0;
    htp_cfg_t *cfg = htp_config_create();
    htp_config_set_request_decompression(cfg, 1);
    htp_config_register_request_body_data(cfg, cb);
    htp_config_register_log(cfg, logcb);
    htp_connp_t *c = htp_connp_create(cfg); htp_connp_open(c, "1.1.1.1", 1, "2.2.2.2", 80, NULL);
    char hd[256]; int hn = snprintf(hd, sizeof hd, "POST / HTTP/1.1\r\nHost: a\r\nContent-Encoding: gzip\r\nContent-Length: %zu\r\n\r\n", n);
    int rc = htp_connp_req_data(c, NULL, hd, hn);
    for (size_t off = 0; off < n && rc != HTP_STREAM_ERROR; off += piece) rc = htp_connp_req_data(c, NULL, body + off, n - off < piece ? n - off : piece);
    printf("pieces of %zu bytes (compressed %zu, ratio %.1f): last return %d, decompressed bytes delivered %ld of %ld\n", piece, n, (double) want / n, rc, got, want);
    htp_connp_destroy_all(c); htp_config_destroy(cfg);
}
int main(void) { run(65536); run(4 << 20); return 0; }
