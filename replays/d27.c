/* D27: request-complete callback returns HTP_STOP; the response then completes (first TRANSACTION_COMPLETE, and with
 * tx_auto_destroy the transaction is freed while connp->in_tx still points at it); htp_connp_close() re-enters REQ_FINALIZE
 * for the same transaction. */
#include "h.h"
static int ntxc;
static int cb_reqc(htp_tx_t *tx) { printf("  request_complete tx#%zu -> returns HTP_STOP\n", tx->index); return HTP_STOP; }
static int cb_txc(htp_tx_t *tx) { printf("  transaction_complete #%d\n", ++ntxc); return HTP_OK; }
static void run(int autod) {
    ntxc = 0;
    printf("tx_auto_destroy=%d\n", autod);
    htp_cfg_t *cfg = htp_config_create();
    htp_config_set_tx_auto_destroy(cfg, autod);
    htp_config_register_request_complete(cfg, cb_reqc);
    htp_config_register_transaction_complete(cfg, cb_txc);
    htp_connp_t *c = htp_connp_create(cfg); htp_connp_open(c, "1.1.1.1", 1, "2.2.2.2", 80, NULL);
    const char *rq = "GET / HTTP/1.1\r\nHost: a\r\n\r\n", *rs = "HTTP/1.1 200 OK\r\nContent-Length: 0\r\n\r\n";
    int rc = htp_connp_req_data(c, NULL, rq, strlen(rq)); printf("  req_data rc=%d\n", rc);
    rc = htp_connp_res_data(c, NULL, rs, strlen(rs)); printf("  res_data rc=%d\n", rc);
    htp_connp_close(c, NULL);
    printf("  => transaction_complete delivered %d time(s)\n", ntxc);
    htp_connp_destroy_all(c); htp_config_destroy(cfg);
}
int main(void) { run(0); run(1); return 0; }
