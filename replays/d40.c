/* D40 (C12, rule C12.j): a path that ENDS inside a multi-byte UTF-8 character (lead byte, continuation bytes missing) is not
   reported as invalid UTF-8 - neither by the validating pass (default) nor by the best-fit conversion, which also drops the
   bytes without a replacement.  The same bytes followed by any other byte ARE reported.  Exit 1 when the defect shows. */
#include "h.h"
static int run(const char *uri, int bestfit, const char *what) {
    htp_cfg_t *cfg = htp_config_create();
    htp_config_set_utf8_convert_bestfit(cfg, HTP_DECODER_URL_PATH, bestfit);
    htp_connp_t *c = htp_connp_create(cfg); htp_connp_open(c, "1.1.1.1", 1, "2.2.2.2", 80, NULL);
    char rq[256]; int n = snprintf(rq, sizeof rq, "GET %s HTTP/1.1\r\nHost: a\r\n\r\n", uri);
    htp_connp_req_data(c, NULL, rq, n);
    htp_tx_t *tx = htp_list_get(c->conn->transactions, 0);
    int inv = (tx->flags & HTP_PATH_UTF8_INVALID) != 0;
    printf("%-34s bestfit=%d -> path [", what, bestfit);
    for (size_t i = 0; i < bstr_len(tx->parsed_uri->path); i++) { unsigned char ch = bstr_ptr(tx->parsed_uri->path)[i]; if (ch >= 0x20 && ch < 0x7f) putchar(ch); else printf("\\x%02x", ch); }
    printf("] UTF8_INVALID=%d\n", inv);
    htp_connp_destroy_all(c); htp_config_destroy(cfg);
    return inv;
}
int main(void) {
    int bad = 0;
    for (int bf = 0; bf <= 1; bf++) {
        int a = run("/a\xc3", bf, "lead byte at end of path");
        int b = run("/a\xe2\x82", bf, "two of three bytes at end");
        int c = run("/a\xc3/", bf, "same lead byte, then '/'");
        if (!a || !b) bad = 1;
        if (!c) { printf("control failed\n"); return 2; }
    }
    printf(bad ? "DEFECT: truncated sequence at the end of the path raises no HTP_PATH_UTF8_INVALID\n" : "ok: truncated sequences are reported\n");
    return bad;
}
