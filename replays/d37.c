/* D37 (C07): the request-side decompressor never sets time_before (the response side does, before every decompress call).
   The request callback charges the time budget every 256 output blocks with htp_timer_track(&time_spent, &now, &time_before):
   with time_before = {0,0} that adds the seconds since 1970 times 1000000 to an int32 (signed overflow), and the result is
   compared with the time limit: an honest, poorly compressible request body of a few MiB is refused as a "compression bomb"
   or not, depending on the wall clock. */
#include "h.h"
#include <sys/time.h>
/* the wall clock, pinned: two different seconds, 36 minutes apart */
static long fake_sec; static long fake_usec;
int gettimeofday(struct timeval *tv, void *tz) { tv->tv_sec = fake_sec; tv->tv_usec = (fake_usec += 7) % 1000000; return 0; }
static long got = 0;
static int cb(htp_tx_data_t *d) { if (d->data) got += d->len; return HTP_OK; }
static int logcb(htp_log_t *l) { printf("  log: %s\n", l->msg); return HTP_OK; }
static int run(long sec) {
    fake_sec = sec; got = 0;
    static unsigned char body[4 << 20]; FILE *f = fopen("d37.body", "rb"); size_t n = fread(body, 1, sizeof body, f); fclose(f);
    long want = 0; f = fopen("d37.len", "r"); fscanf(f, "%ld", &want); fclose(f);
    htp_cfg_t *cfg = htp_config_create();
    htp_config_set_request_decompression(cfg, 1);
    htp_config_register_request_body_data(cfg, cb);
    htp_config_register_log(cfg, logcb);
    htp_connp_t *c = htp_connp_create(cfg); htp_connp_open(c, "1.1.1.1", 1, "2.2.2.2", 80, NULL);
    char hd[256]; int hn = snprintf(hd, sizeof hd, "POST / HTTP/1.1\r\nHost: a\r\nContent-Encoding: gzip\r\nContent-Length: %zu\r\n\r\n", n);
    int rc = htp_connp_req_data(c, NULL, hd, hn);
    for (size_t off = 0; off < n && rc != HTP_STREAM_ERROR; off += 65536) rc = htp_connp_req_data(c, NULL, body + off, n - off < 65536 ? n - off : 65536);
    htp_tx_t *tx = htp_list_get(c->conn->transactions, 0);
    printf("clock %ld: last return %d (ERROR is %d); decompressed bytes delivered %ld of %ld; request_progress %d\n", sec, rc, HTP_STREAM_ERROR, got, want, tx->request_progress);
    htp_connp_destroy_all(c); htp_config_destroy(cfg);
    return 0;
}
int main(void) { run(1790458806); run(1790458806 + 2160); return 0; }
