/* D34b (C01): like D34 but from the RESPONSE_COMPLETE / REQUEST_COMPLETE callbacks: htp_tx_destroy() accepts the transaction
   (both progress fields say COMPLETE while the callback runs) and the completion function goes on using it. */
#include "h.h"
static int cb_destroy(htp_tx_t *tx) { int rc = htp_tx_destroy(tx); printf("  callback: htp_tx_destroy -> %d\n", rc); return HTP_OK; }
int main(int argc, char **argv) {
    htp_cfg_t *cfg = htp_config_create();
    if (argc > 1 && argv[1][0] == 'q') htp_config_register_request_complete(cfg, cb_destroy); else htp_config_register_response_complete(cfg, cb_destroy);
    htp_connp_t *connp = htp_connp_create(cfg);
    htp_connp_open(connp, "1.1.1.1", 1, "2.2.2.2", 80, NULL);
    const char *rq1 = "POST / HTTP/1.1\r\nHost: a\r\nContent-Length: 4\r\n\r\nab", *rq2 = "cd";
    const char *rs = "HTTP/1.1 200 OK\r\nContent-Length: 2\r\n\r\nok";
    int a = htp_connp_req_data(connp, NULL, rq1, strlen(rq1));
    int b = 0, c = 0;
    if (argc > 1 && argv[1][0] == 'q') { b = htp_connp_res_data(connp, NULL, rs, strlen(rs)); c = htp_connp_req_data(connp, NULL, rq2, 2); }   /* response first, then the request completes */
    else { c = htp_connp_req_data(connp, NULL, rq2, 2); b = htp_connp_res_data(connp, NULL, rs, strlen(rs)); }
    printf("req %d res %d req %d\n", a, b, c);
    htp_connp_destroy_all(connp); htp_config_destroy(cfg);
    return 0;
}
