/* D24 (C03): RES_FINALIZE peeks the next line through the consolidated view and "un-reads" it by rewinding the
 * read offset, but the part of that line that was already moved into out_buf stays there. When response i and the
 * first bytes of response i+1's status line share a chunk, the status line of i+1 is parsed from duplicated bytes. */
#include "h.h"
static void run(size_t cut) {
    htp_cfg_t *cfg = htp_config_create();
    htp_connp_t *c = htp_connp_create(cfg); htp_connp_open(c, "1.1.1.1", 1, "2.2.2.2", 80, NULL);
    const char *req = "GET /1 HTTP/1.1\r\nHost: a\r\n\r\nGET /2 HTTP/1.1\r\nHost: a\r\n\r\n";
    htp_connp_req_data(c, NULL, req, strlen(req));
    const char *r1 = "HTTP/1.1 200 OK\r\nContent-Length: 2\r\n\r\nok";
    const char *r2 = "HTTP/1.1 404 Not Found\r\nContent-Length: 0\r\n\r\n";
    char all[512]; size_t l1 = strlen(r1), l2 = strlen(r2); memcpy(all, r1, l1); memcpy(all + l1, r2, l2);
    if (cut) { htp_connp_res_data(c, NULL, all, l1 + cut); htp_connp_res_data(c, NULL, all + l1 + cut, l2 - cut); }
    else htp_connp_res_data(c, NULL, all, l1 + l2);
    htp_tx_t *tx = htp_list_get(c->conn->transactions, 1);
    printf("cut=%zu: tx1 status=%d line=[%.*s] message=[%.*s]\n", cut, tx->response_status_number,
           tx->response_line ? (int)bstr_len(tx->response_line) : 0, tx->response_line ? (char *)bstr_ptr(tx->response_line) : "",
           tx->response_message ? (int)bstr_len(tx->response_message) : 0, tx->response_message ? (char *)bstr_ptr(tx->response_message) : "");
    htp_connp_destroy_all(c); htp_config_destroy(cfg);
}
static void run_bytes(void) {      /* the whole response stream one byte per call */
    htp_cfg_t *cfg = htp_config_create();
    htp_connp_t *c = htp_connp_create(cfg); htp_connp_open(c, "1.1.1.1", 1, "2.2.2.2", 80, NULL);
    const char *req = "GET /1 HTTP/1.1\r\nHost: a\r\n\r\nGET /2 HTTP/1.1\r\nHost: a\r\n\r\n";
    htp_connp_req_data(c, NULL, req, strlen(req));
    const char *all = "HTTP/1.1 200 OK\r\nContent-Length: 2\r\n\r\nokHTTP/1.1 404 Not Found\r\nContent-Length: 0\r\n\r\n";
    for (size_t i = 0; i < strlen(all); i++) htp_connp_res_data(c, NULL, all + i, 1);
    htp_tx_t *tx = htp_list_get(c->conn->transactions, 1);
    printf("1-byte chunks: tx1 status=%d line=[%.*s]\n", tx->response_status_number, tx->response_line ? (int)bstr_len(tx->response_line) : 0, tx->response_line ? (char *)bstr_ptr(tx->response_line) : "");
    htp_connp_destroy_all(c); htp_config_destroy(cfg);
}
int main(void) { run(0); for (size_t cut = 1; cut < 24; cut++) run(cut); run_bytes(); return 0; }
