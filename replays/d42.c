/* D42 (C06, rule C06.i): response_message_len must equal the number of body bytes taken from the wire - for every input.
   (a) Transfer-Encoding: chunked whose first "chunk length" line is not a number: htp_connp_RES_BODY_CHUNKED_LENGTH adds the
       line to response_message_len, rewinds the read offset and hands over to RES_BODY_IDENTITY_STREAM_CLOSE, which counts
       the same bytes again.
   (c) the same line cut by a chunk boundary: the part that was carried in the line buffer was neither delivered nor counted
       (the arm of D24 that had been recorded as a known finding) - entity_len shows what the callbacks got.
   (b) a blank line in front of a chunk-length line that straddles two calls: the -1004 arm advances the consumer position
       without clearing the carry buffer, the next consolidated line contains the blank line again and it is counted twice.
   Exit 1 when a count differs from the wire. */
#include "h.h"
static long wire_after_head(const char **pieces, int n, const char *head) { long t = 0; for (int i = 0; i < n; i++) t += strlen(pieces[i]); return t - (long)strlen(head); }
static long last_len;
static int run(const char *what, const char **pieces, int n, const char *head, long trailer) {
    htp_cfg_t *cfg = htp_config_create();
    htp_connp_t *c = htp_connp_create(cfg); htp_connp_open(c, "1.1.1.1", 1, "2.2.2.2", 80, NULL);
    const char *rq = "GET / HTTP/1.1\r\nHost: a\r\n\r\n";
    htp_connp_req_data(c, NULL, rq, strlen(rq));
    for (int i = 0; i < n; i++) htp_connp_res_data(c, NULL, pieces[i], strlen(pieces[i]));
    htp_connp_close(c, NULL);
    htp_tx_t *tx = htp_list_get(c->conn->transactions, 0);
    long wire = wire_after_head(pieces, n, head) - trailer;   /* the empty line that ends the (empty) trailer section is not body */
    printf("%-44s wire body bytes=%ld response_message_len=%lld entity_len=%lld\n", what, wire, (long long)tx->response_message_len, (long long)tx->response_entity_len);
    int bad = tx->response_message_len != wire || (trailer == 0 && tx->response_entity_len != wire); last_len = tx->response_message_len;
    htp_connp_destroy_all(c); htp_config_destroy(cfg);
    return bad;
}
int main(void) {
    const char *head = "HTTP/1.1 200 OK\r\nTransfer-Encoding: chunked\r\n\r\n";
    const char *a[] = { "HTTP/1.1 200 OK\r\nTransfer-Encoding: chunked\r\n\r\nhello world, this is not chunked\r\n" };
    const char *b[] = { "HTTP/1.1 200 OK\r\nTransfer-Encoding: chunked\r\n\r\n5\r\nhello\r\n\r", "\n5\r\nworld\r\n0\r\n\r\n" };
    const char *c3[] = { "HTTP/1.1 200 OK\r\nTransfer-Encoding: chunked\r\n\r\n \t", "zz is not a chunk length\r\n" };
    const char *ctl[] = { "HTTP/1.1 200 OK\r\nTransfer-Encoding: chunked\r\n\r\n5\r\nhello\r\n\r\n5\r\nworld\r\n0\r\n\r\n" };
    int bad = 0;
    bad |= run("(a) chunk length line is not a number", a, 1, head, 0);
    bad |= run("(b) blank line cut between CR and LF", b, 2, head, 2) << 1;
    bad |= run("(c) as (a), the line cut in the middle", c3, 2, head, 0) << 2;   /* D24, invalid-length arm: the carried part was never delivered */
    if (run("control: same as (b) in one piece", ctl, 1, head, 2)) { printf("control failed\n"); return 2; }
    printf(bad ? "DEFECT: wire bytes counted twice (mask %d)\n" : "ok\n", bad);
    return bad ? 1 : 0;
}
