// D4: multipart CR carried across chunk boundary
#include <stdio.h>
#include <string.h>
#include "htp/htp.h"
#include "htp/htp_private.h"
static void run(const char **chunks, int n) {
    htp_cfg_t *cfg = htp_config_create();
    bstr *b = bstr_dup_c("BBB");
    htp_mpartp_t *p = htp_mpartp_create(cfg, b, 0);
    for (int i = 0; i < n; i++) htp_mpartp_parse(p, chunks[i], strlen(chunks[i]));
    htp_mpartp_finalize(p);
    htp_multipart_t *m = htp_mpartp_get_multipart(p);
    for (size_t i = 0; i < htp_list_size(m->parts); i++) {
        htp_multipart_part_t *part = htp_list_get(m->parts, i);
        printf(" part %zu type %d value:", i, part->type);
        if (part->value) for (size_t k = 0; k < bstr_len(part->value); k++) printf(" %02x", bstr_ptr(part->value)[k]);
        printf("\n");
    }
    htp_mpartp_destroy(p); htp_config_destroy(cfg);
}
int main(void) {
    const char *whole[] = {"--BBB\r\nContent-Disposition: form-data; name=\"a\"\r\n\r\nab\r\rcd\r\n--BBB--\r\n"};
    const char *split[] = {"--BBB\r\nContent-Disposition: form-data; name=\"a\"\r\n\r\nab\r", "\rcd\r\n--BBB--\r\n"};
    const char *split2[] = {"--BBB\r\nContent-Disposition: form-data; name=\"a\"\r\n\r\nab\r", "\r\n--BBB--\r\n"};
    const char *whole2[] = {"--BBB\r\nContent-Disposition: form-data; name=\"a\"\r\n\r\nab\r\r\n--BBB--\r\n"};
    puts("whole:"); run(whole, 1); puts("split after first CR:"); run(split, 2);
    puts("whole2:"); run(whole2, 1); puts("split2:"); run(split2, 2);
    return 0;
}
