/* D28 (C03 / C14): a multipart part-header line that arrives in two pieces keeps its CRLF.
 * Same body, two chunkings: whole, and cut inside the Content-Disposition line / the Content-Type line. */
#include "h.h"
static void run(const char *title, const char *body, size_t cut) {
    htp_cfg_t *cfg = htp_config_create();
    htp_mpartp_t *p = htp_mpartp_create(cfg, bstr_dup_c("BBB"), 0);
    size_t n = strlen(body);
    if (cut == 0 || cut >= n) htp_mpartp_parse(p, body, n);
    else { htp_mpartp_parse(p, body, cut); htp_mpartp_parse(p, body + cut, n - cut); }
    htp_mpartp_finalize(p);
    htp_multipart_t *m = htp_mpartp_get_multipart(p);
    printf("%-34s flags=0x%llx parts=%zu\n", title, (unsigned long long) m->flags, htp_list_size(m->parts));
    for (size_t i = 0; i < htp_list_size(m->parts); i++) {
        htp_multipart_part_t *part = htp_list_get(m->parts, i);
        printf("    part %zu type=%d name=", i, part->type);
        if (part->name) fwrite(bstr_ptr(part->name), 1, bstr_len(part->name), stdout); else printf("(null)");
        printf(" content_type=[");
        if (part->content_type) for (size_t k = 0; k < bstr_len(part->content_type); k++) { unsigned char c = bstr_ptr(part->content_type)[k]; if (c < 32) printf("\\x%02x", c); else putchar(c); }
        printf("] headers=%zu\n", htp_table_size(part->headers));
    }
    htp_mpartp_destroy(p); htp_config_destroy(cfg);
}
int main(void) {
    const char *body = "--BBB\r\nContent-Disposition: form-data; name=\"a\"\r\nContent-Type: text/plain\r\n\r\nvalue\r\n--BBB--\r\n";
    run("whole", body, 0);
    run("cut inside Content-Disposition line", body, 20);
    run("cut inside Content-Type line", body, 65);
    return 0;
}
