# 2-layer gzip bomb: 64 MiB of zeros, gzipped twice
import gzip, io
inner = gzip.compress(b'\0' * (64 << 20), 9)
open('bomb.bin', 'wb').write(gzip.compress(inner, 9))
