#include "h.h"
static long n=0; static unsigned char got[128];
static int cbb(htp_tx_data_t *d) { if (d->data) for (size_t i=0;i<d->len && n<120;i++) got[n++]=d->data[i]; return HTP_OK; }
static void run(size_t step) {
    FILE *f=fopen("z.bin","rb"); unsigned char buf[256]; size_t len=fread(buf,1,sizeof buf,f); fclose(f);
    n=0; htp_cfg_t *cfg = htp_config_create(); htp_config_register_response_body_data(cfg, cbb); htp_connp_t *c = htp_connp_create(cfg);
    htp_connp_open(c, "1.1.1.1", 1, "2.2.2.2", 80, NULL);
    const char *req = "GET / HTTP/1.1\r\nHost: a\r\n\r\n"; htp_connp_req_data(c, NULL, req, strlen(req));
    char hdr[200]; snprintf(hdr,sizeof hdr,"HTTP/1.1 200 OK\r\nContent-Encoding: deflate\r\nContent-Length: %zu\r\n\r\n",len); htp_connp_res_data(c, NULL, hdr, strlen(hdr));
    for (size_t i=0;i<len;i+=step) htp_connp_res_data(c, NULL, buf+i, i+step<=len?step:len-i);
    htp_connp_close(c, NULL);
    printf("  step=%zu delivered %ld bytes: %.*s\n", step, n, (int)n, got);
    htp_connp_destroy_all(c); htp_config_destroy(cfg);
}
int main(void) { run(1000); run(1); run(3); return 0; }
