"""A4: nullness of may-fail results (DESIGN.md §2.2). Forward scan per tracked value over the CFG facts with
interprocedural summaries "may return NULL" and "dereferences parameter i before testing it"."""
import collections
from .facts import S, strip, nodes, walk, is_lit, AnalysisBroken
from . import pat as P

RAW = {'malloc', 'calloc', 'realloc', 'strdup'}
LIBC_DEREF = {'memcpy': (0, 1), 'memmove': (0, 1), 'memset': (0,), 'strlen': (0,), 'strcpy': (0, 1), 'strncpy': (0, 1), 'strcat': (0, 1), 'strncat': (0, 1),
              'crc32': (1,), 'inflate': (), 'memchr': (0,), 'memcmp': (0, 1), 'strcmp': (0, 1), 'strncmp': (0, 1), 'strchr': (0,), 'strlcpy': (0, 1), 'strlcat': (0, 1)}
FREEISH = lambda n: n in ('free', 'bstr_free') or n.endswith('_destroy') or n.endswith('_free') or n.endswith('_destroy_ex') or n.endswith('_release')


def local_defs(fn):
    defs = collections.defaultdict(list)
    for b, i, st in fn.stmts():
        for x in nodes(st, lambda y: y.get('k') in ('assign', 'decl')):
            if x['k'] == 'assign' and x['op'] == '=' and strip(x['l']).get('k') == 'var':
                defs[strip(x['l'])['name']].append(x['r'])
            elif x['k'] == 'decl':
                for v in x['vars']:
                    if 'init' in v:
                        defs[v['name']].append(v['init'])
    return defs


class Nullness:
    def __init__(self, db):
        self.db = db
        self.mayfail = set(RAW)
        self._defs = {}
        self._mayfail_fixpoint()
        self.unsafe = set()
        self._unsafe_fixpoint()

    def defs(self, fn):
        if fn.name not in self._defs:
            self._defs[fn.name] = local_defs(fn)
        return self._defs[fn.name]

    def from_alloc(self, e, fn, d=0):
        e = strip(e)
        if e is None:
            return False
        k = e.get('k')
        if k == 'call' and e.get('callee') in self.mayfail:
            return True
        if k == 'var' and d < 3 and e.get('decl') in ('local',):
            return any(self.from_alloc(x, fn, d + 1) for x in self.defs(fn).get(e['name'], []))
        if k == 'cond':
            return self.from_alloc(e['a'], fn, d) or self.from_alloc(e['b'], fn, d)
        return False

    def _mayfail_fixpoint(self):
        ch = True
        while ch:
            ch = False
            for n, f in self.db.fn.items():
                if f.name in self.mayfail or '*' not in f.ret or not f.blocks:
                    continue
                for b, i, st in f.returns():
                    if st.get('e') is not None and self.from_alloc(st['e'], f):
                        self.mayfail.add(f.name)
                        ch = True
                        break
        # functions that hand their (reallocated) argument back are may-fail too but return the argument on success: kept

    # ---- per-statement predicates
    @staticmethod
    def derefs(st, V):
        for x in nodes(st):
            k = x['k']
            if k == 'member' and x.get('arrow') and P.K(x['base']) == V:
                return x
            if k == 'un' and x['op'] == '*' and P.K(x['e']) == V:
                return x
            if k == 'index' and P.K(x['base']) == V:
                return x
            # handing the pointer to zlib: inflate() writes through next_out / reads through next_in
            if k == 'assign' and x['op'] == '=' and P.member_field(x['l']) in ('next_out', 'next_in') and P.K(x['r']) == V:
                return x
        return None

    def passes_unsafe(self, st, V):
        for c in nodes(st, lambda y: y.get('k') == 'call' and y.get('callee')):
            for i, a in enumerate(c['args']):
                if P.K(a) == V:
                    if (c['callee'], i) in self.unsafe:
                        return (c['callee'], i, c)
                    if c['callee'] in LIBC_DEREF and i in LIBC_DEREF[c['callee']]:
                        return (c['callee'], i, c)
        return None

    @staticmethod
    def reassigns(st, V):
        for x in nodes(st, lambda y: y.get('k') in ('assign', 'decl')):
            if x['k'] == 'assign' and P.K(x['l']) == V:
                return True
            if x['k'] == 'decl' and any(v['name'] == V for v in x['vars']):
                return True
        return False

    @staticmethod
    def releases(st, V):
        for c in nodes(st, lambda y: y.get('k') == 'call' and y.get('callee') and FREEISH(y['callee'])):
            if c['args'] and P.K(c['args'][0]) == V:
                return True
        return False

    @staticmethod
    def null_test(cond, V):
        """'T' if V is non-NULL on the true edge, 'F' if non-NULL on the false edge, None if the branch says nothing"""
        a = P.canon(cond, True)
        if a and a[0] == V and a[2] == '0':
            return 'T' if a[1] == '!=' else 'F' if a[1] == '==' else None
        return None

    def scan(self, fn, start, V, follow_copies=2, on_return=None):
        """forward from just after start=(bid, idx). Returns list of (kind, node, extra) violations:
        ('deref', node) / ('arg', call, (callee, i)). Tracking stops at a NULL test (on the non-NULL edge),
        reassignment, release or return. on_return(bid, idx, stmt, isnull) is called for returns reached with V
        still untested."""
        out = []
        seen = set()
        work = [(start[0], start[1], False)]
        while work:
            bid, i0, isnull = work.pop()
            if (bid, i0, isnull) in seen:
                continue
            seen.add((bid, i0, isnull))
            b = fn.blocks[bid]
            stmts = b['stmts']
            two = fn.cond_of(bid) is not None
            stop = False
            for i in range(i0 + 1, len(stmts)):
                st = stmts[i]
                last = two and i == len(stmts) - 1
                d = self.derefs(st, V)
                if last and self.null_test(st, V) and d is not None:
                    # `if (x == NULL)` does not dereference x; but `if (x->f == NULL)` does (K differs) - keep d only when the test is on V itself
                    d = None
                if d is not None:
                    out.append(('deref', d, None))
                    stop = True
                    break
                u = self.passes_unsafe(st, V)
                if u is not None:
                    out.append(('arg', u[2], (u[0], u[1])))
                    stop = True
                    break
                if self.releases(st, V):
                    stop = True
                    break
                if follow_copies:
                    for x in nodes(st, lambda y: y.get('k') == 'assign' and y['op'] == '=' and P.K(y['r']) == V and P.K(y['l']) != V):
                        out += self.scan(fn, (bid, i), P.K(x['l']), follow_copies - 1)
                if self.reassigns(st, V):
                    stop = True
                    break
                if st.get('k') == 'return':
                    if on_return:
                        on_return(bid, i, st, isnull)
                    stop = True
                    break
            if stop:
                continue
            if bid == fn.exit and on_return:
                on_return(bid, None, None, isnull)
            succs = b['succs']
            if two and stmts:
                t = self.null_test(stmts[-1], V)
                for j, s in enumerate(succs):
                    if s is None:
                        continue
                    if (t == 'T' and j == 0) or (t == 'F' and j == 1):
                        continue                       # non-NULL established: obligation discharged on this edge
                    work.append((s, -1, isnull or t is not None))
            else:
                for s in succs:
                    if s is not None:
                        work.append((s, -1, isnull))
        return out

    def _unsafe_fixpoint(self):
        ch = True
        it = 0
        while ch and it < 8:
            ch = False
            it += 1
            for n, f in self.db.fn.items():
                if not f.blocks:
                    continue
                for i, p in enumerate(f.params):
                    if '*' not in p['t'] or (f.name, i) in self.unsafe:
                        continue
                    if self.scan(f, (f.entry, -1), p['name'], follow_copies=0):
                        self.unsafe.add((f.name, i))
                        ch = True

    def tracked_sites(self, fn, callee_set=None):
        """(bid, idx, l-value key, call node, l-value expr) for every statement storing the result of a may-fail call"""
        cs = callee_set or self.mayfail
        out = []
        for b, i, st in fn.stmts():
            for x in nodes(st, lambda y: y.get('k') in ('assign', 'decl')):
                if x['k'] == 'assign' and x['op'] == '=':
                    r = strip(x['r'])
                    if r is not None and r.get('k') == 'call' and r.get('callee') in cs:
                        out.append((b, i, P.K(x['l']), r, strip(x['l'])))
                elif x['k'] == 'decl':
                    for v in x['vars']:
                        r = strip(v.get('init'))
                        if r is not None and r.get('k') == 'call' and r.get('callee') in cs:
                            out.append((b, i, v['name'], r, {'k': 'var', 'name': v['name'], 'decl': 'local'}))
        return out

    def unguarded_field_uses(self):
        """(rec, field) -> [(function, node)] : dereferences of X->field (X a parameter or local) with no NULL test of X->field on the way"""
        res = collections.defaultdict(list)
        for n, f in self.db.fn.items():
            if not f.blocks:
                continue
            paths = {}
            for b, i, st in f.stmts():
                for m in nodes(st, lambda y: y.get('k') == 'member' and '*' in (y.get('t') or '')):
                    paths[P.K(m)] = (m.get('rec'), m['field'])
            for V, (rec, fld) in paths.items():
                for kind, node, extra in self.scan(f, (f.entry, -1), V, follow_copies=0):
                    res[(rec, fld)].append((f.name, node))
        return res
