"""Verdicts, known findings, evidence files, exit codes (DESIGN.md §2.3)."""
import re, json, os, sys, time
from .facts import VERIF, AnalysisBroken

HOLDS, VIOLATED, UNKNOWN, INFO = 'HOLDS', 'VIOLATED', 'UNKNOWN', 'INFO'


class Result:
    """collects rule instances ('obligations') for one property"""

    def __init__(self, pid):
        self.pid = pid
        self.broken = []
        self.obs = []
        self.assumptions = []
        self.notes = []
        self.analysed = {}
        self.rules = {}
        self.imported = {}          # rule id -> (owning property, why it is a necessary condition of this one), sa/imports.py

    def import_from(self, other, rules, src, why):
        """take over the obligations of `rules` from the result of their owner `src` (same rule ids and instance keys)"""
        for r in rules:
            if r not in other.rules:
                self.broken.append('%s: imported rule %s no longer exists in the module of %s' % (self.pid, r, src))
                continue
            self.rules[r] = '(shared with %s) %s' % (src, other.rules[r])
            self.imported[r] = (src, why)
        n = 0
        for o in other.obs:
            if o['rule'] in rules:
                self.obs.append(dict(o))
                n += 1
        self.analysed['imported from %s (%s)' % (src, ', '.join(rules))] = n
        for m in other.broken:
            if any(('%s %s:' % (src, r)) in m for r in rules):
                self.broken.append(m)

    def rule(self, rid, text):
        self.rules[rid] = text

    def add(self, rule, key, status, msg, loc='', **detail):
        """key: semantic, line-number free instance identifier (used by known_findings.json)"""
        for o in self.obs:
            if o['rule'] == rule and o['key'] == key and o['status'] == status:
                o['detail'].setdefault('also_at', []).append(loc)
                return
        self.obs.append(dict(rule=rule, key=key, status=status, msg=msg, loc=loc, detail=detail))

    def holds(self, rule, key, msg, loc='', **d):
        self.add(rule, key, HOLDS, msg, loc, **d)

    def violated(self, rule, key, msg, loc='', **d):
        self.add(rule, key, VIOLATED, msg, loc, **d)

    def unknown(self, rule, key, msg, loc='', **d):
        self.add(rule, key, UNKNOWN, msg, loc, **d)

    def info(self, rule, key, msg, loc='', **d):
        self.add(rule, key, INFO, msg, loc, **d)

    def check(self, cond, rule, key, msg_ok, msg_bad, loc='', **d):
        if cond:
            self.holds(rule, key, msg_ok, loc, **d)
        else:
            self.violated(rule, key, msg_bad, loc, **d)
        return cond

    def floor(self, rule, what, count, minimum):
        """a rule that matches fewer instances than confirmed by hand is broken, never a pass"""
        self.analysed['%s: %s' % (rule, what)] = count
        if count < minimum:
            # deferred: a change that removes an anchor is often reported by a neighbouring rule of the same check, and a
            # VIOLATION is the more useful verdict; with no violation the run still ends as ANALYSIS-BROKEN (exit 2), never as a pass
            self.broken.append('%s %s: %s matched %d instance(s), floor is %d' % (self.pid, rule, what, count, minimum))
            return False
        return True

    def count(self, status, rule=None):
        return sum(1 for o in self.obs if o['status'] == status and (rule is None or o['rule'] == rule))


def load_known():
    p = os.path.join(VERIF, 'known_findings.json')
    if not os.path.exists(p):
        return []
    return json.load(open(p)).get('findings', [])


def basekey(key):
    """instance key without the preprocessor-configuration tag the thorough tier prefixes (`[HTP_DEBUG] ...`):
    a finding is identified by the construct, whichever configuration it is seen in"""
    return re.sub(r'^\[[A-Za-z0-9_,]+\] ', '', key)


def finish(res, tier, seed, t0, level='other', technique='', extra=None, checker_cmd=''):
    """print the report, write evidence, return the exit code"""
    known = [k for k in load_known() if k.get('status', 'known') == 'known' and
             (k['property'] == res.pid or (k['rule'] in res.imported and res.imported[k['rule']][0] == k['property']))]
    viol = [o for o in res.obs if o['status'] == VIOLATED]
    new, matched = [], []
    for o in viol:
        k = next((k for k in known if k['rule'] == o['rule'] and k['key'] == basekey(o['key'])), None)
        (matched if k else new).append((o, k))
    os.makedirs(os.path.join(VERIF, 'work', 'replay'), exist_ok=True)
    os.makedirs(os.path.join(VERIF, 'evidence'), exist_ok=True)
    print('== %s  tier=%s  rules=%d  obligations=%d  holds=%d  violated=%d  unknown=%d' % (
        res.pid, tier, len(res.rules), sum(1 for o in res.obs if o['status'] != INFO), res.count(HOLDS), len(viol), res.count(UNKNOWN)))
    for r, t in res.rules.items():
        print('   rule %-8s holds=%-4d violated=%-3d unknown=%-3d  %s' % (r, res.count(HOLDS, r), res.count(VIOLATED, r), res.count(UNKNOWN, r), t))
    for k, v in res.analysed.items():
        print('   analysed %s = %s' % (k, v))
    printed = set()
    for o, k in matched:
        if (o['rule'], basekey(o['key'])) in printed:
            continue
        printed.add((o['rule'], basekey(o['key'])))
        print('KNOWN-FINDING: property=%s %s [%s %s] %s' % (res.pid, k.get('what', o['msg']), o['rule'], o['key'], o['loc']))
    n = 0
    for o, _ in new:
        n += 1
        path = os.path.join(VERIF, 'work', 'replay', '%s-%d.json' % (res.pid, n))
        json.dump(dict(property=res.pid, **o), open(path, 'w'), indent=1)
        print('   %s %s: %s  at %s' % (o['rule'], o['key'], o['msg'], o['loc']))
        print('VIOLATION property=%s replay=%s' % (res.pid, path))
    stale = [k for k in known if not any(k['rule'] == o['rule'] and k['key'] == basekey(o['key']) for o in viol)]
    for k in stale:
        print('   note: known finding no longer reproduced on this tree: %s %s' % (k['rule'], k['key']))
    obligations = sum(1 for o in res.obs if o['status'] in (HOLDS, VIOLATED, UNKNOWN))
    discharged = res.count(HOLDS)
    samples = []
    seen_rules = set()
    for o in res.obs:
        if o['status'] != INFO and o['rule'] not in seen_rules:
            seen_rules.add(o['rule'])
            samples.append(dict(rule=o['rule'], instance=o['key'], status=o['status'], at=o['loc'], what=o['msg']))
    for o in viol[:20]:
        samples.append(dict(rule=o['rule'], instance=o['key'], status='VIOLATED' + ('(known finding)' if any(o is m[0] for m in matched) else ''), at=o['loc'], what=o['msg']))
    unknowns = [dict(rule=o['rule'], instance=o['key'], at=o['loc'], what=o['msg']) for o in res.obs if o['status'] == UNKNOWN]
    infos = [dict(rule=o['rule'], instance=o['key'], at=o['loc'], what=o['msg']) for o in res.obs if o['status'] == INFO]
    cov = dict(
        explanation='Static rule checking over the type-checked AST and clang CFG of every unit of the real build '
                    '(facts re-extracted from the working tree on this run). ' + ' '.join('[%s] %s' % kv for kv in res.rules.items()),
        rule='one obligation per rule instance (site/path/table row) discovered in the code; distinct = distinct (rule, instance key); '
             'non-trivial = the instance was matched in the code and evaluated (HOLDS/VIOLATED/UNKNOWN), INFO lines are not counted',
        obligations=obligations, discharged=discharged,
        evaluations=obligations,
        distinct_nontrivial=len({(o['rule'], o['key']) for o in res.obs if o['status'] != INFO}),
        unknown=res.count(UNKNOWN), violated_known=len(matched), violated_new=len(new),
        analysed=res.analysed, samples=samples,
        obligation_list=[dict(rule=o['rule'], instance=o['key'], status=o['status'], at=o['loc']) for o in res.obs if o['status'] != INFO], unknown_sites=unknowns[:200], reported_not_alarmed=infos[:200],
        per_rule={r: dict(text=t, holds=res.count(HOLDS, r), violated=res.count(VIOLATED, r), unknown=res.count(UNKNOWN, r)) for r, t in res.rules.items()},
        checker_cmd=checker_cmd or './check %s --tier %s' % (res.pid, tier),
        trusted_base=['clang 14 front end and clang::CFG', 'tools/htpfacts.cc serialisation', 'sa/*.py rule engines'],
        technique=technique, exhaustive=True,
        imported={r_: dict(owner=s_, necessary_because=w_, obligations=sum(1 for o in res.obs if o['rule'] == r_ and o['status'] != INFO),
                           holds=res.count(HOLDS, r_)) for r_, (s_, w_) in res.imported.items()},
    )
    if extra:
        cov.update(extra)
    ev = dict(property_id=res.pid, tier=tier, seed=seed, level=level, coverage=cov,
              assumptions=res.assumptions, wall_s=round(time.time() - t0, 3), violations=len(new),
              known_findings=[dict(rule=o['rule'], key=o['key'], what=k.get('what', '')) for o, k in matched], notes=res.notes)
    for m in res.broken:
        print(('   note (analysis incomplete): ' if new else 'ANALYSIS-BROKEN property=%s: ' % res.pid) + m)
    if res.broken and not new:
        return 2                             # no evidence is written for a broken analysis
    if os.environ.get('VERIF_NO_EVIDENCE'):
        return 1 if new else 0
    tmp = os.path.join(VERIF, 'evidence', res.pid + '.json.tmp')
    json.dump(ev, open(tmp, 'w'), indent=1, sort_keys=True)
    os.replace(tmp, os.path.join(VERIF, 'evidence', res.pid + '.json'))
    return 1 if new else 0
