"""Fact database: runs the extractor over the compilation database derived from the
repository's own Makefile.am files and loads the per-unit JSON (DESIGN.md §2.1)."""
import collections, hashlib, json, os, re, subprocess, sys, time
from concurrent.futures import ThreadPoolExecutor

VERIF = os.path.dirname(os.path.dirname(os.path.abspath(__file__)))
HTPFACTS = os.path.join(VERIF, 'work', 'bin', 'htpfacts')


class AnalysisBroken(Exception):
    """exit 2: the analysis itself cannot run / an anchor vanished / floor not met"""


def _am_sources(path):
    txt = open(path).read().replace('\\\n', ' ')
    m = re.search(r'^c_sources\s*=\s*(.*)$', txt, re.M)
    if not m:
        raise AnalysisBroken('no c_sources in ' + path)
    return m.group(1).split()


def compile_db(repo, defines=()):
    """(unit name, source path, flags) for every unit of the real build."""
    units = []
    htp = os.path.join(repo, 'htp')
    flags = ['-DHAVE_CONFIG_H', '-I' + repo, '-I' + htp, '-I' + os.path.join(VERIF, 'tools', 'fallback_include'),
             '-D_GNU_SOURCE', '-std=gnu99', '-w'] + ['-D' + d for d in defines]
    for s in _am_sources(os.path.join(htp, 'Makefile.am')):
        units.append((s[:-2], os.path.join(htp, s), flags))
    for s in _am_sources(os.path.join(htp, 'lzma', 'Makefile.am')):
        units.append(('lzma_' + s[:-2], os.path.join(htp, 'lzma', s), flags))
    listed = {os.path.realpath(u[1]) for u in units}
    for d in (htp, os.path.join(htp, 'lzma')):
        for fn in sorted(os.listdir(d)):
            if fn.endswith('.c') and os.path.realpath(os.path.join(d, fn)) not in listed:
                raise AnalysisBroken('source file %s is not in the compilation database (Makefile.am c_sources)' % os.path.join(d, fn))
    for u in units:
        if not os.path.exists(u[1]):
            raise AnalysisBroken('listed source missing: ' + u[1])
    return units


def ensure_extractor():
    if not os.path.exists(HTPFACTS) or os.path.getmtime(os.path.join(VERIF, 'tools', 'htpfacts.cc')) > os.path.getmtime(HTPFACTS):
        r = subprocess.run([os.path.join(VERIF, 'setup.sh')], capture_output=True, text=True)
        if r.returncode != 0:
            raise AnalysisBroken('cannot build extractor: ' + r.stderr[-2000:])


def extract(repo='/repo', defines=(), jobs=16):
    """Run the extractor on every unit; returns {unit: parsed json}. Always re-reads the working tree."""
    ensure_extractor()
    units = compile_db(repo, defines)
    env = dict(os.environ, HTPFACTS_ROOT=repo)

    def one(u):
        name, src, flags = u
        r = subprocess.run([HTPFACTS, src, '--'] + flags, capture_output=True, text=True, env=env)
        if r.returncode != 0 or not r.stdout.strip():
            raise AnalysisBroken('extractor failed on %s:\n%s' % (src, r.stderr[-3000:]))
        if 'error:' in r.stderr:
            raise AnalysisBroken('unit does not parse: %s\n%s' % (src, r.stderr[-3000:]))
        return name, json.loads(r.stdout)
    with ThreadPoolExecutor(max_workers=jobs) as ex:
        return dict(ex.map(one, units))


# ---------------------------------------------------------------- expression helpers

def strip(e):
    while e is not None and isinstance(e, dict) and e.get('k') == 'cast':
        e = e['e']
    return e


def S(e):
    """printable form of an expression tree; also used as the access-path key"""
    if e is None:
        return '∅'
    k = e.get('k')
    if k == 'lit':
        return e.get('name') or str(e['v'])
    if k == 'str':
        return json.dumps(e['v'])
    if k in ('var', 'fn', 'ref'):
        return e['name']
    if k == 'member':
        return S(e['base']) + ('->' if e['arrow'] else '.') + e['field']
    if k == 'index':
        return S(e['base']) + '[' + S(e['idx']) + ']'
    if k == 'un':
        op = e['op']
        return (S(e['e']) + op[:-4]) if op.endswith('post') else op + S(e['e'])
    if k in ('bin', 'assign'):
        return '(' + S(e['l']) + ' ' + e['op'] + ' ' + S(e['r']) + ')'
    if k == 'call':
        return (e.get('callee') or '(' + S(e['fnexpr']) + ')') + '(' + ', '.join(S(a) for a in e['args']) + ')'
    if k == 'cast':
        return S(e['e'])
    if k == 'cond':
        return '(' + S(e['c']) + ' ? ' + S(e['a']) + ' : ' + S(e['b']) + ')'
    if k == 'decl':
        return '; '.join(v['name'] + (' = ' + S(v['init']) if 'init' in v else '') for v in e['vars'])
    if k == 'return':
        return 'return ' + (S(e.get('e')) if e.get('e') is not None else '')
    if k == 'sizeof':
        return 'sizeof'
    if k == 'initlist':
        return '{' + ', '.join(S(c) for c in e.get('e', [])) + '}'
    return str(k) + '{' + ','.join(S(c) for c in e.get('ch', [])) + '}'


_SKIP = ('loc', 'macro', 't')


def walk(e, f, parent=None):
    """pre-order walk over every dict node of an expression tree"""
    if isinstance(e, dict):
        f(e, parent)
        for k, v in e.items():
            if k in _SKIP:
                continue
            if isinstance(v, (dict, list)):
                walk(v, f, e)
    elif isinstance(e, list):
        for v in e:
            walk(v, f, parent)


def nodes(e, pred=None):
    out = []
    walk(e, lambda x, p: out.append(x) if ('k' in x and (pred is None or pred(x))) else None)
    return out


def is_lit(e, v=None):
    e = strip(e)
    return e is not None and e.get('k') == 'lit' and (v is None or e['v'] == v)


def lit_name(e):
    e = strip(e)
    return e.get('name') if e is not None and e.get('k') == 'lit' else None


def is_null(e):
    return is_lit(e, 0)


def call_name(e):
    e = strip(e)
    return e.get('callee') if e is not None and e.get('k') == 'call' else None


def root_of(e):
    """the variable (or other base) an l-value hangs off"""
    e = strip(e)
    while e is not None and (e.get('k') in ('member', 'index') or (e.get('k') == 'un' and e['op'] in ('*', '&'))):
        e = strip(e['base'] if e.get('k') in ('member', 'index') else e['e'])
    return e


class Fn:
    def __init__(self, unit, d):
        self.unit = unit
        self.d = d
        self.name = d['name']
        self.loc = d['loc']
        self.end = d.get('end')
        self.params = d['params']
        self.ret = d['ret']
        self.static = d['static']
        self.blocks = {b['id']: b for b in (d.get('blocks') or [])}
        self.entry = d.get('entry')
        self.exit = d.get('exit')
        self._preds = None

    @property
    def file(self):
        return self.loc.rsplit(':', 2)[0]

    @property
    def preds(self):
        if self._preds is None:
            p = collections.defaultdict(list)
            for a, b in self.blocks.items():
                for s in b['succs']:
                    if s is not None:
                        p[s].append(a)
            self._preds = p
        return self._preds

    def stmts(self):
        """(block id, index, root statement)"""
        for bid, b in self.blocks.items():
            for i, st in enumerate(b['stmts']):
                yield bid, i, st

    def find(self, pred):
        """(block id, stmt index, node) for all nodes anywhere in root statements satisfying pred"""
        for bid, i, st in self.stmts():
            for x in nodes(st, pred):
                yield bid, i, x

    def calls(self, name=None):
        return [(bid, i, x) for bid, i, x in self.find(lambda x: x.get('k') == 'call' and (name is None or x.get('callee') == name))]

    def cond_of(self, bid):
        """branch condition of a two-way block (its last root statement), with successors (true, false)"""
        b = self.blocks[bid]
        if 'term' in b and len(b['succs']) == 2 and b['stmts'] and b['term'].get('cond') is not None and b['term']['kind'] != 'SwitchStmt':
            return b['stmts'][-1], b['succs'][0], b['succs'][1]
        return None

    def returns(self):
        """(block id, idx, return stmt)"""
        return [(bid, i, st) for bid, i, st in self.stmts() if st.get('k') == 'return']

    def param_index(self, name):
        for i, p in enumerate(self.params):
            if p['name'] == name:
                return i
        return None


class DB:
    def __init__(self, units, repo='/repo'):
        self.repo = repo
        self.units = units
        self.fn = {}
        self.records = {}
        self.enums = {}
        self.enumerators = {}
        self.globals = []
        dup = collections.Counter()
        for u, d in units.items():
            for f in d['functions']:
                fn = Fn(u, f)
                if fn.name in self.fn:
                    dup[fn.name] += 1
                    # static functions of the same name in two units: keep both, second under unit-qualified name
                    self.fn[u + '::' + fn.name] = fn
                else:
                    self.fn[fn.name] = fn
            for r in d['records']:
                if r['name']:
                    self.records[r['name']] = r
            for e in d.get('enums', []):
                nm = e.get('name') or e.get('typedef') or ''
                self.enums[nm] = e
                for en in e['enumerators']:
                    self.enumerators[en['name']] = en['v']
            for g in d['globals']:
                self.globals.append((u, g))
        self.duplicates = dup
        self._slots = None
        self._cg = None

    def n_functions(self):
        return len(self.fn)

    def get(self, name):
        f = self.fn.get(name)
        if f is None:
            raise AnalysisBroken('anchor function vanished: ' + name)
        return f

    def src_line(self, loc):
        try:
            path, line, _ = loc.rsplit(':', 2)
            with open(os.path.join(self.repo, path), errors='replace') as fh:
                return fh.read().split('\n')[int(line) - 1].strip()
        except Exception:
            return ''

    # ---- function-pointer slots and call graph (A6)
    def slots(self):
        """(record, field) -> set of function names ever stored there; also 'arg' escapes"""
        if self._slots is not None:
            return self._slots
        sl = collections.defaultdict(set)
        esc = set()
        for f in self.fn.values():
            for bid, i, st in f.stmts():
                def v(x, p):
                    if x.get('k') == 'assign' and x['op'] == '=':
                        r = strip(x['r'])
                        if r is not None and r.get('k') == 'un' and r['op'] == '&':
                            r = strip(r['e'])
                        l = strip(x['l'])
                        if r is not None and r.get('k') == 'fn' and l.get('k') == 'member':
                            sl[(l.get('rec'), l['field'])].add(r['name'])
                    if x.get('k') == 'call':
                        for a in x['args']:
                            a = strip(a)
                            if a is not None and a.get('k') == 'un' and a['op'] == '&':
                                a = strip(a['e'])
                            if a is not None and a.get('k') == 'fn':
                                esc.add(a['name'])
                    if x.get('k') == 'decl':
                        for vv in x['vars']:
                            for n in nodes(vv.get('init'), lambda y: y.get('k') == 'fn'):
                                pass
                walk(st, v)
        for u, g in self.globals:
            for e in g.get('init_fns', []):
                esc.add(e['fn'])
                if e.get('rec'):
                    sl[(e['rec'], e['field'])].add(e['fn'])
        self._slots = sl
        self.escaping_fns = esc
        return sl

    def callgraph(self):
        """name -> set of callee names (direct + indirect by slot); unresolved indirect calls in self.unresolved"""
        if self._cg is not None:
            return self._cg
        sl = self.slots()
        cg = collections.defaultdict(set)
        self.unresolved = collections.defaultdict(list)
        self.indirect = collections.defaultdict(list)
        for n, f in self.fn.items():
            for bid, i, c in f.calls():
                if 'callee' in c:
                    cg[n].add(c['callee'])
                else:
                    fe = strip(c['fnexpr'])
                    if fe.get('k') == 'un' and fe['op'] == '*':
                        fe = strip(fe['e'])
                    if fe.get('k') == 'member':
                        key = (fe.get('rec'), fe['field'])
                        tg = sl.get(key, set())
                        cg[n] |= tg
                        self.indirect[n].append((key, sorted(tg), c['loc']))
                        if not tg:
                            self.unresolved[n].append((S(fe), c['loc']))
                    else:
                        self.unresolved[n].append((S(fe), c['loc']))
        self._cg = cg
        return cg

    def reach(self, roots):
        cg = self.callgraph()
        seen = set()
        w = list(roots)
        while w:
            n = w.pop()
            if n in seen:
                continue
            seen.add(n)
            w += [c for c in cg.get(n, ()) if c not in seen]
        return seen

    def callers(self, name):
        out = []
        for n, f in self.fn.items():
            for bid, i, c in f.calls(name):
                out.append((f, bid, i, c))
        return out


_cache = {}


def fn_vars(f):
    """the parameters and locals of a function in declaration order: (name, kind, type, shape of the initialiser)"""
    out = [(p['name'], 'param:%d' % i, p['t'], '') for i, p in enumerate(f.params) if p.get('name')]
    seen = set()
    decls = []
    for bid, i, st in f.stmts():
        for x in nodes(st, lambda y: y.get('k') == 'decl'):
            for v in x['vars']:
                if v.get('did') in seen:
                    continue
                seen.add(v.get('did'))
                init = strip(v.get('init')) if v.get('init') is not None else None
                shape = '' if init is None else (init.get('callee') or '') + ':' + init.get('k', '') + (':' + str(init['v']) if init.get('k') == 'lit' else '')
                decls.append((v.get('did') or '', v['name'], v['t'], shape))
    def key(d_):
        m = re.search(r'@(\d+):(\d+)$', str(d_[0]))
        return (int(m.group(1)), int(m.group(2))) if m else (1 << 30, 0)
    decls.sort(key=key)
    return out + [(n, 'local', t, sh) for _, n, t, sh in decls]


NAMES_REF = os.path.join(VERIF, 'sa', 'names_ref.json')


def align_names(db):
    """Rename-robustness (DESIGN.md §2.1): the rules were written against the names that parameters and locals have on the
    pinned tree (sa/names_ref.json, generated by tools/mknamesref.py).  When a function of the analysed tree lacks a
    reference variable and has a variable the reference does not know, of the same kind and type, that variable is the
    renamed one: it is given its reference name in the fact base.  Variables whose names are unchanged are never touched."""
    if not os.path.exists(NAMES_REF):
        return 0
    ref = json.load(open(NAMES_REF))
    total = 0
    for name, f in db.fn.items():
        r = ref.get(name)
        if not r or not f.blocks:
            continue
        cur = fn_vars(f)
        cur_names = {c[0] for c in cur}
        ref_names = {x[0] for x in r}
        missing = [tuple(x) for x in r if x[0] not in cur_names]
        new = [c for c in cur if c[0] not in ref_names]
        if not missing or not new:
            continue
        ren = {}
        groups = {}
        for m in missing:
            groups.setdefault((m[1] if m[1].startswith('param') else 'local', m[2]), [[], []])[0].append(m)
        for c in new:
            g = groups.get((c[1] if c[1].startswith('param') else 'local', c[2]))
            if g is not None:
                g[1].append(c)
        for (kind, typ), (ms, cs) in groups.items():
            if len(ms) == len(cs):
                for m, c in zip(ms, cs):                 # same number vanished and appeared: declaration order pairs them
                    ren[c[0]] = m[0]
            else:
                for m in ms:                             # otherwise only an initialiser shape that is unique on both sides
                    same = [c for c in cs if c[3] == m[3] and c[0] not in ren]
                    if len(same) == 1 and len([x for x in ms if x[3] == m[3]]) == 1:
                        ren[same[0][0]] = m[0]
        if not ren:
            continue
        total += len(ren)
        for p in f.params:
            if p.get('name') in ren:
                p['name'] = ren[p['name']]
        for bid, i, st in f.stmts():
            for x in nodes(st, lambda y: y.get('k') in ('var', 'decl')):
                if x['k'] == 'var' and x.get('decl') in ('local', 'param') and x['name'] in ren:
                    x['name'] = ren[x['name']]
                elif x['k'] == 'decl':
                    for v in x['vars']:
                        if v['name'] in ren:
                            v['name'] = ren[v['name']]
        for b in f.blocks.values():
            t = b.get('term') or {}
            for k_ in ('cond',):
                pass
        f.renamed = ren
    return total


def normalise_spelling(db):
    """`x += 1` / `x -= 1` are the same statement as `++x` / `--x` (same value too): one spelling in the fact base"""
    n = 0
    for f in db.fn.values():
        for bid, i, st in f.stmts():
            for x in nodes(st, lambda y: y.get('k') == 'assign' and y.get('op') in ('+=', '-=') and is_lit(y.get('r'), 1)):
                e = x['l']
                op = '++' if x['op'] == '+=' else '--'
                for k_ in ('l', 'r'):
                    x.pop(k_, None)
                x['k'], x['op'], x['e'] = 'un', op, e
                n += 1
    return n


DEFAULT_DEFINES = ()          # set by the runner for the extra preprocessor configurations of the thorough tier


def load(repo='/repo', defines=None):
    defines = DEFAULT_DEFINES if defines is None else defines
    key = (repo, tuple(defines))
    if key not in _cache:
        t = time.time()
        units = extract(repo, defines)
        db = DB(units, repo)
        db.aligned_names = align_names(db)
        db.respelled = normalise_spelling(db)
        db.extract_s = time.time() - t
        db.defines = tuple(defines)
        _cache[key] = db
    return _cache[key]
