"""Clauses shared between properties (DESIGN.md §2.6).

A rule is written once, in the module of the property that *owns* the fact.  Several facts are necessary conditions of more
than one property: the carry-buffer protocol is a segmentation fact (C03) and equally a fidelity fact (C02: a header cut by a
chunk boundary is reported whole only if the carried piece is kept) and a memory-safety fact (C01: the piece is appended
inside the buffer).  For each property this table names the rules of *other* modules that are evaluated again as part of its
check, with the reason why breaking the rule breaks this property too.  The imported obligations keep their rule id and
instance key (so a recorded finding of the owner is recognised and printed as KNOWN-FINDING by the importer as well) and are
listed in the evidence of the importing check under `imported`.

Only rule ids are named here - never sites: what the rule matches is discovered in the code on every run by its owner.
The table was filled by reading, for each property, which clause of its statement the imported rule is a necessary condition of;
the seeded changes of §6.2 that an independent agent wrote against property X and that only a rule of property Y reported were
the starting list (56 of 203), each is named next to its import."""

IMPORTS = {
    'C01': [
        ('C03', ['C03.c', 'C03.e', 'C03.f'],
         'carry buffer and rewind are memory facts too: a carried piece written anywhere but the fill offset, a size that does not follow its '
         'pointer, or a rewind by more than the read offset makes the parser read or write outside the carry buffer or below the caller\'s chunk '
         '(c01-1, c01-11: negative read offset handed to the body callback)'),
        ('C17', ['C17.a', 'C17.f'],
         'ring buffer of htp_list: a cursor that misses its wrap test, or a growth that copies the wrong span, hands out uninitialised or '
         'out-of-block slots as element pointers (c01-7)'),
        ('C04', ['C04.f', 'C04.g'],
         'the transaction list is addressed by live positions only: a stale position clears another transaction\'s slot and leaves the destroyed '
         'one in the list - use after free at teardown (c01-9)'),
        ('C18', ['C18.b', 'C18.c', 'C18.d', 'C18.e', 'C18.f', 'C18.h'],
         'a dangling owner field, a destroyed shallow copy, a half-moved container or a capacity recorded before the reallocation are double frees '
         '/ overflows whichever event (odd input, failed allocation) leads to the exit path; a record left in its table with a NULL value is a NULL '
         'dereference in every consumer (c01-3, c01-13)'),
        ('C19', ['C19.e', 'C19.g'],
         'a copied configuration owns its hooks and its callback records: a copy that shares them with its source is a double free when both are '
         'destroyed (c01-14)'),
        ('C10', ['C10.e'],
         'clean teardown: the per-message decompressor chain is destroyed before a new one is attached, otherwise the old chain is unreachable '
         'and leaked (c01-10)'),
    ],
    'C02': [
        ('C03', ['C03.a', 'C03.b', 'C03.c', 'C03.d', 'C03.h'],
         'a line cut by a chunk boundary is reported whole only if the look-ahead defers, the bytes read so far are set aside (DATA_BUFFER) and '
         'appended at the fill offset; otherwise the field is truncated or an empty line is invented (c02-1, c02-2, c02-5, c02-8)'),
        ('C13', ['C13.b', 'C13.e'],
         'host and port are among the reported fields: the port predicates accept exactly 1..65535 and the reported port text is the converted '
         'window (c02-3, c02-9)'),
        ('C04', ['C04.b', 'C04.c', 'C04.g'],
         '"not taken from a neighbouring message": the response is bound to the transaction at the response cursor, and the list is never '
         'addressed by a stale ordinal (c02-7)'),
        ('C17', ['C17.c'], 'case-insensitive header lookup, first match: the table getters are the lookup the statement names'),
        ('C10', ['C10.c'],
         'repeated fields are combined up to the documented cap of the direction they belong to: a processor that tests or advances the other '
         'direction\'s counter stops combining early (c02-13)'),
        ('C11', ['C11.h'],
         'host and port are reported fields: the host determination takes host and port together from one source (target or Host field), '
         'row by row of the documented table (c02-15: port of the Host field attached to the host of the target)'),
    ],
    'C03': [
        ('C06', ['C06.b', 'C06.f', 'C06.j'],
         'delivered body bytes (and the reported lengths) are the same for every cut: a consumed framing line is counted by its consolidated length; delivered body bytes are the same for every cut: a body state takes min(bytes still missing, bytes in this chunk) and moves every '
         'cursor by exactly that amount (c03-12: the declared total passed where the remainder belongs)'),
        ('C14', ['C14.a', 'C14.c', 'C14.d', 'C14.h', 'C14.j'],
         'multipart parameters are part of the reported transaction: the CR / boundary bytes set aside at the end of a chunk are replayed or '
         'dropped exactly once, otherwise the parts depend on where the body was cut (c03-5, c03-10)'),
        ('C01', ['C01.r'],
         'what a parser carries from one chunk to the next are positions and lengths: kept at full width they mean the same byte whatever the '
         'size of the chunk (c14-17: a 16-bit candidate position loses a 70000-byte value when the boundary is cut by a chunk end)'),
        ('C15', ['C15.b', 'C15.d'],
         'urlencoded parameters likewise: the end of a chunk stores the piece and emits nothing; 0xFF is not taken for the end-of-chunk sentinel'),
        ('C07', ['C07.m', 'C07.f'],
         'the bomb verdict and the LZMA header assembly must not depend on the cut: the ratio divides by a wire count that already holds the bytes '
         'being decompressed, the header is accumulated at its running offset (c03-6)'),
        ('C16', ['C16.c'], 'the tunnel probe accumulates without consuming, so a probed line cut by a chunk boundary is read whole'),
    ],
    'C04': [
        ('C17', ['C17.a', 'C17.f'],
         'the transaction list is an htp_list: when its ring buffer grows or wraps wrongly, position i no longer holds transaction i '
         '(c04-1, c04-9)'),
        ('C06', ['C06.k'],
         'response i+1 begins where the body of response i ends: a chunk-length line that is cut short at a chunk extension takes chunk data '
         'from inside the line and the next response is swallowed into the body (c04-16)'),
        ('C05', ['C05.a', 'C05.b'],
         'exactly N transactions are reported: each completion function delivers its callback and detaches the transaction, so that '
         'TRANSACTION_COMPLETE fires for every transaction (c04-18: a refused CONNECT completed through the partial helper is never reported)'),
        ('C09', ['C09.c'],
         'the DATA_OTHER hand-over the statement relies on: the stream state the driver stores and returns after a state function asked for the '
         'other direction (c04-15: the two DATA_OTHER arms merged, the request side never reports it)'),
        ('C16', ['C16.d', 'C16.e', 'C16.j', 'C16.l', 'C16.m'],
         'the documented DATA_OTHER hand-over is part of the statement: the response side yields at the end of the CONNECT transaction exactly when '
         'the request side waits on it, and only a refused CONNECT releases the request side - otherwise the response parser runs ahead of a '
         'request that has not been read yet and attaches its response to a request-less transaction (c04-12)'),
        ('C01', ['C01.d'],
         'destroying the transaction one direction has finished must not detach the other direction from a different transaction it is still '
         'reading: the two parser slots are cleared independently (c04-14: request i+1 lost, response i+1 unpaired)'),
        ('C03', ['C03.a', 'C03.b'],
         'pairing is claimed for every interleaving and chunking: a status line or CONNECT probe line whose first piece is not set aside is lost, '
         'and the response that follows is attached to the wrong transaction (c04-7, c04-11)'),
    ],
    'C05': [
        ('C04', ['C04.b', 'C04.c'],
         'at most once: the response cursor moves on every path that starts a response; a cursor left behind binds the next response to a '
         'transaction that is already complete and all its response callbacks are delivered again (c05-2, c05-3, c05-7, c05-8, c05-9)'),
        ('C16', ['C16.i'],
         'the progress indicators never move backwards and completion is reported once: each direction\'s progress field is written by that '
         'direction only (c05-17: the response side marks a half-read request COMPLETE)'),
        ('C19', ['C19.e'],
         'on a copied configuration every event\'s hook holds that event\'s callbacks: a copy built from the neighbouring hook delivers a '
         'completion callback twice or a headers callback after body data (c05-5, c05-6)'),
    ],
    'C06': [
        ('C03', ['C03.b'],
         'exactly once: a framing line that was interpreted is cleared from the carry buffer (else its bytes are replayed into the body), and a '
         'piece read at the end of a chunk is set aside (else body framing bytes are lost) (c06-2, c06-9)'),
        ('C19', ['C19.e'], 'on a copied configuration the body-data hook of a direction holds that direction\'s callbacks (c06-7)'),
        ('C17', ['C17.h', 'C17.i'],
         'a chunk-decoded body is the entity body only if every chunk length is read as the whole digit run of its line and nothing but the digit '
         'run (c17-14, c06-17: a chunk extension makes the length invalid)'),
        ('C02', ['C02.h'],
         'a Content-Length delimited body is the entity body only if the field value is cut at its last non-blank byte (c06-10: "12 " read as 1)'),
    ],
    'C07': [
        ('C10', ['C10.e'],
         'a decompressor belongs to one message: the one left over from the previous message is destroyed before the next body is set up, otherwise '
         'the next body is fed to a decoder of the wrong coding or in a used state (c07-20)'),
        ('C06', ['C06.d'],
         'the end-of-body marker is the decompressor\'s end-of-data call: without it the tail of the payload stays in the output buffer (c07-6)'),
        ('C16', ['C16.i'],
         'a response-side function releases only the response decompressors: the connection-wide helper drops a request body that is still being '
         'decompressed (c07-11)'),
    ],
    'C08': [
        ('C07', ['C07.e'],
         'the Content-Encoding token loop is bounded by loop-carried layer counters; without the bound one header line costs work proportional '
         'to tokens x separators (c08-2, c08-4, c08-10)'),
        ('C04', ['C04.b', 'C04.c'],
         'the response side finds its transaction by one indexed lookup at the response cursor; any fall-back that searches the list makes an '
         'unmatched response cost time proportional to the number of transactions (c08-16)'),
        ('C10', ['C10.d', 'C10.f'],
         'destroying a transaction scans the transaction list from the front: the max_tx cap and the recycling call are what bound that scan '
         '(c08-5, c08-7, c08-11)'),
    ],
    'C09': [
        ('C16', ['C16.g'],
         'progress: the request side suspended on a CONNECT is released by response_progress moving past LINE, the one field the response side '
         'advances on every way an answer can begin; a gate keyed on anything else answers DATA_OTHER with nothing consumed for ever (c09-13)'),
    ],
    'C10': [
        ('C04', ['C04.a', 'C04.g'],
         'recycled slots: the list is shifted only by the recycling call and never addressed by a stale ordinal, otherwise slots are never '
         'released and the memory held by the connection grows with the number of transactions (c10-6, c10-10)'),
    ],
    'C11': [
        ('C03', ['C03.a'],
         '"regardless of segmentation": whether a Content-Length line is folded is known only when the next byte is there; the look-ahead defers '
         'at the end of a chunk (c11-5)'),
        ('C02', ['C02.h', 'C02.i'],
         '"regardless of surrounding whitespace": the framing fields are looked up by a name and a value that were trimmed completely (c11-10)'),
        ('C13', ['C13.b', 'C13.i'],
         'the host that is compared with the Host field is the host of the target: authority delimiters are searched inside the authority '
         '(c11-16: an @ in the query moves the host). A request target whose port is outside 1..65535 is a syntactically invalid host: the port predicates mark everything else invalid, '
         'which is what raises the invalid-host indicator for the target (c11-14)'),
        ('C17', ['C17.c'],
         '"regardless of letter case": a repeated Content-Length or Transfer-Encoding is found by a lookup that folds case on every byte of '
         'the name (c11-15: a case-sensitive first-byte pre-test stores "content-length" next to "Content-Length", unflagged)'),
        ('C12', ['C12.e'], 'the request-target host is decoded with the transaction\'s own decoder configuration before it is compared with Host (c11-8)'),
    ],
    'C13': [
        ('C16', ['C16.h'],
         'a target that starts with / is never given an authority: only the method CONNECT, compared byte for byte, sends the target to the '
         'authority splitter (c13-17: "connect /a/b" reported with hostname "/a/b")'),
        ('C17', ['C17.b'], 'the numeric port is the decimal value of the whole port text: the integer parser accepts only at the end of the text, without wrapping (c13-5)'),
    ],
    'C14': [
        ('C01', ['C01.r'],
         'part data is reproduced byte for byte for every chunking: the positions the boundary matcher keeps across calls are not narrowed '
         '(c14-17)'),
    ],
    'C15': [
        ('C12', ['C12.e', 'C12.f', 'C12.h'],
         'names and values are decoded by the same in-place decoder as the path: the transaction\'s own configuration, hex validation of exactly the '
         'decoded bytes, progress of the read cursor on every path (c15-2, c15-4, c15-6)'),
        ('C01', ['C01.m'], 'identical for every chunking: a piece kept for the next chunk is a copy, not a view of the caller\'s buffer (c15-8)'),
    ],
    'C16': [
        ('C03', ['C03.b', 'C03.c', 'C03.e', 'C03.h', 'C03.i'],
         'no request byte skipped or parsed twice (c16-18, c16-20: the carry buffer released by a clean-up, a peeked line un-read without cutting the buffer back): the probed line is read through the consolidated view and the carry buffer restarts the consumer '
         'position on every append (c16-4, c16-8, c16-10)'),
        ('C05', ['C05.g'],
         'callbacks of the CONNECT transaction get the bytes of the CONNECT message only: the header-data receiver is closed when the HEADERS '
         'hook runs, body or not - left open it is fed the tunnel payload (c16-16)'),
        ('C09', ['C09.c'], 'the request side reports DATA_OTHER while it waits for the answer to CONNECT: status assigned == value returned (c16-11)'),
        ('C17', ['C17.b'], 'a 2xx answer is recognised by its status number: valid iff 100..999, never lost with the protocol check (c16-7)'),
    ],
    'C19': [
        ('C01', ['C01.p'],
         'no state leaks between connections: a parser-owned field never holds a pointer borrowed from the shared configuration, or the first '
         'parser destroyed frees what the others still read (c19-11)'),
    ],
}


def imported_rules(pid):
    return {r: (src, why) for src, rules, why in IMPORTS.get(pid, []) for r in rules}
