"""A1: CFG utilities over the extracted facts (dominators, edge dominance, statement-level search)."""
import collections
from .facts import S, strip, nodes, walk


def dominators(fn):
    if getattr(fn, '_dom', None) is not None:
        return fn._dom
    en = fn.entry
    live = reachable(fn, en)           # blocks not reachable from the entry (code after `continue; break;`) must not take part
    ids = [i for i in fn.blocks if i in live]
    preds = fn.preds
    dom = {i: set(ids) for i in ids}
    for i in fn.blocks:
        if i not in live:
            dom[i] = {i}
    dom[en] = {en}
    ch = True
    while ch:
        ch = False
        for i in ids:
            if i == en:
                continue
            ps = [dom[p] for p in preds[i] if p in live]
            new = (set.intersection(*ps) if ps else set()) | {i}
            if new != dom[i]:
                dom[i] = new
                ch = True
    fn._dom = dom
    return dom


def postdominators(fn):
    if getattr(fn, '_pdom', None) is not None:
        return fn._pdom
    ex = fn.exit
    canexit = backward_blocks(fn, ex)
    ids = [i for i in fn.blocks if i in canexit]
    pdom = {i: set(ids) for i in ids}
    for i in fn.blocks:
        if i not in canexit:
            pdom[i] = {i}
    pdom[ex] = {ex}
    ch = True
    while ch:
        ch = False
        for i in ids:
            if i == ex:
                continue
            ss = [pdom[s] for s in fn.blocks[i]['succs'] if s is not None and s in canexit]
            new = (set.intersection(*ss) if ss else set()) | {i}
            if new != pdom[i]:
                pdom[i] = new
                ch = True
    fn._pdom = pdom
    return pdom


def reachable(fn, start, skip_edge=None, avoid=()):
    """blocks reachable from block `start` (inclusive), optionally with one edge (a, succ index) removed"""
    seen = set()
    w = [start]
    while w:
        c = w.pop()
        if c in seen or c in avoid:
            continue
        seen.add(c)
        for j, s in enumerate(fn.blocks[c]['succs']):
            if s is None or (skip_edge is not None and skip_edge == (c, j)):
                continue
            w.append(s)
    return seen


def edge_dominated(fn):
    """{(branch block, succ index): set of blocks every path to which uses that edge}"""
    if getattr(fn, '_edom', None) is not None:
        return fn._edom
    allr = reachable(fn, fn.entry)
    out = {}
    for bid, b in fn.blocks.items():
        if bid not in allr or len(b['succs']) < 2:
            continue
        for j, s in enumerate(b['succs']):
            if s is None:
                continue
            # if both successors are the same block the edge decides nothing
            if sum(1 for x in b['succs'] if x == s) > 1:
                continue
            out[(bid, j)] = allr - reachable(fn, fn.entry, skip_edge=(bid, j))
    fn._edom = out
    return out


def conditions_at(fn, bid):
    """branch conditions known on entry to block `bid` by edge dominance:
    list of (cond expr, polarity(bool) | case value, (branch block, successor index)). The caller is
    responsible for checking that the operands are not overwritten in between."""
    out = []
    for (d, j), blocks in edge_dominated(fn).items():
        if bid in blocks:
            b = fn.blocks[d]
            if b.get('term', {}).get('kind') == 'SwitchStmt':
                tgt = fn.blocks[b['succs'][j]]
                lab = tgt.get('label', {})
                out.append((b['stmts'][-1] if b['stmts'] else b['term'].get('cond'), ('case', lab.get('v') if lab.get('kind') == 'CaseStmt' else 'default'), (d, j)))
            elif len(b['succs']) == 2 and b['stmts']:
                out.append((b['stmts'][-1], j == 0, (d, j)))
    return out


def stmt_positions(fn, pred):
    """(bid, idx, stmt) of root statements containing a node satisfying pred"""
    return [(bid, i, st) for bid, i, st in fn.stmts() if nodes(st, pred)]


def forward(fn, start, visit, edge_ok=None):
    """Statement-level forward exploration from just after position start=(bid, idx)
    (idx=-1: from the beginning of the block). visit(bid, i, stmt) -> truthy to cut the
    path at that statement. edge_ok(bid, succ_index) -> False prunes an edge.
    Returns the set of block ids whose end was reached plus a flag whether the function
    exit was reached on an uncut path."""
    seen = set()
    w = [start]
    reached_exit = False
    ends = set()
    while w:
        bid, i0 = w.pop()
        if (bid, i0) in seen:
            continue
        seen.add((bid, i0))
        b = fn.blocks[bid]
        cut = False
        for i in range(i0 + 1, len(b['stmts'])):
            if visit(bid, i, b['stmts'][i]):
                cut = True
                break
        if cut:
            continue
        ends.add(bid)
        if bid == fn.exit:
            reached_exit = True
        for j, s in enumerate(b['succs']):
            if s is None:
                continue
            if edge_ok is not None and not edge_ok(bid, j):
                continue
            w.append((s, -1))
    return ends, reached_exit


def backward_blocks(fn, bid):
    """blocks from which `bid` is reachable (inclusive)"""
    seen = set()
    w = [bid]
    while w:
        c = w.pop()
        if c in seen:
            continue
        seen.add(c)
        w += fn.preds.get(c, [])
    return seen


def every_path_passes(fn, src, dst_pred, through_pred, edge_ok=None):
    """From just after src=(bid, idx): on every path, is a statement satisfying through_pred met
    before any statement satisfying dst_pred (or the exit when dst_pred is None)?
    Returns (ok, offending (bid, idx, stmt) or None)."""
    bad = []

    def visit(bid, i, st):
        if through_pred(st):
            return True
        if dst_pred is not None and dst_pred(st):
            bad.append((bid, i, st))
            return True
        return False
    ends, ex = forward(fn, src, visit, edge_ok)
    if dst_pred is None and ex:
        return False, ('exit',)
    return (not bad), (bad[0] if bad else None)


def writes_in(st, key_pred):
    """l-values written by a root statement (assign, ++/--, &x passed to calls) whose printable key satisfies key_pred"""
    out = []

    def v(x, p):
        k = x.get('k')
        if k == 'assign':
            if key_pred(S(strip(x['l']))):
                out.append(x)
        elif k == 'un' and x['op'] in ('++', '--', '++post', '--post'):
            if key_pred(S(strip(x['e']))):
                out.append(x)
        elif k == 'call':
            for a in x['args']:
                a = strip(a)
                if a is not None and a.get('k') == 'un' and a['op'] == '&' and key_pred(S(strip(a['e']))):
                    out.append(x)
        elif k == 'decl':
            for vv in x['vars']:
                if key_pred(vv['name']):
                    out.append(x)
    walk(st, v)
    return out


def loops(fn):
    """natural loops: list of (header block, set of body blocks) from back edges (target dominates source)"""
    dom = dominators(fn)
    out = {}
    live = reachable(fn, fn.entry)
    for b, blk in fn.blocks.items():
        if b not in live:
            continue
        for s in blk['succs']:
            if s is not None and s in dom[b]:
                body = {s}
                w = [b]
                while w:
                    c = w.pop()
                    if c in body:
                        continue
                    body.add(c)
                    w += [p for p in fn.preds.get(c, []) if p in live]
                out.setdefault(s, set()).update(body)
    return list(out.items())


def reaching_defs(fn, key_of):
    """Classic reaching definitions for l-values selected by key_of(lvalue expr) -> hashable key or None.
    Returns a function rd(bid, idx, key) -> set of defining nodes (assign / decl-var dicts) or the string
    'ENTRY' (no definition on some path) that may reach the point just before statement (bid, idx)."""
    gen = {}

    def defs_in(st):
        out = []

        def v(x, p):
            k = x.get('k')
            if k == 'assign':
                kk = key_of(x['l'])
                if kk is not None:
                    out.append((kk, x))
            elif k == 'un' and x['op'] in ('++', '--', '++post', '--post'):
                kk = key_of(x['e'])
                if kk is not None:
                    out.append((kk, x))
            elif k == 'decl':
                for vv in x['vars']:
                    kk = key_of({'k': 'var', 'name': vv['name'], 'did': vv.get('did'), 'decl': 'local'})
                    if kk is not None:
                        out.append((kk, vv))
        walk(st, v)
        return out
    block_defs = {b: [(i, kk, d) for i, st in enumerate(blk['stmts']) for kk, d in defs_in(st)] for b, blk in fn.blocks.items()}
    IN = {b: {} for b in fn.blocks}
    IN[fn.entry] = {'*': None}

    def flow(b, state):
        st = {k: set(v) for k, v in state.items() if k != '*'}
        for i, kk, d in block_defs[b]:
            st[kk] = {id(d)}
            nodes_by_id[id(d)] = d
        return st
    nodes_by_id = {}
    OUT = {}
    work = [fn.entry]
    seen_once = set()
    while work:
        b = work.pop()
        preds = [OUT[p] for p in fn.preds.get(b, []) if p in OUT]
        state = {}
        if b == fn.entry:
            state = {}
        else:
            keys = set()
            for p in preds:
                keys |= set(p)
            for k in keys:
                s = set()
                for p in preds:
                    s |= p.get(k, {'ENTRY'})
                state[k] = s
        new = flow(b, state)
        if b not in OUT or new != OUT[b] or b not in seen_once:
            seen_once.add(b)
            changed = b not in OUT or new != OUT[b]
            OUT[b] = new
            IN[b] = state
            if changed:
                work += [s for s in fn.blocks[b]['succs'] if s is not None]

    def rd(b, idx, key):
        cur = set(IN.get(b, {}).get(key, {'ENTRY'}))
        for i, kk, d in block_defs[b]:
            if i >= idx:
                break
            if kk == key:
                cur = {id(d)}
                nodes_by_id[id(d)] = d
        return {('ENTRY' if c == 'ENTRY' else c) for c in cur}, nodes_by_id
    return rd


def must_hold(fn, gen_edge, kills):
    """Forward must-analysis of one boolean fact. gen_edge(block, succ index) -> True when taking that edge
    establishes the fact; kills(stmt) -> True when the statement invalidates it (after the statement).
    Returns before(b, i) -> bool: does the fact hold on every path just before statement (b, i)?"""
    live = reachable(fn, fn.entry)
    IN = {b: True for b in live}
    IN[fn.entry] = False

    def out_of(b):
        s = IN[b]
        for st in fn.blocks[b]['stmts']:
            if kills(st):
                s = False
        return s
    ch = True
    while ch:
        ch = False
        for b in live:
            if b == fn.entry:
                continue
            v = True
            for p in fn.preds.get(b, []):
                if p not in live:
                    continue
                for j, s_ in enumerate(fn.blocks[p]['succs']):
                    if s_ == b:
                        v = v and (True if gen_edge(p, j) else out_of(p))
            if v != IN[b]:
                IN[b] = v
                ch = True

    def before(b, i):
        if b not in live:
            return False
        s = IN[b]
        for k, st in enumerate(fn.blocks[b]['stmts']):
            if k >= i:
                break
            if kills(st):
                s = False
        return s
    return before
