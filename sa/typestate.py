"""A8: finite typestate abstraction (DESIGN.md §2.2). An abstract interpreter over the extracted CFG facts with
a finite store (state-function pointers, stream status, progress fields, a few flags; everything else is TOP and
every condition on TOP branches both ways). Path-sensitive inside a function, context-sensitive by inlining the
callees that touch the tracked store or run hooks, indirect dispatch resolved on the abstract value. The driver
loop itself is interpreted; an environment step between driver calls models the caller (more data, close, the
cross-direction writes the other side can make). Hook runs are events fed to a small monitor automaton."""
import collections, time
from .facts import S, strip, walk, nodes, AnalysisBroken
from . import pat as P

TOP = None


def isnot(v):
    return isinstance(v, tuple) and v and v[0] == 'not'


class Frozen(dict):
    def key(self):
        return frozenset(self.items())


class Engine:
    def __init__(self, db, objmap, tracked_fields, on_call, relevant, max_depth=10, on_assign=None):
        self.db = db
        self.objmap = objmap
        self.tracked = tracked_fields
        self.on_call = on_call
        self.relevant = relevant
        self.max_depth = max_depth
        self.on_assign = on_assign
        self.memo = {}
        self.stack = []
        self.stats = collections.Counter()
        self.slots = db.slots()
        self.deadline = None

    def obj(self, e, env):
        e = strip(e)
        if e is None:
            return None
        k = e.get('k')
        if k == 'var':
            return env.get(e['name'])
        if k == 'member':
            b = self.obj(e['base'], env)
            if b is None:
                return None
            return self.objmap.get((b, e['field']))
        if k == 'un' and e['op'] == '*':
            return self.obj(e['e'], env)
        return None

    def path(self, e, env, frame):
        e = strip(e)
        if e is None:
            return None
        if e.get('k') == 'member':
            b = self.obj(e['base'], env)
            if b is not None and e['field'] in self.tracked:
                return b + '.' + e['field']
            return None
        if e.get('k') == 'var' and e.get('decl') in ('local', 'param') and env.get(e['name']) is None:
            return 'L%d.%s' % (frame, e['name'])
        return None

    def ev(self, e, env, store, frame):
        e = strip(e)
        if e is None:
            return TOP
        k = e.get('k')
        if k == 'lit':
            return frozenset([e['v']])
        if k == 'call':
            return store.get('C:%d' % id(e), TOP)
        if k == 'fn':
            return frozenset(['fn:' + e['name']])
        if k == 'un' and e['op'] == '&' and strip(e['e']).get('k') == 'fn':
            return frozenset(['fn:' + strip(e['e'])['name']])
        p = self.path(e, env, frame)
        if p is not None:
            return store.get(p, TOP)
        if k == 'member' or k == 'var':
            o = self.obj(e, env)
            if o is not None:
                return frozenset(['obj:' + o])
        if k == 'un' and e['op'] == '!':
            v = self.ev(e['e'], env, store, frame)
            if v is TOP:
                return frozenset([0, 1])
            if isnot(v):
                return frozenset([0]) if 0 in v[1] else frozenset([0, 1])
            return frozenset([0 if x != 0 else 1 for x in v])
        if k == 'un' and e['op'] == '-':
            v = self.ev(e['e'], env, store, frame)
            return TOP if (v is TOP or isnot(v)) else frozenset([-x for x in v if isinstance(x, int)])
        if k == 'bin' and e['op'] in ('==', '!=', '<', '<=', '>', '>='):
            a = self.ev(e['l'], env, store, frame)
            b = self.ev(e['r'], env, store, frame)
            for x, y in ((a, b), (b, a)):
                if isnot(x) and y is not TOP and not isnot(y) and len(y) == 1 and e['op'] in ('==', '!='):
                    (c,) = y
                    if c in x[1]:
                        return frozenset([0]) if e['op'] == '==' else frozenset([1])
                    return frozenset([0, 1])
            if a is TOP or b is TOP or isnot(a) or isnot(b):
                return frozenset([0, 1])
            out = set()
            for x in a:
                for y in b:
                    try:
                        r = {'==': x == y, '!=': x != y, '<': x < y, '<=': x <= y, '>': x > y, '>=': x >= y}[e['op']]
                    except TypeError:
                        r = (x == y) if e['op'] == '==' else (x != y) if e['op'] == '!=' else None
                    if r is None:
                        out |= {0, 1}
                    else:
                        out.add(1 if r else 0)
            return frozenset(out)
        return TOP

    def refine(self, e, env, store, frame, truth):
        e = strip(e)
        if e is None:
            return store
        k = e.get('k')
        if k == 'un' and e['op'] == '!':
            return self.refine(e['e'], env, store, frame, not truth)
        v = self.ev(e, env, store, frame)
        if v is not TOP and not isnot(v):
            if not [x for x in v if (x != 0) == truth]:
                return None
        if isnot(v) and 0 in v[1] and not truth:
            return None
        if k == 'bin' and e['op'] in ('==', '!=', '<', '<=', '>', '>='):
            SW = {'==': '==', '!=': '!=', '<': '>', '<=': '>=', '>': '<', '>=': '<='}
            NG = {'==': '!=', '!=': '==', '<': '>=', '<=': '>', '>': '<=', '>=': '<'}
            for lhs, rhs, op in ((e['l'], e['r'], e['op']), (e['r'], e['l'], SW[e['op']])):
                p = self.path(lhs, env, frame)
                c = self.ev(rhs, env, store, frame)
                if p is not None and c is not TOP and not isnot(c) and len(c) == 1:
                    (cv,) = c
                    cur = store.get(p, TOP)
                    opx = op if truth else NG[op]
                    if cur is TOP or isnot(cur):
                        excl = cur[1] if isnot(cur) else frozenset()
                        if opx == '==':
                            if cv in excl:
                                return None
                            store = Frozen(store)
                            store[p] = frozenset([cv])
                        elif opx == '!=':
                            store = Frozen(store)
                            store[p] = ('not', excl | frozenset([cv]))
                    else:
                        def ok(x):
                            try:
                                return {'==': x == cv, '!=': x != cv, '<': x < cv, '<=': x <= cv, '>': x > cv, '>=': x >= cv}[opx]
                            except TypeError:
                                return (x == cv) if opx == '==' else True
                        nv = frozenset(x for x in cur if ok(x))
                        if not nv:
                            return None
                        store = Frozen(store)
                        store[p] = nv
                    return store
            return store
        p = self.path(e, env, frame)
        if p is not None:
            cur = store.get(p, TOP)
            if isnot(cur):
                if truth:
                    store = Frozen(store)
                    store[p] = ('not', cur[1] | frozenset([0]))
                elif 0 in cur[1]:
                    return None
                else:
                    store = Frozen(store)
                    store[p] = frozenset([0])
            elif cur is not TOP:
                nv = frozenset(x for x in cur if (x != 0) == truth)
                if not nv:
                    return None
                store = Frozen(store)
                store[p] = nv
            elif not truth:
                store = Frozen(store)
                store[p] = frozenset([0])
        return store

    def exec_stmt(self, st, env, store, frame, fn):
        stores = [store]
        calls = nodes(st, lambda y: y.get('k') == 'call')
        for c in reversed(calls):
            nxt = []
            for stx in stores:
                for rv, st2 in self.do_call(c, env, stx, frame, fn):
                    st2 = Frozen(st2)
                    if rv is not TOP:
                        st2['C:%d' % id(c)] = rv
                    nxt.append(st2)
            stores = nxt
        return [self.apply(st, env, stx, frame) for stx in stores]

    def ev2(self, e, env, store, frame):
        e = strip(e)
        if e is not None and e.get('k') == 'call':
            return store.get('C:%d' % id(e), TOP)
        return self.ev(e, env, store, frame)

    def apply(self, st, env, store, frame):
        def assign(p, val, store):
            if self.on_assign:
                store = self.on_assign(self, p, store.get(p, TOP), val, st, store)
            store = Frozen(store)
            if val is TOP:
                store.pop(p, None)
            else:
                store[p] = val
            return store
        acc = [store]

        def w(x, p_):
            store = acc[0]
            k = x.get('k')
            if k == 'assign':
                p = self.path(x['l'], env, frame)
                if p is not None:
                    acc[0] = assign(p, self.ev2(x['r'], env, store, frame) if x['op'] == '=' else TOP, store)
            elif k == 'un' and x['op'] in ('++', '--', '++post', '--post'):
                p = self.path(x['e'], env, frame)
                if p is not None:
                    acc[0] = assign(p, TOP, store)
            elif k == 'decl':
                for vv in x['vars']:
                    p = 'L%d.%s' % (frame, vv['name'])
                    if env.get(vv['name']) is None:
                        acc[0] = assign(p, self.ev2(vv['init'], env, acc[0], frame) if 'init' in vv else TOP, acc[0])
        walk(st, w)
        return acc[0]

    def do_call(self, c, env, store, frame, fn):
        r = self.on_call(self, c, env, store, frame)
        if r is not None:
            return r
        targets = []
        if 'callee' in c:
            targets = [c['callee']]
        else:
            fe = strip(c['fnexpr'])
            if fe.get('k') == 'un' and fe['op'] == '*':
                fe = strip(fe['e'])
            v = self.ev(fe, env, store, frame)
            if v is not TOP and not isnot(v):
                targets = [x[3:] for x in v if isinstance(x, str) and x.startswith('fn:')]
            elif fe.get('k') == 'member':
                targets = sorted(self.slots.get((fe.get('rec'), fe['field']), ()))
        if not targets:
            return [(TOP, store)]
        out = []
        for t in targets:
            f = self.db.fn.get(t)
            if f is None or not f.blocks or not self.relevant(t) or len(self.stack) >= self.max_depth:
                out.append((TOP, store))
                continue
            nenv = {}
            for prm, arg in zip(f.params, c['args']):
                o = self.obj(arg, env)
                if o is not None:
                    nenv[prm['name']] = o
            st2 = Frozen({k: v for k, v in store.items() if not k.startswith('L') and not k.startswith('C:')})
            callerlocals = {k: v for k, v in store.items() if k.startswith('L') or k.startswith('C:')}
            nframe = len(self.stack) + 1
            for prm, arg in zip(f.params, c['args']):
                if prm['name'] not in nenv:
                    val = self.ev2(arg, env, store, frame)
                    if val is not TOP:
                        st2['L%d.%s' % (nframe, prm['name'])] = val
            for rv, st3 in self.run(t, nenv, st2):
                st3 = Frozen({k: v for k, v in st3.items() if not k.startswith('L') and not k.startswith('C:')})
                st3.update(callerlocals)
                out.append((rv, st3))
        seen = {}
        for rv, st3 in out:
            seen[(rv, st3.key())] = (rv, st3)
        return list(seen.values())

    def run(self, fname, env, store):
        key = (fname, frozenset(env.items()), store.key())
        if key in self.memo:
            return self.memo[key]
        if key in self.stack:
            return [(TOP, store)]
        if self.deadline and time.time() > self.deadline:
            raise TimeoutError()
        self.stack.append(key)
        self.stats['runs'] += 1
        f = self.db.fn[fname]
        frame = len(self.stack)
        env = dict(env)
        ch = True
        while ch:
            ch = False
            for b, i, stt in f.stmts():
                for x in nodes(stt, lambda y: y.get('k') in ('decl', 'assign')):
                    if x['k'] == 'decl':
                        for vv in x['vars']:
                            if 'init' in vv and vv['name'] not in env:
                                o = self.obj(vv['init'], env)
                                if o is not None:
                                    env[vv['name']] = o
                                    ch = True
                    elif x['op'] == '=' and strip(x['l']).get('k') == 'var' and strip(x['l'])['name'] not in env:
                        o = self.obj(x['r'], env)
                        if o is not None:
                            env[strip(x['l'])['name']] = o
                            ch = True
        results = {}
        seen = set()
        work = [(f.entry, store)]
        while work:
            bid, st = work.pop()
            if any(x.startswith('C:') for x in st):
                st = Frozen({a: b for a, b in st.items() if not a.startswith('C:')})
            k = (bid, st.key())
            if k in seen:
                continue
            seen.add(k)
            self.stats['states'] += 1
            b = f.blocks[bid]
            stores = [st]
            for stmt in b['stmts']:
                if stmt.get('k') == 'return':
                    for stx in stores:
                        e = stmt.get('e')
                        if e is not None and strip(e).get('k') == 'call':
                            for rv, sty in self.do_call(strip(e), env, stx, frame, fname):
                                results[(rv, sty.key())] = (rv, sty)
                        else:
                            rv = self.ev(e, env, stx, frame) if e is not None else TOP
                            results[(rv, stx.key())] = (rv, stx)
                    stores = []
                    break
                nxt = []
                for stx in stores:
                    nxt += self.exec_stmt(stmt, env, stx, frame, fname)
                stores = nxt
            succs = b['succs']
            for stx in stores:
                if bid == f.exit:
                    results[(TOP, stx.key())] = (TOP, stx)
                    continue
                term = b.get('term', {})
                if term and len(succs) == 2 and b['stmts'] and term.get('kind') != 'SwitchStmt' and term.get('cond') is not None:
                    cond = b['stmts'][-1]
                    for i, sid in enumerate(succs):
                        if sid is None:
                            continue
                        r = self.refine(cond, env, stx, frame, i == 0)
                        if r is not None:
                            work.append((sid, r))
                elif term.get('kind') == 'SwitchStmt' and b['stmts']:
                    v = self.ev2(b['stmts'][-1], env, stx, frame)
                    if isnot(v):
                        v = TOP
                    for sid in succs:
                        if sid is None:
                            continue
                        lab = f.blocks[sid].get('label', {})
                        if v is not TOP and lab.get('kind') == 'CaseStmt' and lab.get('v') not in v:
                            continue
                        if v is not TOP and lab.get('kind') == 'DefaultStmt' and all(any(f.blocks[o].get('label', {}).get('v') == x for o in succs if o is not None) for x in v):
                            continue
                        work.append((sid, stx))
                else:
                    for sid in succs:
                        if sid is not None:
                            work.append((sid, stx))
        self.stack.pop()
        res = [(rv, Frozen({a: b for a, b in st.items() if not a.startswith('C:')})) for rv, st in results.values()]
        res = list({(rv, st.key()): (rv, st) for rv, st in res}.values())
        self.memo[key] = res
        return res


# ---------------------------------------------------------------------------------------------------------
# lifecycle exploration of one direction

TR = {'in_state', 'out_state', 'in_status', 'out_status', 'request_progress', 'response_progress', 'is_protocol_0_9', 'request_transfer_coding',
      'response_transfer_coding', 'out_data_other_at_tx_end', 'in_tx', 'out_tx'}
RANK = {'start': 0, 'uri_normalize': 1, 'line': 1, 'headers': 2, 'body_data': 3, 'file_data': 3, 'trailer': 4, 'complete': 5}
STREAM = {'NEW': 0, 'OPEN': 1, 'CLOSED': 2, 'ERROR': 3, 'TUNNEL': 4, 'DATA_OTHER': 5, 'STOP': 6, 'DATA': 9}


def relevant_functions(db):
    cg = db.callgraph()
    direct = set()
    for n, f in db.fn.items():
        for b, i, st in f.stmts():
            for x in nodes(st):
                if x['k'] == 'assign' and strip(x['l']).get('k') == 'member' and strip(x['l'])['field'] in TR:
                    direct.add(n)
                if x['k'] == 'call' and x.get('callee') in ('htp_hook_run_all', 'htp_hook_run_one'):
                    direct.add(n)
    rel = set(direct)
    ch = True
    while ch:
        ch = False
        for n in db.fn:
            if n not in rel and cg.get(n, set()) & rel:
                rel.add(n)
                ch = True
    rel -= {'htp_log', 'htp_hook_run_all', 'htp_hook_run_one', 'htp_connp_tx_create', 'htp_tx_create', 'htp_tx_destroy', 'htp_tx_destroy_incomplete', 'htp_tx_finalize',
            'htp_connp_close', 'htp_connp_req_close', 'htp_connp_destroy', 'htp_connp_destroy_all', 'htp_connp_create', 'htp_connp_open'}
    # the decompressor / multipart / urlencoded machinery only reaches hooks that are events of their own (body data is intercepted above them)
    rel -= {n for n in rel if n.startswith(('htp_gzip', 'htp_mpart', 'htp_urlenp', 'htp_ch_', 'htp_tx_req_process_body_data', 'htp_tx_res_process_body_data', 'htp_req_run_hook', 'htp_res_run_hook'))}
    return rel


class Lifecycle:
    def __init__(self, db, direction, budget_s=600):
        self.db = db
        self.d = direction
        self.side = 'request' if direction == 'in' else 'response'
        self.TXO = 'INTX' if direction == 'in' else 'OUTTX'
        self.budget = budget_s
        self.viol = collections.OrderedDict()
        self.sticky = collections.OrderedDict()
        self.events_in_call = False
        rel = relevant_functions(db)
        self.rel = rel
        objmap = {('CONNP', 'in_tx'): 'INTX', ('CONNP', 'out_tx'): 'OUTTX', ('INTX', 'connp'): 'CONNP', ('OUTTX', 'connp'): 'CONNP',
                  ('CONNP', 'cfg'): 'CFG', ('INTX', 'cfg'): 'CFG', ('OUTTX', 'cfg'): 'CFG'}
        # the other direction's own fields are environment: leaving them untracked (TOP) keeps the abstraction sound and much smaller
        tracked = TR - ({'out_state', 'out_status', 'response_transfer_coding', 'out_tx', 'out_data_other_at_tx_end'} if direction == 'in' else {'in_state', 'in_status', 'request_transfer_coding', 'request_progress', 'in_tx'})
        if direction == 'in':
            tracked |= {'out_status'}      # written together with in_status by the tunnel probe
        self.eng = Engine(db, objmap, tracked, self.on_call, lambda n: n in rel, max_depth=12, on_assign=self.on_assign)
        self.progress_regress = collections.OrderedDict()

    # -------- monitor
    def step(self, m, ev):
        """monitor state: 'NONE' (no transaction), -1 (fresh transaction), 0..5 (rank of the last event), 'DONE'"""
        if ev == 'end_marker':
            return 'BAD:after-complete' if m == 'DONE' else m
        r = RANK[ev]
        if m == 'NONE':
            return 'BAD:no-transaction'
        if m == 'DONE':
            return 'BAD:after-complete'
        if r < m:
            return 'BAD:inversion'
        return 'DONE' if ev == 'complete' else r

    def event(self, eng, ev, store, loc):
        self.events_in_call = True
        st = Frozen(store)
        cur = st.get('MON', frozenset(['NONE']))
        nxt = set()
        for m in cur:
            r = self.step(m, ev)
            if isinstance(r, str) and r.startswith('BAD'):
                stack = [k[0] for k in eng.stack]
                sf = [s for s in stack if s.startswith('htp_connp_RE')]
                key = (self.side, ev, m, r[4:], sf[-1] if sf else (stack[-1] if stack else '?'))
                self.viol.setdefault(key, (loc, stack[-4:]))
                r = m
            nxt.add(r)
        st['MON'] = frozenset(nxt)
        return st

    def on_assign(self, eng, p, old, new, st, store):
        prog = '%s.%s_progress' % (self.TXO, self.side)
        if p == prog and new is not TOP and not isnot(new):
            # the documented restart: response progress back to LINE (status 100) re-opens the line/headers stages
            if self.d == 'out' and new == frozenset([1]):
                store = Frozen(store)
                store['MON'] = frozenset([0 if (isinstance(m, int) and m >= 0) else m for m in store.get('MON', frozenset(['NONE']))])
            elif old is not TOP and not isnot(old):
                if max(new) < max(old):
                    self.progress_regress.setdefault((self.side, tuple(sorted(old)), tuple(sorted(new)), [k[0] for k in eng.stack][-1]), st.get('loc', ''))
        return store

    def on_call(self, eng, c, env, store, frame):
        n = c.get('callee')
        pre = 'hook_%s_' % self.side
        if n in ('htp_hook_run_all', 'htp_hook_run_one'):
            h = strip(c['args'][0])
            fld = h['field'] if h.get('k') == 'member' else S(h)
            st = store
            if fld.startswith(pre):
                ev = fld[len(pre):]
                if ev in RANK:
                    st = self.event(eng, ev, store, c['loc'])
            elif fld.startswith('hook_request_') or fld.startswith('hook_response_'):
                pass        # the other direction's callbacks are not monitored by this run
            if fld == 'hook_log':
                return [(TOP, st)]
            return [(frozenset([1]), st), (frozenset([-1]), st), (frozenset([4]), st)]
        if n in ('htp_tx_req_process_body_data_ex', 'htp_tx_res_process_body_data_ex'):
            mine = (n == 'htp_tx_req_process_body_data_ex') == (self.d == 'in')
            st = store
            if mine:
                marker = strip(c['args'][1]).get('k') == 'lit' and strip(c['args'][1])['v'] == 0
                st = self.event(eng, 'end_marker' if marker else 'body_data', store, c['loc'])
            return [(frozenset([1]), st), (frozenset([-1]), st)]
        if n == 'htp_connp_tx_create':
            st = Frozen(store)
            for k in list(st):
                if k.startswith('INTX.'):
                    st.pop(k)
            st['INTX.request_progress'] = frozenset([0])
            st['INTX.response_progress'] = frozenset([0])
            st['INTX.is_protocol_0_9'] = frozenset([0])
            st['INTX.request_transfer_coding'] = frozenset([0])
            st['INTX.response_transfer_coding'] = frozenset([0])
            st['CONNP.in_tx'] = frozenset(['obj:INTX'])
            if self.d == 'in':
                st['MON'] = frozenset([-1])
            else:
                for k in list(st):
                    if k.startswith('INTX.') or k == 'CONNP.in_tx':
                        st.pop(k)
                # response without request: the new transaction is also the response transaction
                for f_ in ('request_progress', 'response_progress', 'is_protocol_0_9', 'response_transfer_coding'):
                    st['OUTTX.' + f_] = frozenset([0])
                st['MON'] = frozenset([-1])
            return [(frozenset(['obj:INTX']), st), (frozenset([0]), Frozen(store))]
        if n == 'htp_list_array_get' and self.d == 'out' and c['args'] and P.member_field(c['args'][0]) == 'transactions':
            st = Frozen(store)
            for k in list(st):
                if k.startswith('OUTTX.'):
                    st.pop(k)
            st['OUTTX.response_progress'] = frozenset([0])
            st['MON'] = frozenset([-1])
            return [(frozenset(['obj:OUTTX']), st), (frozenset([0]), Frozen(store))]
        if n in ('htp_tx_finalize', 'htp_log', 'htp_conn_track_inbound_data', 'htp_conn_track_outbound_data'):
            return [(frozenset([1]) if n == 'htp_tx_finalize' else TOP, store)]
        if n in ('htp_tx_state_request_complete',) and self.d == 'out':
            # the response side finishing a dangling request: request-side callbacks, not monitored here
            st = Frozen(store)
            st['CONNP.in_tx'] = frozenset([0])
            return [(frozenset([1]), st)]
        return None

    # -------- exploration
    def norm(self, so):
        so = Frozen({k: v for k, v in so.items() if not k.startswith('L') and not k.startswith('C:')})
        other = 'response' if self.d == 'in' else 'request'
        so.pop('%s.%s_progress' % (self.TXO, other), None)
        txf = 'CONNP.%s_tx' % self.d
        if so.get(txf) == frozenset([0]):
            for k in list(so):
                if k.startswith(self.TXO + '.'):
                    so.pop(k)
            so['MON'] = frozenset(['NONE'])
        return so

    def env_steps(self, so):
        d = self.d
        stk = 'CONNP.%s_status' % d
        out = [so]
        stat = so.get(stk)
        final = stat in (frozenset([STREAM['ERROR']]), frozenset([STREAM['STOP']]))
        if not final:
            c = Frozen(so)
            c[stk] = frozenset([STREAM['CLOSED']])
            out.append(c)                                                        # htp_connp_close
            if d == 'in':
                if so.get('CONNP.in_tx') not in (None, frozenset([0])):
                    c = Frozen(so)
                    c['CONNP.in_state'] = frozenset(['fn:htp_connp_REQ_FINALIZE'])
                    out.append(c)                                                # RES_BODY_DETERMINE (Expect / 4xx) and RES_IDLE (unmatched response)
                if stat == frozenset([STREAM['DATA_OTHER']]):
                    c = Frozen(so)
                    c[stk] = frozenset([STREAM['DATA']])
                    out.append(c)                                                # refused CONNECT releases the request side
            else:
                if stat == frozenset([STREAM['DATA_OTHER']]):
                    c = Frozen(so)
                    c[stk] = frozenset([STREAM['DATA']])
                    out.append(c)                                                # htp_connp_req_data entry
            c = Frozen(so)
            c[stk] = frozenset([STREAM['TUNNEL']])
            if d == 'in':
                c['CONNP.out_status'] = frozenset([STREAM['TUNNEL']])
            out.append(c)                                                        # the other side switched to tunnel mode
        return out

    def explore(self):
        d = self.d
        drv = 'htp_connp_req_data' if d == 'in' else 'htp_connp_res_data'
        idle = 'fn:htp_connp_REQ_IDLE' if d == 'in' else 'fn:htp_connp_RES_IDLE'
        init = Frozen({'CONNP.%s_state' % d: frozenset([idle]), 'CONNP.%s_status' % d: frozenset([STREAM['OPEN']]),
                       'CONNP.%s_tx' % d: frozenset([0]), 'MON': frozenset(['NONE'])})
        if d == 'out':
            init['CONNP.out_data_other_at_tx_end'] = frozenset([0])
        else:
            init['CONNP.out_status'] = frozenset([STREAM['OPEN']])
        pre = {init.key(): init}
        work = [init]
        posts = {}
        t0 = time.time()
        self.eng.deadline = t0 + self.budget
        ncalls = 0
        complete = True
        try:
            while work:
                st = work.pop()
                ncalls += 1
                self.events_in_call = False
                nv0 = len(self.viol)
                res = self.eng.run(drv, {'connp': 'CONNP'}, st)
                stat = st.get('CONNP.%s_status' % d)
                for rv, so in res:
                    if stat in (frozenset([STREAM['ERROR']]), frozenset([STREAM['STOP']]), frozenset([STREAM['TUNNEL']])):
                        if so.get('MON') != st.get('MON'):
                            self.sticky.setdefault((self.side, tuple(sorted(stat))), 'a %s callback runs in a driver call entered with status %s' % (self.side, sorted(stat)))
                    so = self.norm(so)
                    posts[(rv, so.key())] = (rv, so)
                    for nx in self.env_steps(so):
                        if nx.key() not in pre:
                            pre[nx.key()] = nx
                            work.append(nx)
        except TimeoutError:
            complete = False
        self.stats = dict(driver_calls=ncalls, between_call_states=len(pre), post_states=len(posts), pending=len(work), engine=dict(self.eng.stats), seconds=round(time.time() - t0, 1), complete=complete,
                          relevant_functions=len(self.rel))
        rvs = collections.Counter((str(sorted(map(str, rv))) if rv is not TOP and not isnot(rv) else 'TOP') for rv, so in posts.values())
        self.stats['driver_return_values'] = dict(rvs)
        return self


# wall-clock bound of one direction's exploration; the exploration is a deterministic worklist that terminates (about 300 s alone),
# the bound only guards against a machine so loaded that it would not; a run that hits it reports UNKNOWN, never HOLDS
BUDGET = 7200


def lifecycle_result(db, d, budget_s):
    """run (or reuse, keyed by a hash of the extracted facts) the exploration of one direction"""
    import hashlib, json, os
    from .facts import VERIF
    h = hashlib.sha256()
    for u in sorted(db.units):
        h.update(json.dumps(db.units[u]['functions'], sort_keys=True).encode())
    h.update(open(__file__, 'rb').read())
    p = os.path.join(VERIF, 'work', 'typestate-%s-%s.json' % (d, h.hexdigest()[:16]))
    os.makedirs(os.path.dirname(p), exist_ok=True)
    import fcntl
    with open(p + '.lock', 'w') as lk:
        fcntl.flock(lk, fcntl.LOCK_EX)       # C05, C09 and C16 thorough share one exploration per direction and tree
        if os.path.exists(p):
            r = json.load(open(p))
            if r['stats']['complete'] or r['budget'] >= budget_s:
                r['cached'] = True
                return r
        lc = Lifecycle(db, d, budget_s).explore()
        r = dict(budget=budget_s, stats=lc.stats, side=lc.side,
                 viol=[[list(map(str, k)), list(v)] for k, v in lc.viol.items()],
                 sticky=list(lc.sticky.values()), regress=[[list(map(str, k)), v] for k, v in lc.progress_regress.items()], cached=False)
        json.dump(r, open(p + '.tmp', 'w'))
        os.replace(p + '.tmp', p)
    return r


def lifecycle_results(db, budget_s, directions=('in', 'out')):
    """both directions, explored in two forked processes"""
    import multiprocessing
    global _DB
    _DB = db                                  # inherited by the forked workers (the fact base is not pickled)
    ctx = multiprocessing.get_context('fork')
    with ctx.Pool(len(directions)) as pool:
        hs = [pool.apply_async(_lifecycle_worker, (d, budget_s)) for d in directions]
        return {d: h.get() for d, h in zip(directions, hs)}


_DB = None


def _lifecycle_worker(d, budget_s):
    return lifecycle_result(_DB, d, budget_s)


def check_sticky(db, res, rule, budget_s=BUDGET):
    """thorough clause shared by C09 and C16: no callback of a direction runs in a driver call that was entered with
    that direction in ERROR, STOP or TUNNEL (all abstract states that the exploration reaches)"""
    res.rule(rule, '(typestate) in every reachable abstract state with status ERROR / STOP / TUNNEL a driver call runs no callback of that direction')
    rs = lifecycle_results(db, budget_s)
    for d in ('in', 'out'):
        r = rs[d]
        side = r['side']
        res.analysed['typestate %s' % side] = r['stats']
        if r['sticky']:
            for msg in r['sticky']:
                res.violated(rule, '%s:callback-in-final-state' % side, msg)
        elif r['stats']['complete']:
            res.holds(rule, '%s:no-callback-in-final-state' % side, 'holds in all %d between-call abstract states' % r['stats']['between_call_states'])
        else:
            res.unknown(rule, '%s:exploration' % side, 'abstract state space not exhausted within the budget (%d states explored, none violating)' % r['stats']['between_call_states'])


def check_c05(db, res, budget_s=BUDGET, directions=('in', 'out')):
    res.rule('C05.c', 'callback order and no callback after completion, for all inputs, chunkings and callback return values: the automaton of hook events of the abstract system (finite typestate abstraction of the driver loop and every state function, extracted from the code) is included in the rank-monotonic specification')
    rs = lifecycle_results(db, budget_s, directions)
    for d in directions:
        r = rs[d]
        stats = r['stats']
        res.analysed['typestate %s' % r['side']] = stats
        side = r['side']

        class _L:
            pass
        lc = _L()
        lc.stats = stats
        lc.viol = collections.OrderedDict((tuple(k), (v[0], v[1])) for k, v in r['viol'])
        lc.progress_regress = collections.OrderedDict((tuple(k), v) for k, v in r['regress'])
        lc.sticky = collections.OrderedDict((i, m) for i, m in enumerate(r['sticky']))
        if not lc.stats['complete']:
            res.unknown('C05.c', '%s:exploration' % side, 'the abstract state space was not exhausted within %d s (%d between-call states, %d pending): inclusion is not established for this direction' % (budget_s, lc.stats['between_call_states'], lc.stats['pending']))
        for (sd, ev, m, kind, sf), (loc, stack) in lc.viol.items():
            prev = {'-1': 'a fresh transaction', '0': 'START', '1': 'LINE', '2': 'HEADERS', '3': 'BODY_DATA', '4': 'TRAILER', 'DONE': 'COMPLETE', 'NONE': 'no transaction'}.get(str(m), str(m))
            key = '%s:%s-after-%s:in:%s' % (sd, ev, prev.replace(' ', '-'), sf)
            res.violated('C05.c', key, 'abstract counterexample: the %s callback %s can be delivered after %s (%s) on a path through %s' % (sd, ev.upper(), prev, kind, ' > '.join(stack)), loc, stack=stack)
        for k, loc in lc.progress_regress.items():
            res.violated('C05.c', '%s:progress-regress:%s' % (k[0], k[3]), '%s progress can move from %s back to %s in %s' % (k[0], k[1], k[2], k[3]), loc)
        if lc.stats['complete'] and not [1 for k in lc.viol if k[0] == side]:
            res.holds('C05.c', '%s:inclusion' % side, 'all %d between-call abstract states explored (%d driver calls): every hook event sequence is rank-monotonic and nothing follows COMPLETE' % (lc.stats['between_call_states'], lc.stats['driver_calls']))
        elif lc.stats['complete']:
            res.info('C05.c', '%s:explored' % side, '%d between-call abstract states, %d driver calls' % (lc.stats['between_call_states'], lc.stats['driver_calls']))
        # sticky states (C09 / C16 thorough clause), reported under C05.c's run for reuse by those checks
        res.analysed['typestate %s sticky violations' % side] = list(lc.sticky.values())
    return res
