"""A5: ownership (DESIGN.md §2.2): owning fields are inferred from allocation sites, release sets from the
destructors' bodies (followed through helpers and local copies)."""
import collections
from .facts import S, strip, nodes, root_of, AnalysisBroken
from . import pat as P
from .nullness import Nullness, FREEISH


class Ownership:
    def __init__(self, db, nl=None):
        self.db = db
        self.nl = nl or Nullness(db)
        # fresh-memory allocators: may-fail functions that never return one of their own parameters
        self.alloc = set()
        for n in self.nl.mayfail:
            f = db.fn.get(n)
            if f is None:
                self.alloc.add(n)
                continue
            pn = {p['name'] for p in f.params}
            returns_param = any(P.K(st.get('e')) in pn for b, i, st in f.returns() if st.get('e') is not None)
            if not returns_param:
                self.alloc.add(n)
        self.alloc -= {'realloc'}
        self.outalloc = collections.defaultdict(set)
        self._outalloc_fixpoint()
        self.owning = collections.defaultdict(dict)     # rec -> field -> (function, loc)
        self._owning()
        self.dtors = collections.defaultdict(list)       # rec -> [function]
        self._dtors()

    def is_alloc_expr(self, e, fn, d=0):
        e = strip(e)
        if e is None:
            return False
        if e.get('k') == 'call' and e.get('callee') in self.alloc:
            return True
        if e.get('k') == 'cond':
            return self.is_alloc_expr(e.get('a'), fn, d) or self.is_alloc_expr(e.get('b'), fn, d)
        if e.get('k') == 'var' and d < 2 and e.get('decl') == 'local':
            return any(self.is_alloc_expr(x, fn, d + 1) for x in self.nl.defs(fn).get(e['name'], []))
        return False

    def _outalloc_fixpoint(self):
        ch = True
        while ch:
            ch = False
            for n, f in self.db.fn.items():
                pn = [p['name'] for p in f.params]
                for b, i, st in f.stmts():
                    for x in nodes(st, lambda y: y.get('k') == 'assign' and y['op'] == '='):
                        l = strip(x['l'])
                        if l.get('k') == 'un' and l['op'] == '*' and strip(l['e']).get('k') == 'var' and strip(l['e'])['name'] in pn:
                            idx = pn.index(strip(l['e'])['name'])
                            if self.is_alloc_expr(x['r'], f) and idx not in self.outalloc[f.name]:
                                self.outalloc[f.name].add(idx)
                                ch = True
                    for c in nodes(st, lambda y: y.get('k') == 'call' and y.get('callee') in self.outalloc):
                        for idx in list(self.outalloc[c['callee']]):
                            if idx < len(c['args']):
                                a = strip(c['args'][idx])
                                if a.get('k') == 'var' and a['name'] in pn and pn.index(a['name']) not in self.outalloc[f.name]:
                                    self.outalloc[f.name].add(pn.index(a['name']))
                                    ch = True

    def _owning(self):
        for n, f in self.db.fn.items():
            # pointers that this function also puts into an owning container are borrowed by the field
            inserted = set()
            for b, i, c in f.calls():
                if c.get('callee') in ('htp_list_array_push', 'htp_table_add', 'htp_table_addn', 'htp_table_addk'):
                    inserted.add(P.K(c['args'][-1]))
            for b, i, st in f.stmts():
                for x in nodes(st, lambda y: y.get('k') == 'assign' and y['op'] == '=' and strip(y['l']).get('k') == 'member'):
                    l = strip(x['l'])
                    if self.is_alloc_expr(x['r'], f):
                        r = strip(x['r'])
                        # result of an allocator that registers the object elsewhere itself (htp_tx_create adds tx to the list)
                        srcs = [r] if r.get('k') == 'call' else [strip(d) for d in self.nl.defs(f).get(r.get('name'), [])] if r.get('k') == 'var' else []
                        if any(s_ is not None and s_.get('k') == 'call' and self._self_registering(s_.get('callee')) for s_ in srcs):
                            continue
                        if P.K(x['r']) in inserted or P.K(x['l']) in inserted:
                            continue
                        self.owning[l.get('rec')].setdefault(l['field'], (f.name, x['loc']))
                for c in nodes(st, lambda y: y.get('k') == 'call' and y.get('callee') in self.outalloc):
                    for idx in self.outalloc[c['callee']]:
                        if idx < len(c['args']):
                            a = strip(c['args'][idx])
                            if a.get('k') == 'un' and a['op'] == '&' and strip(a['e']).get('k') == 'member':
                                m = strip(a['e'])
                                self.owning[m.get('rec')].setdefault(m['field'], (f.name, c['loc']))

    def _self_registering(self, name):
        f = self.db.fn.get(name or '')
        if not f:
            return False
        # transitively: the function (or what it returns from) pushes its result into a container
        seen = set()
        w = [f]
        while w:
            g = w.pop()
            if g.name in seen:
                continue
            seen.add(g.name)
            rets = {P.K(st.get('e')) for b, i, st in g.returns() if st.get('e') is not None}
            for b, i, c in g.calls():
                if c.get('callee') in ('htp_list_array_push',) and P.K(c['args'][-1]) in rets:
                    return True
            for b, i, st in g.returns():
                e = strip(st.get('e'))
                if e is not None and e.get('k') == 'var':
                    for d in self.nl.defs(g).get(e['name'], []):
                        d = strip(d)
                        if d is not None and d.get('k') == 'call' and d.get('callee') in self.db.fn:
                            w.append(self.db.fn[d['callee']])
        return False

    def _dtors(self):
        for n, f in self.db.fn.items():
            for pi, p in enumerate(f.params):
                t = p['t']
                if not (t.startswith('struct ') or t.startswith('const struct ')) or t.count('*') != 1:
                    continue
                rec = t.replace('const ', '').replace('struct ', '').replace('*', '').strip()
                # frees its own parameter (possibly through a local alias of it)
                aliases = {p['name']}
                for b, i, st in f.stmts():
                    for d in nodes(st, lambda y: y.get('k') == 'decl'):
                        for v in d['vars']:
                            if 'init' in v and P.K(v['init']) in aliases:
                                aliases.add(v['name'])
                if any(c.get('callee') == 'free' and P.K(c['args'][0]) in aliases for b, i, c in f.calls()):
                    self.dtors[rec].append((f.name, pi))
                    # a destructor of a "subclass" record that is passed as its base type
                    for v_t in {v['t'] for b, i, st in f.stmts() for d in nodes(st, lambda y: y.get('k') == 'decl') for v in d['vars'] if 'init' in v and P.K(v['init']) == p['name']}:
                        r2 = v_t.replace('struct ', '').replace('*', '').strip()
                        if r2 != rec and r2 in self.db.records:
                            self.dtors[r2].append((f.name, pi))

    def all_dtors(self, rec):
        """destructors of rec plus wrappers that call one of them on their own parameter of the same type"""
        out = list(self.dtors.get(rec, []))
        names = {d[0] for d in out}
        for n, f in self.db.fn.items():
            for pi, p in enumerate(f.params):
                if p['t'].replace('const ', '') == 'struct %s *' % rec and n not in names:
                    if any(c.get('callee') in names and c['args'] and P.K(c['args'][0]) == p['name'] for b, i, c in f.calls()):
                        out.append((n, pi))
        return out

    def released_inline(self):
        """(rec, field) released by any FREEISH call anywhere (for element records that have no destructor function)"""
        out = set()
        for f in self.db.fn.values():
            for b, i, c in f.calls():
                if FREEISH(c.get('callee') or '') and c['args']:
                    a0 = strip(c['args'][0])
                    if a0 is not None and a0.get('k') == 'member':
                        out.add((a0.get('rec'), a0['field']))
        return out

    def chain_released(self, rec, field):
        """linked 'next' fields: some loop reads X->field into a local and destroys X in the same loop"""
        from . import cfg as C
        for f in self.db.fn.values():
            for h, body in C.loops(f):
                reads = destroys = False
                for b in body:
                    for st in f.blocks[b]['stmts']:
                        for m in nodes(st, lambda y: y.get('k') == 'member' and y.get('rec') == rec and y['field'] == field):
                            reads = True
                        for c in nodes(st, lambda y: y.get('k') == 'call' and FREEISH(y.get('callee') or '')):
                            destroys = True
                if reads and destroys:
                    return True
        return False

    def released(self, fname, pi, seen=None):
        """(rec, field) released by function fname through its parameter pi (followed through helpers and local copies)"""
        seen = seen or set()
        if (fname, pi) in seen:
            return set()
        seen.add((fname, pi))
        f = self.db.fn[fname]
        pname = f.params[pi]['name']
        aliases = {pname}
        local_of = {}
        for b, i, st in f.stmts():
            for x in nodes(st, lambda y: y.get('k') in ('decl', 'assign')):
                pairs = [(v['name'], v['init']) for v in x['vars'] if 'init' in v] if x['k'] == 'decl' else ([(P.K(x['l']), x['r'])] if x['op'] == '=' and strip(x['l']).get('k') == 'var' else [])
                for name, init in pairs:
                    i0 = strip(init)
                    if P.K(i0) in aliases:
                        aliases.add(name)
                    elif i0 is not None and i0.get('k') == 'member' and P.K(root_of(i0)) in aliases:
                        local_of[name] = (i0.get('rec'), i0['field'])
        out = set()
        for b, i, c in f.calls():
            name = c.get('callee') or ''
            for ai, a in enumerate(c['args']):
                a0 = strip(a)
                if a0 is None:
                    continue
                if a0.get('k') == 'un' and a0['op'] == '&':
                    a0 = strip(a0['e'])
                direct = a0.get('k') == 'member' and P.K(root_of(a0)) in aliases
                vialocal = a0.get('k') == 'var' and a0['name'] in local_of
                if FREEISH(name) or name in ('close', 'unlink'):
                    if direct:
                        out.add((a0.get('rec'), a0['field']))
                    if vialocal:
                        out.add(local_of[a0['name']])
                elif name in self.db.fn:
                    g = self.db.fn[name]
                    if a0.get('k') == 'var' and a0['name'] in aliases and ai < len(g.params):
                        out |= self.released(name, ai, seen)
                    elif direct and ai < len(g.params) and any(fn_ == name for r_, ds in self.dtors.items() for fn_, pi_ in ds):
                        out.add((a0.get('rec'), a0['field']))
        return out
