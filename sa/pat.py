"""Shared pattern helpers: condition normalisation, facts at a block, path enumeration with branch atoms."""
from .facts import root_of, S, strip, nodes, walk, is_lit, lit_name, AnalysisBroken
from . import cfg as C

NEG = {'==': '!=', '!=': '==', '<': '>=', '>=': '<', '>': '<=', '<=': '>'}
SWAP = {'==': '==', '!=': '!=', '<': '>', '>': '<', '<=': '>=', '>=': '<='}


def K(e):
    """canonical key of an expression (casts stripped, literals by name when they have one; NULL is 0)"""
    e = strip(e)
    if e is not None and e.get('k') == 'lit' and e.get('name') == 'NULL':
        return '0'
    return S(e)


def canon(cond, pol=True):
    """normalise a branch condition with polarity to (lhs, op, rhs) strings, literals on the right; None if opaque"""
    c = strip(cond)
    if c is None:
        return None
    k = c.get('k')
    if k == 'un' and c['op'] == '!':
        return canon(c['e'], not pol)
    if k == 'bin' and c['op'] in NEG:
        l, r, op = strip(c['l']), strip(c['r']), c['op']
        if l.get('k') == 'lit' and r.get('k') != 'lit':
            l, r, op = r, l, SWAP[op]
        if not pol:
            op = NEG[op]
        return (K(l), op, K(r))
    if k == 'bin' and c['op'] == '&':
        return (K(c), '!=' if pol else '==', '0')
    if k in ('var', 'member', 'call', 'index') or (k == 'un' and c['op'] == '*'):
        return (K(c), '!=' if pol else '==', '0')
    if k == 'assign':
        return (K(c['l']), '!=' if pol else '==', '0')
    return (K(c), '!=' if pol else '==', '0')


def facts_at(fn, bid):
    """canonical facts that hold on entry to block bid (edge dominance); switch cases as (expr,'==',value)"""
    out = []
    for cond, pol, d in C.conditions_at(fn, bid):
        if isinstance(pol, tuple):
            if pol[1] != 'default' and cond is not None:
                out.append(((K(cond), '==', str(pol[1])), d))
            continue
        a = canon(cond, pol)
        if a:
            out.append((a, d))
    return out


def has_fact(fn, bid, pred):
    return [(a, d) for a, d in facts_at(fn, bid) if pred(a)]


def written_between(fn, edge, bid, idx, keypred):
    """is an l-value matching keypred written on some path from the branch edge (d, j) to statement
    (bid, idx) that does not pass through the branch block again?"""
    d, j = edge
    s = fn.blocks[d]['succs'][j]
    fwd = C.reachable(fn, s, avoid=(d,))
    back = set()
    w = [bid]
    while w:
        c = w.pop()
        if c in back or c == d:
            continue
        back.add(c)
        w += fn.preds.get(c, [])
    mid = back & fwd
    loops_to_bid = bid in {x for m in mid for x in fn.blocks[m]['succs'] if x is not None}
    for m in mid:
        b = fn.blocks[m]
        for i, st in enumerate(b['stmts']):
            if m == bid and i >= idx and not loops_to_bid:
                break
            if C.writes_in(st, keypred):
                if m == bid and i >= idx:
                    continue
                return (m, i, st)
    return None


def member_field(e):
    e = strip(e)
    return e['field'] if e is not None and e.get('k') == 'member' else None


def assigns_field(st, field, op=None):
    """assignment / inc-dec nodes inside st whose l-value is a member access to `field`"""
    out = []
    for x in nodes(st):
        if x['k'] == 'assign' and member_field(x['l']) == field and (op is None or x['op'] == op):
            out.append(x)
        elif x['k'] == 'un' and x['op'] in ('++', '--', '++post', '--post') and member_field(x['e']) == field and (op is None or op == x['op'][:2]):
            out.append(x)
    return out


def field_writes(fn, field):
    return [(bid, i, x) for bid, i, st in fn.stmts() for x in assigns_field(st, field)]


def hook_runs(st):
    """(hook field name, call node) for htp_hook_run_all/one calls in st"""
    out = []
    for c in nodes(st, lambda y: y.get('k') == 'call' and y.get('callee') in ('htp_hook_run_all', 'htp_hook_run_one')):
        a = strip(c['args'][0]) if c['args'] else None
        out.append((member_field(a) or K(a), c))
    return out


def ret_value(st):
    """the returned expression of a return statement (stripped), or None"""
    if st.get('k') != 'return':
        return None
    return strip(st.get('e'))


def enum_paths(fn, start, stop=None, max_paths=20000, edge_ok=None, cut_back_edges=True):
    """Enumerate acyclic paths from position start=(bid, idx) (just after that statement).
    Yields (atoms, events, end) where atoms = [(canon fact, branch block)] taken along the path,
    events = [(bid, idx, stmt)] every root statement passed, end = ('return', bid, idx, stmt) |
    ('exit', bid) | ('loop', bid) when a block is revisited | ('stop', bid, idx, stmt)."""
    return [(a, e, end) for a, e, end, seq in enum_paths_seq(fn, start, stop, max_paths, edge_ok, cut_back_edges)]


def enum_paths_seq(fn, start, stop=None, max_paths=20000, edge_ok=None, cut_back_edges=True, must_reach=None):
    """as enum_paths, with a fourth component: the interleaved sequence of ('stmt', bid, idx, stmt) and
    ('atom', fact, bid) in path order"""
    count = [0]
    out = []
    dom = C.dominators(fn)
    can = C.backward_blocks(fn, must_reach) if must_reach is not None else None

    def rec(bid, i0, atoms, events, visited, seq=()):
        if count[0] > max_paths:
            raise AnalysisBroken('path enumeration exceeded %d paths in %s' % (max_paths, fn.name))
        b = fn.blocks[bid]
        ev = list(events)
        seq = list(seq)
        for i in range(i0 + 1, len(b['stmts'])):
            st = b['stmts'][i]
            ev.append((bid, i, st))
            seq.append(('stmt', bid, i, st))
            if st.get('k') == 'return':
                count[0] += 1
                out.append((atoms, ev, ('return', bid, i, st), seq))
                return
            if stop is not None and stop(bid, i, st):
                count[0] += 1
                out.append((atoms, ev, ('stop', bid, i, st), seq))
                return
        succs = b['succs']
        if bid == fn.exit or not [s for s in succs if s is not None]:
            count[0] += 1
            out.append((atoms, ev, ('exit', bid), seq))
            return
        term = b.get('term', {})
        for j, s in enumerate(succs):
            if s is None:
                continue
            if edge_ok is not None and not edge_ok(bid, j):
                continue
            if can is not None and s not in can:
                continue
            na = atoms
            nseq = seq
            if len(succs) == 2 and b['stmts'] and term.get('kind') != 'SwitchStmt' and term.get('cond') is not None:
                a = canon(b['stmts'][-1], j == 0)
                if a:
                    na = atoms + [(a, bid)]
                    nseq = seq + [('atom', a, bid)]
            elif term.get('kind') == 'SwitchStmt':
                lab = fn.blocks[s].get('label', {})
                v = lab.get('v') if lab.get('kind') == 'CaseStmt' else 'default'
                a = (K(b['stmts'][-1]) if b['stmts'] else '?', 'case', str(v))
                na = atoms + [(a, bid)]
                nseq = seq + [('atom', a, bid)]
            if s in visited or (cut_back_edges and s in dom[bid]):
                count[0] += 1
                out.append((na, ev, ('loop', s), nseq))
                continue
            rec(s, -1, na, ev, visited | {s}, nseq)
    rec(start[0], start[1], [], [], {start[0]})
    return out


def state_functions(db, direction):
    """functions ever stored into connp->in_state / out_state (discovered from the code)"""
    sl = db.slots()
    return sorted(sl.get(('htp_connp_t', 'in_state' if direction == 'in' else 'out_state'), ()))


def call_name_of(e):
    e = strip(e)
    return e.get('callee') if e is not None and e.get('k') == 'call' else None


def accumulate_sites(fn):
    """memcpy(dst, src, n) calls whose length n is afterwards added to a counter field (`X->cnt += n`): the
    copy is an append into a buffer that is filled over several calls. Yields (block, idx, call, counter key,
    ok) where ok says that dst is `<buffer> + <counter>`."""
    out = []
    for b, i, c in fn.calls('memcpy'):
        n = K(c['args'][2])
        if strip(c['args'][2]).get('k') == 'lit':
            continue
        counters = []
        for bb, ii, st in fn.stmts():
            for a in nodes(st, lambda y: y.get('k') == 'assign' and y['op'] == '+=' and K(y['r']) == n and strip(y['l']).get('k') == 'member'):
                if bb == b and ii > i or (bb != b and b in C.dominators(fn)[bb]):
                    counters.append(K(a['l']))
        dst = K(c['args'][0])
        for cnt in counters:
            root = cnt.split('->')[0].split('.')[0]
            if not dst.lstrip('(').startswith(root):
                continue            # counter of some other object
            out.append((b, i, c, cnt, ('+ ' + cnt) in dst))
    return out


def stable_keys(fn):
    """l-value keys that the function never writes (parameters / fields it only reads): facts on them cannot change along a path"""
    if getattr(fn, '_written', None) is None:
        w = set()
        for b, i, st in fn.stmts():
            for x in nodes(st):
                if x['k'] == 'assign':
                    w.add(K(x['l']))
                elif x['k'] == 'un' and x['op'] in ('++', '--', '++post', '--post'):
                    w.add(K(x['e']))
                elif x['k'] == 'decl':
                    for v in x['vars']:
                        w.add(v['name'])
                elif x['k'] == 'call':
                    for a in x['args']:
                        a = strip(a)
                        if a is not None and a.get('k') == 'un' and a['op'] == '&':
                            w.add(K(a['e']))
        fn._written = w
    return fn._written


def feasible(fn, facts):
    """False when the path facts contain a fact and its negation on a key the function never writes"""
    written = stable_keys(fn)
    s = set(facts)
    for l, op, r in facts:
        if l in written or '(' in l:
            continue
        if op in NEG and (l, NEG[op], r) in s:
            return False
    return True


def flag_feasible(fn, seq):
    """replay a path (enum_paths_seq sequence) against the function's flag locals (locals that only ever hold literal
    constants): False when a branch taken on a flag contradicts the constant it holds at that point; also False when two
    `==` facts bind one never-written key to different constants"""
    from . import guards as G
    flags = getattr(fn, '_flags', None)
    if flags is None:
        flags = fn._flags = set(G.flag_locals(fn))
    cur = {}
    eqs = {}
    written = stable_keys(fn)
    for x in seq:
        if x[0] == 'stmt':
            for a in nodes(x[3], lambda y: y.get('k') == 'assign' and y['op'] == '=' and strip(y['l']).get('k') == 'var' and strip(y['l'])['name'] in flags and is_lit(strip(y['r']))):
                cur[strip(a['l'])['name']] = strip(a['r'])['v']
            for d in nodes(x[3], lambda y: y.get('k') == 'decl'):
                for v in d['vars']:
                    if v['name'] in flags and 'init' in v and is_lit(strip(v['init'])):
                        cur[v['name']] = strip(v['init'])['v']
        else:
            l, op, r = x[1]
            if l in cur and op in ('==', '!=') and (r == '0' or r.lstrip('-').isdigit()):
                if (cur[l] == int(r)) != (op == '=='):
                    return False
            if op == '==' and l not in written and '(' not in l:
                if l in eqs and eqs[l] != r and (r.lstrip('-').isdigit() or r.isupper()) and (eqs[l].lstrip('-').isdigit() or eqs[l].isupper()):
                    return False
                eqs.setdefault(l, r)
    return True


def local_init_from(fn, pred):
    """name of the local whose declaration (or single assignment) is initialised by an expression satisfying pred(stripped expr)"""
    for b, i, st in fn.stmts():
        for x in nodes(st, lambda y: y.get('k') in ('decl', 'assign')):
            if x['k'] == 'decl':
                for v in x['vars']:
                    if 'init' in v and pred(strip(v['init'])):
                        return v['name']
            elif x['op'] == '=' and strip(x['l']).get('k') == 'var' and pred(strip(x['r'])):
                return strip(x['l'])['name']
    return None


def table_lookup_local(fn, header):
    """local that holds htp_table_get_c(<table>, "<header>")"""
    return local_init_from(fn, lambda e: e is not None and e.get('k') == 'call' and e.get('callee') == 'htp_table_get_c' and len(e['args']) > 1 and strip(e['args'][1]).get('k') == 'str' and strip(e['args'][1])['v'] == header)


WRITERS = {'memcpy': (0,), 'memmove': (0,), 'memset': (0,), 'strncpy': (0,), 'strcpy': (0,), 'snprintf': (0,), 'vsnprintf': (0,), 'strlcat': (0,), 'free': (0,), 'realloc': (0,)}


def writes_param(db, fname, pi, depth=0, seen=()):
    """may the function store through (or release) what its parameter #pi points to?  True / False; unknown callees and
    unresolved indirect calls count as True unless the parameter type is pointer-to-const"""
    f = db.fn.get(fname)
    if f is None:
        return fname not in ('strlen', 'memcmp', 'strcmp', 'strncmp', 'memchr', 'strchr', 'isspace', 'isdigit') if fname not in WRITERS else pi in WRITERS[fname]
    if pi >= len(f.params):
        return True
    if f.params[pi]['t'].startswith('const '):
        return False
    if depth > 4 or (fname, pi) in seen:
        return False
    names = {f.params[pi]['name']}
    # local aliases: q = p (+ k) / q = (T *) p
    ch = True
    while ch:
        ch = False
        for b, i, st in f.stmts():
            for x in nodes(st, lambda y: y.get('k') in ('assign', 'decl')):
                items = [(strip(x['l']), x['r'])] if x['k'] == 'assign' and x['op'] == '=' else [({'k': 'var', 'name': v['name']}, v['init']) for v in x.get('vars', []) if 'init' in v] if x['k'] == 'decl' else []
                for l, r in items:
                    if l is None or l.get('k') != 'var' or l['name'] in names:
                        continue
                    r0 = strip(r)
                    while r0 is not None and r0.get('k') == 'bin' and r0['op'] in ('+', '-'):
                        r0 = strip(r0['l'])
                    if r0 is not None and r0.get('k') == 'cond':
                        cands = [strip(r0.get('a')), strip(r0.get('b'))]
                    else:
                        cands = [r0]
                    for c_ in cands:
                        while c_ is not None and c_.get('k') == 'bin' and c_['op'] in ('+', '-'):
                            c_ = strip(c_['l'])
                        if c_ is not None and ((c_.get('k') == 'var' and c_['name'] in names) or (c_.get('k') == 'member' and (root_of(c_) or {}).get('name') in names and '*' in (c_.get('t') or ''))):
                            names.add(l['name'])
                            ch = True
    from .facts import root_of as _r
    for b, i, st in f.stmts():
        for x in nodes(st):
            if x['k'] == 'assign' or (x['k'] == 'un' and x['op'] in ('++', '--', '++post', '--post')):
                l = strip(x.get('l') if x['k'] == 'assign' else x['e'])
                if l is not None and l.get('k') in ('index', 'member') or (l is not None and l.get('k') == 'un' and l['op'] == '*'):
                    r = _r(l)
                    if r is not None and r.get('k') == 'var' and r['name'] in names:
                        return True
            elif x['k'] == 'call':
                for ai, a in enumerate(x['args']):
                    a0 = strip(a)
                    while a0 is not None and a0.get('k') == 'bin' and a0['op'] in ('+', '-'):
                        a0 = strip(a0['l'])
                    r = _r(a0) if a0 is not None else None
                    if r is not None and r.get('k') == 'var' and r['name'] in names and '*' in ((a0 or {}).get('t') or '*'):
                        cal = x.get('callee')
                        if cal is None:
                            return True
                        if writes_param(db, cal, ai, depth + 1, seen + ((fname, pi),)):
                            return True
    return False
