"""C12 — path decoding and normalisation (DESIGN.md §4.12). Equality with a reference decoder is not decided."""
import re
from ..facts import load, S, strip, nodes, is_lit, lit_name, root_of, AnalysisBroken
from ..report import Result
from .. import cfg as C
from .. import pat as P

TECHNIQUE = 'call-order (must-precede) rule on the normalisation pipeline; guarded-write rule for every in-place routine (write index tested against the length since its last increment); call-graph reachability of anomaly raise sites; bijection between configuration setters and decoder fields'
PATH_FLAGS = ['HTP_PATH_INVALID_ENCODING', 'HTP_PATH_ENCODED_NUL', 'HTP_PATH_RAW_NUL', 'HTP_PATH_ENCODED_SEPARATOR', 'HTP_PATH_UTF8_OVERLONG', 'HTP_PATH_UTF8_INVALID', 'HTP_PATH_HALF_FULL_RANGE']


def inplace_functions(db):
    """functions that write through data[wpos++]-style indices and finish with bstr_adjust_len (discovered)"""
    out = []
    for n, f in sorted(db.fn.items()):
        if f.calls('bstr_adjust_len') and any(x for b, i, st in f.stmts() for x in nodes(st, lambda y: y.get('k') == 'assign' and strip(y['l']).get('k') == 'index')):
            out.append(f)
    return out


def run(repo='/repo', tier='quick'):
    res = Result('C12')
    db = load(repo)
    res.rule('C12.a', 'pipeline order in htp_normalize_parsed_uri: decode -> (UTF-8 best-fit | UTF-8 validate) -> dot-segment removal, on every path of the path arm')
    res.rule('C12.b', 'never longer: in every in-place routine each write data[w++] is on the true edge of (w < len) with no increment of w since, and the result length is set from w')
    res.rule('C12.c', 'every anomaly indicator named in the statement has a raise site reachable from the path pipeline; NUL indicators are raised under a test of the (decoded) byte against 0')
    res.rule('C12.d', 'decoder configuration wiring: each setter writes one field of htp_decoder_cfg_t from its parameter (same field for the context and for the defaults loop), no field has two setters, every field has one, every field is read by the decoders')
    # ---------------- C12.a
    f = db.get('htp_normalize_parsed_uri')
    order = ['htp_decode_path_inplace', ('htp_utf8_decode_path_inplace', 'htp_utf8_validate_path'), 'htp_normalize_uri_path_inplace']
    last = f.calls('htp_normalize_uri_path_inplace')
    if not last:
        res.violated('C12.a', 'pipeline:dot-segment-pass', 'htp_normalize_parsed_uri no longer calls htp_normalize_uri_path_inplace', f.loc)
    for b, i, c in last:
        n = 0
        bad = None
        # region: from the store of normalized->path
        stores = [(bb, ii) for bb, ii, x in P.field_writes(f, 'path') if P.K(x['l']) == 'normalized->path']
        if not stores:
            raise AnalysisBroken('store to normalized->path not found')
        for atoms, events, end, seq in P.enum_paths_seq(f, stores[0], stop=lambda bb, ii, st: (bb, ii) == (b, i)):
            if end[0] != 'stop':
                continue
            n += 1
            calls = [c2.get('callee') for x in seq if x[0] == 'stmt' for c2 in nodes(x[3], lambda y: y.get('k') == 'call')]
            seqn = [c2 for c2 in calls if c2 in ('htp_decode_path_inplace', 'htp_utf8_decode_path_inplace', 'htp_utf8_validate_path', 'htp_normalize_uri_path_inplace')]
            ok = len(seqn) == 3 and seqn[0] == order[0] and seqn[1] in order[1] and seqn[2] == order[2]
            if not ok:
                bad = seqn
            # all three operate on normalized->path
        res.check(bad is None and n > 0, 'C12.a', 'pipeline:order', 'all %d paths of the path arm run decode, then UTF-8 handling, then dot-segment removal' % n,
                  'a path of the path arm runs the passes as %s (documented: decode, UTF-8 best-fit or validation, dot-segment removal last)' % bad, c['loc'])
    for name in ('htp_decode_path_inplace', 'htp_utf8_decode_path_inplace', 'htp_utf8_validate_path', 'htp_normalize_uri_path_inplace'):
        for b, i, c in f.calls(name):
            arg = [P.K(a) for a in c['args'] if P.K(a) == 'normalized->path']
            res.check(bool(arg), 'C12.a', 'pipeline:%s:operand' % name, 'operates on normalized->path', '%s is not applied to normalized->path' % name, c['loc'])
    # best-fit arm selection
    for b, i, c in f.calls('htp_utf8_decode_path_inplace'):
        ok = any(a[0].endswith('utf8_convert_bestfit') and a[1] == '!=' and a[2] == '0' for a, e in P.facts_at(f, b))
        res.check(ok, 'C12.a', 'pipeline:bestfit-arm', 'best-fit conversion is selected by utf8_convert_bestfit', 'best-fit conversion is not selected by utf8_convert_bestfit', c['loc'])

    # ---------------- C12.b
    fs = inplace_functions(db)
    res.analysed['in-place routines'] = [g.name for g in fs]
    nsites = 0
    for g in fs:
        lps = C.loops(g)
        for b, i, st in g.stmts():
            for w in nodes(st, lambda y: y.get('k') == 'assign' and strip(y['l']).get('k') == 'index'):
                idx = strip(strip(w['l'])['idx'])
                if not (idx.get('k') == 'un' and idx['op'] == '++post' and strip(idx['e']).get('k') == 'var'):
                    continue
                wv = strip(idx['e'])['name']
                nsites += 1
                key = '%s:write:%s[%s++]@%s' % (g.name, P.K(strip(w['l'])['base']), wv, '|'.join('%s%s%s' % a for a, e in P.facts_at(g, b)[-2:]))

                def gen_edge(bb, j, wv=wv):
                    c_ = g.cond_of(bb)
                    if not c_:
                        return False
                    a = P.canon(c_[0], j == 0)
                    return bool(a) and a[0] == wv and a[1] == '<'

                def kills(s, wv=wv):
                    return bool(nodes(s, lambda y: (y.get('k') == 'un' and y['op'] in ('++', '++post') and P.K(y['e']) == wv) or (y.get('k') == 'assign' and P.K(y['l']) == wv and y['op'] not in ('-=',))))
                before = C.must_hold(g, gen_edge, kills)
                own = len(nodes(st, lambda y: y.get('k') == 'un' and y['op'] in ('++', '++post') and P.K(y['e']) == wv))
                ok = before(b, i) and own == 1
                res.check(ok, 'C12.b', key, 'on every path the write is preceded by a `%s < ...` test with no increment of %s in between' % (wv, wv),
                          'a path reaches this write without a fresh `%s < len` test since the last increment of %s: the in-place result can grow past the input (out-of-bounds write)' % (wv, wv), w['loc'])
        # result length
        for b, i, c in g.calls('bstr_adjust_len'):
            a1 = P.K(c['args'][1])
            wvars = {strip(strip(strip(w['l'])['idx'])['e'])['name'] for bb, ii, st in g.stmts() for w in nodes(st, lambda y: y.get('k') == 'assign' and strip(y['l']).get('k') == 'index')
                     if strip(strip(w['l'])['idx']).get('k') == 'un' and strip(strip(strip(w['l'])['idx'])['e']).get('k') == 'var'}
            if wvars and any(P.K(strip(strip(w['l'])['base'])) == 'data' for bb, ii, st in g.stmts() for w in nodes(st, lambda y: y.get('k') == 'assign' and strip(y['l']).get('k') == 'index')) and g.name != 'htp_extract_quoted_string_as_bstr':
                res.check(a1 in wvars, 'C12.b', '%s:adjust_len(%s)' % (g.name, a1), 'result length is the write index', 'bstr_adjust_len is called with %s, not with the write index %s' % (a1, sorted(wvars)), c['loc'])
    res.floor('C12.b', 'guarded write sites in in-place routines', nsites, 10)
    # every normal exit of the four pipeline routines sets the length
    for name in ('htp_decode_path_inplace', 'htp_urldecode_inplace_ex', 'htp_utf8_decode_path_inplace', 'htp_normalize_uri_path_inplace'):
        g = db.get(name)
        adj = {b for b, i, c in g.calls('bstr_adjust_len')}
        dom = C.dominators(g)
        hdrs = [h for h, body in C.loops(g)]
        after_loop = set()
        for h in hdrs:
            after_loop |= C.reachable(g, h)
        for b, i, st in g.returns() or []:
            rv = P.ret_value(st)
            if rv is not None and lit_name(rv) == 'HTP_ERROR':
                continue
            if b not in after_loop:
                continue                                   # argument checks before any byte was touched
            ok = b in adj
            res.check(ok, 'C12.b', '%s:return-sets-length' % name, 'every non-error return is preceded by bstr_adjust_len in its block', '%s returns without adjusting the length to the write index' % name, st['loc'])
        if not g.returns():
            preds = g.preds.get(g.exit, [])
            res.check(all(p in adj for p in preds), 'C12.b', '%s:exit-sets-length' % name, 'the routine ends with bstr_adjust_len', '%s ends without adjusting the length' % name, g.loc)

    # ---------------- C12.c
    pipeline = db.reach(['htp_decode_path_inplace', 'htp_utf8_decode_path_inplace', 'htp_utf8_validate_path'])
    raise_sites = {}
    for n in pipeline:
        g = db.fn.get(n)
        if not g:
            continue
        for b, i, st in g.stmts():
            for a in nodes(st, lambda y: y.get('k') == 'assign' and y['op'] == '|='):
                for l in nodes(a['r'], lambda y: y.get('k') == 'lit' and y.get('name') in PATH_FLAGS):
                    raise_sites.setdefault(l['name'], []).append((g, b, a))
    for fl in PATH_FLAGS:
        res.check(fl in raise_sites, 'C12.c', 'raise-site:' + fl, '%d raise site(s) in the path pipeline' % len(raise_sites.get(fl, [])),
                  '%s is named by the statement but nothing reachable from the path pipeline (decode / UTF-8 passes) ever raises it' % fl, db.get('htp_decode_path_inplace').loc)
    for fl in ('HTP_PATH_ENCODED_NUL', 'HTP_PATH_RAW_NUL'):
        for g, b, a in raise_sites.get(fl, []):
            ok = any(x[1] == '==' and x[2] == '0' for x, e in P.facts_at(g, b))
            res.check(ok, 'C12.c', '%s:%s:under-zero-test' % (g.name, fl), 'raised under a byte == 0 test', '%s is raised without a dominating test of the byte against 0' % fl, a['loc'])
    # encoded vs raw: ENCODED_NUL only inside the '%' arm, RAW_NUL only outside
    for fl, want in (('HTP_PATH_ENCODED_NUL', '=='), ('HTP_PATH_RAW_NUL', '!=')):
        for g, b, a in raise_sites.get(fl, []):
            if g.name != 'htp_decode_path_inplace':
                continue
            pct = [x for x, e in P.facts_at(g, b) if x[0] == 'c' and x[2] in ('37', "'%'", '%')]
            ok = any(x[1] == want for x in pct)
            res.check(ok or not pct and False, 'C12.c', '%s:%s:arm' % (g.name, fl), 'raised in the %s arm' % ('percent-encoded' if want == '==' else 'raw byte'),
                      '%s is raised in the wrong arm of the percent test' % fl, a['loc'])

    # every byte produced by the %u path decoder goes through the encoded-separator test before it is returned
    g = db.get('decode_u_encoding_path')
    nret = 0
    for b, i, st in g.returns():
        rv = P.ret_value(st)
        if rv is None:
            continue
        nret += 1
        rk = P.K(rv)
        passed = False
        # some block that dominates the return tests the returned value against '/'
        dom = C.dominators(g)
        for tb in g.blocks:
            cnd = g.cond_of(tb)
            if cnd and tb in dom[b]:
                a = P.canon(cnd[0])
                if a and a[0] == rk and a[1] == '==' and a[2] in ("'/'", '47'):
                    tsucc = g.blocks[tb]['succs'][0]
                    raises = any(l.get('name') == 'HTP_PATH_ENCODED_SEPARATOR' for bb in C.reachable(g, tsucc) for s2 in g.blocks[bb]['stmts'] for aa in nodes(s2, lambda y: y.get('k') == 'assign' and y['op'] == '|=') for l in nodes(aa['r'], lambda y: y.get('k') == 'lit'))
                    passed = raises and not C.written_between_simple(g, tb, b, rk) if hasattr(C, 'written_between_simple') else raises
        res.check(passed, 'C12.c', 'decode_u_encoding_path:separator-test-before-return', 'the decoded byte is tested for an encoded separator (and HTP_PATH_ENCODED_SEPARATOR raised) before every return',
                  'decode_u_encoding_path can return a decoded byte (%s) that never went through the encoded-separator test: %%u002f would decode to / without HTP_PATH_ENCODED_SEPARATOR' % rk, st['loc'])
    res.floor('C12.c', 'returns of decode_u_encoding_path', nret, 1)

    # every NUL test of the two decoders is followed by its indicator (sibling arms agree)
    for gname, enc, raw in (('htp_decode_path_inplace', 'HTP_PATH_ENCODED_NUL', 'HTP_PATH_RAW_NUL'), ('htp_urldecode_inplace_ex', 'HTP_URLEN_ENCODED_NUL', 'HTP_URLEN_RAW_NUL')):
        g = db.get(gname)
        ntests = 0
        for b in g.blocks:
            cnd = g.cond_of(b)
            if not cnd or P.canon(cnd[0]) != ('c', '==', '0'):
                continue
            ntests += 1
            inpct = any(x[0] == 'c' and x[1] == '==' and x[2] in ('37', "'%'") for x, e in P.facts_at(g, b))
            want = enc if inpct else raw
            tb = g.blocks[b]['succs'][0]
            region = C.edge_dominated(g).get((b, 0), set())
            escaped = [False]

            def visit(bb, ii, st, want=want):
                if bb not in region:
                    escaped[0] = True
                    return True
                if any(l.get('name') == want for a in nodes(st, lambda y: y.get('k') == 'assign' and y['op'] == '|=') for l in nodes(a['r'], lambda y: y.get('k') == 'lit')):
                    return True
                if st.get('k') == 'return':
                    escaped[0] = True
                    return True
                return False
            ends, ex = C.forward(g, (tb, -1), visit, edge_ok=lambda bb, j: True)
            # leaving the region through an empty block also counts as escaping
            for e_ in ends:
                for s_ in g.blocks[e_]['succs']:
                    if s_ is not None and s_ not in region:
                        escaped[0] = True
            got = [] if escaped[0] else [want]
            arm = 'percent-arm' if inpct else 'raw-arm'
            idx = sum(1 for o in res.obs if o['key'].startswith('%s:nul-test:%s' % (gname, arm)))
            res.check(want in got, 'C12.c', '%s:nul-test:%s:%d' % (gname, arm, idx), 'a (decoded) NUL raises %s' % want,
                      'the %s of %s tests the byte against 0 but does not raise %s there (its sibling arms do)' % (arm, gname, want), cnd[0]['loc'])
        res.floor('C12.c', 'NUL tests in ' + gname, ntests, 2)

    # ---------------- C12.d
    rec = db.records.get('htp_decoder_cfg_t')
    if not rec:
        raise AnalysisBroken('htp_decoder_cfg_t not found')
    fields = [x['name'] for x in rec['fields']]
    writers = {}
    for n, g in sorted(db.fn.items()):
        if g.unit != 'htp_config':
            continue
        per = {}
        for b, i, st in g.stmts():
            for a in nodes(st, lambda y: y.get('k') == 'assign' and y['op'] == '=' and strip(y['l']).get('k') == 'member' and strip(y['l']).get('rec') == 'htp_decoder_cfg_t'):
                l = strip(a['l'])
                idx = strip(strip(l['base']).get('idx')) if strip(l['base']).get('k') == 'index' else None
                kind = 'ctx' if idx is not None and idx.get('k') == 'var' and idx.get('decl') == 'param' else 'loop' if idx is not None and idx.get('k') == 'var' else 'other'
                per.setdefault(kind, []).append((l['field'], a))
        if 'ctx' in per and g.name.startswith('htp_config_set_'):
            fctx = {fl for fl, a in per['ctx']}
            floop = {fl for fl, a in per.get('loop', [])}
            key = g.name
            if len(fctx) != 1 or (floop and floop != fctx):
                res.violated('C12.d', key + ':one-field', 'setter writes %s for the context but %s in the defaults loop' % (sorted(fctx), sorted(floop)), g.loc)
                continue
            fld = next(iter(fctx))
            # value comes from the last parameter
            pname = g.params[-1]['name']
            okv = all(any(v.get('name') == pname for v in nodes(a['r'], lambda y: y.get('k') == 'var')) for fl, a in per['ctx'] + per.get('loop', []))
            res.check(okv and bool(floop), 'C12.d', key + ':writes-parameter', 'writes %s from its parameter, for the context and in the defaults loop' % fld,
                      'setter does not store its parameter into %s for both the context and the defaults' % fld, g.loc)
            writers.setdefault(fld, []).append(g.name)
    for fld in fields:
        ws = writers.get(fld, [])
        if len(ws) == 1:
            res.holds('C12.d', 'field:' + fld, 'set by ' + ws[0])
        elif not ws:
            res.violated('C12.d', 'field:%s:no-setter' % fld, 'decoder option %s has no setter: it can never be configured (some setter writes a different field)' % fld, '')
        else:
            res.violated('C12.d', 'field:%s:setters:%s' % (fld, '+'.join(sorted(ws))), 'decoder option %s is written by %d setters (%s): one of them is wired to the wrong field' % (fld, len(ws), ', '.join(sorted(ws))), db.get(sorted(ws)[-1]).loc)
    # every field is read outside htp_config.c
    for fld in fields:
        readers = {g.name for g in db.fn.values() if g.unit != 'htp_config' for b, i, st in g.stmts()
                   for m in nodes(st, lambda y: y.get('k') == 'member' and y.get('rec') == 'htp_decoder_cfg_t' and y['field'] == fld)}
        if readers:
            res.holds('C12.d', 'field:%s:read' % fld, 'read by ' + ', '.join(sorted(readers)[:3]))
        else:
            res.info('C12.d', 'field:%s:unread' % fld, 'decoder option %s is never read by a decoder' % fld)
    # ---------------- C12.e the decoder configuration is the transaction's own
    res.rule('C12.e', 'per-transaction configuration: wherever a transaction is at hand, decoder options are read through tx->cfg (a local or parameter bound to it), never through the connection parser\'s configuration')
    nsrc = 0
    for n_, g in sorted(db.fn.items()):
        if g.unit == 'htp_config':
            continue
        has_tx = any('htp_tx_t' in p_['t'] for p_ in g.params)
        if not has_tx:
            continue
        srcs = []
        for b, i, st in g.stmts():
            for m in nodes(st, lambda y: y.get('k') == 'member' and y['field'] == 'decoder_cfgs'):
                srcs.append((P.K(m['base']), m))
            for cl in nodes(st, lambda y: y.get('k') == 'call' and y.get('callee') in ('htp_urldecode_inplace_ex', 'htp_utf8_decode_path_inplace', 'htp_urldecode_inplace')):
                srcs.append((P.K(cl['args'][0]), cl))
            for d in nodes(st, lambda y: y.get('k') == 'decl'):
                for v in d['vars']:
                    if 'htp_cfg_t' in v['t'] and 'init' in v:
                        srcs.append((P.K(v['init']), v['init']))
        for src, node in srcs:
            if src in ('cfg',) or src in [p_['name'] for p_ in g.params]:
                continue
            nsrc += 1
            ok = src.endswith('tx->cfg') and '->connp->cfg' not in src
            res.check(ok, 'C12.e', '%s:decoder-cfg-from:%s' % (n_, src), 'decoder options come from the transaction\'s configuration',
                      '%s takes the decoder configuration from %s although it has the transaction: a transaction with its own configuration (htp_tx_set_config) is decoded with the connection\'s settings' % (n_, src), node.get('loc', g.loc))
    res.floor('C12.e', 'decoder configuration sources in functions that have a tx', nsrc, 4)
    res.assumptions.append('equality with the documented pipeline on values, idempotence and "no dot segment remains" are not decided')
    c12f(db, res)
    c12g(db, res)
    c12h(db, res)
    c12i(db, res)
    c12j(db, res)
    c12k(db, res)
    c12l(db, res)
    c12m(db, res)
    return res


def _hex_offsets(db, callee, seen=()):
    """offsets (relative to its pointer parameter) of the bytes a hex decoder reads as hex digits: x2c(p) reads p[0], p[1]"""
    if callee == 'x2c':
        return {0, 1}
    f = db.fn.get(callee)
    if f is None or callee in seen:
        return None
    ptrs = [p['name'] for p in f.params if 'char *' in p['t']]
    out = set()
    for b, i, c in f.calls():
        sub = _hex_offsets(db, c.get('callee'), seen + (callee,)) if c.get('callee') in ('x2c',) or (c.get('callee') or '').startswith('decode_u_encoding') else None
        if sub is None:
            continue
        a = strip(c['args'][0] if c['callee'] == 'x2c' else [x for x in c['args'] if 'char *' in (strip(x) or {}).get('t', '')][0])
        k = None
        if a.get('k') == 'var' and a['name'] in ptrs:
            k = 0
        elif a.get('k') == 'bin' and a['op'] == '+' and strip(a['l']).get('k') == 'var' and strip(a['l'])['name'] in ptrs and is_lit(strip(a['r'])):
            k = strip(a['r'])['v']
        elif a.get('k') == 'un' and a['op'] == '&' and strip(a['e']).get('k') == 'index' and is_lit(strip(strip(a['e'])['idx'])):
            k = strip(strip(a['e'])['idx'])['v']
        if k is None:
            return None
        out |= {k + o for o in sub}
    return out or None


def c12f(db, res):
    """Valid encodings only: %HH / %uHHHH are decoded as valid only when every byte read as a hex digit was tested with
    isxdigit on the way; decoding unvalidated bytes is confined to the arms selected by url_encoding_invalid_handling."""
    from .. import guards as G
    res.rule('C12.f', 'hex validation covers exactly the decoded bytes: at every call of x2c / decode_u_encoding_* each byte the callee reads as a hex digit was tested isxdigit() on a dominating edge, unless the call sits in an arm selected by url_encoding_invalid_handling (process-invalid mode)')
    n = 0
    for name, f in sorted(db.fn.items()):
        for b, i, c in f.calls():
            cal = c.get('callee') or ''
            if not (cal == 'x2c' or cal.startswith('decode_u_encoding')) or name.startswith('decode_u_encoding'):
                continue
            offs = _hex_offsets(db, cal)
            ptr = [x for x in c['args'] if 'char *' in (strip(x) or {}).get('t', '')]
            a = strip(ptr[0]) if ptr else None
            if offs is None or a is None or a.get('k') != 'un' or a['op'] != '&' or strip(a['e']).get('k') != 'index':
                res.unknown('C12.f', '%s:%s' % (name, P.K(c)[:50]), 'hex decoder called with an argument shape that is not &A[E]', c['loc'])
                continue
            n += 1
            A, t = P.K(strip(a['e'])['base']), G.term(strip(a['e'])['idx'])
            need = {(A, t[0], t[1] + o) for o in offs} if t else None
            checked, invalid_arm = set(), False
            for atom, (cb, j) in P.facts_at(f, b):
                if atom[0].endswith('url_encoding_invalid_handling'):
                    invalid_arm = True
                cond = f.blocks[cb]['stmts'][-1] if f.blocks[cb]['stmts'] else None
                if cond is None or not (atom[1] == '!=' and atom[2] == '0'):
                    continue
                for m in nodes(cond, lambda y: y.get('k') == 'bin' and y['op'] == '&' and is_lit(strip(y['r']), 4096)):
                    for ix in nodes(m['l'], lambda y: y.get('k') == 'index' and 'ctype' not in P.K(y['base'])):
                        tt = G.term(ix['idx'])
                        if tt:
                            checked.add((P.K(ix['base']), tt[0], tt[1]))
            key = '%s:%s' % (name, P.K(c)[:60]) + (':process-invalid' if invalid_arm else '')
            if need is not None and need <= checked:
                res.holds('C12.f', key, 'isxdigit() was tested on offsets %s' % sorted(o for _, _, o in need), c['loc'])
            elif invalid_arm:
                res.holds('C12.f', key, 'in an arm selected by url_encoding_invalid_handling (decoding of invalid digits is the configured behaviour)', c['loc'])
            else:
                miss = sorted(o for (_, _, o) in (need or set()) - checked)
                res.violated('C12.f', key, 'decodes bytes at offsets %s of %s as hex digits without an isxdigit() test on them (tested: %s): an invalid encoding is accepted as valid, decoded to a garbage byte and the invalid-encoding indicator is not raised'
                             % (miss, A, sorted(o for _, _, o in checked)), c['loc'])
    res.floor('C12.f', 'hex decode call sites', n, 8)


def c12g(db, res):
    """UTF-8 scanners count the bytes of the current character (overlong = more bytes than the code point needs). The
    count is only meaningful if it restarts at every character boundary: whenever an iteration leaves the decoder in the
    ACCEPT state (the decoder accepted, or the scanner reset it after a reject) the byte counter is set back to 0."""
    res.rule('C12.g', 'UTF-8 character boundaries: in every scanner loop over htp_utf8_decode_allow_overlong, each iteration path that ends with the decoder state ACCEPT (accept arm, or state reset after reject) resets the byte counter to 0, and the continuation arm does not')
    n = 0
    for name, f in sorted(db.fn.items()):
        for b, blk in f.blocks.items():
            if blk.get('term', {}).get('kind') != 'SwitchStmt' or not blk['stmts']:
                continue
            sc = strip(blk['stmts'][-1])
            if sc is None or sc.get('k') != 'call' or sc.get('callee') != 'htp_utf8_decode_allow_overlong':
                continue
            a0 = strip(sc['args'][0])
            if a0.get('k') != 'un' or a0['op'] != '&' or strip(a0['e']).get('k') != 'var':
                continue
            st_var = strip(a0['e'])['name']
            accept = None
            for bb, ii, s2 in f.stmts():
                for d in nodes(s2, lambda y: y.get('k') == 'decl'):
                    for v in d['vars']:
                        if v['name'] == st_var and 'init' in v and is_lit(strip(v['init'])):
                            accept = strip(v['init'])['v']
            inner = [body for h, body in C.loops(f) if b in body]
            if accept is None or not inner:
                continue
            body = min(inner, key=len)
            incs = {}
            for bb in body:
                for s2 in f.blocks[bb]['stmts']:
                    for u in nodes(s2, lambda y: y.get('k') == 'un' and y['op'] in ('++', '++post') and strip(y['e']).get('k') == 'var'):
                        incs.setdefault(strip(u['e'])['name'], []).append(bb)
            dom = C.dominators(f)
            cnt = [v for v, bs in incs.items() if len(bs) == 1 and bs[0] in dom[b]]
            if len(cnt) != 1:
                res.unknown('C12.g', name + ':counter', 'no single per-byte counter found in the scanner loop', blk['stmts'][-1]['loc'])
                continue
            cnt = cnt[0]
            n += 1
            arms = {}
            for atoms, events, end, seq in P.enum_paths_seq(f, (b, len(blk['stmts']) - 1), max_paths=20000):
                if not atoms or atoms[0][0][1] != 'case':
                    continue
                arm = atoms[0][0][2]
                reset_state = any(x[0] == 'stmt' and any(y['k'] == 'assign' and y['op'] == '=' and strip(y['l']).get('k') == 'var' and strip(y['l'])['name'] == st_var and is_lit(strip(y['r']), accept)
                                                          for y in nodes(x[3])) for x in seq)
                reset_cnt = any(x[0] == 'stmt' and any(y['k'] == 'assign' and y['op'] == '=' and strip(y['l']).get('k') == 'var' and strip(y['l'])['name'] == cnt and is_lit(strip(y['r']), 0)
                                                        for y in nodes(x[3])) for x in seq)
                boundary = arm == str(accept) or reset_state
                if end[0] in ('loop',) or (end[0] in ('exit', 'return') and False):
                    arms.setdefault((arm, boundary), []).append(reset_cnt)
            for (arm, boundary), rs in sorted(arms.items()):
                label = 'accept' if arm == str(accept) else 'continuation' if arm == 'default' else 'case-%s' % arm
                key = '%s:%s-arm:%s' % (name, label, 'boundary' if boundary else 'inside-character')
                if boundary:
                    res.check(all(rs), 'C12.g', key, '%s = 0 on all %d iteration paths that end at a character boundary' % (cnt, len(rs)),
                              'an iteration of %s ends with the decoder back in the ACCEPT state but leaves the byte counter %s running: the next character is counted too long and a plain byte after an invalid one is reported as an overlong sequence' % (name, cnt), blk['stmts'][-1]['loc'])
                else:
                    res.check(not any(rs), 'C12.g', key, '%s keeps counting inside a character' % cnt,
                              'the byte counter is reset in the middle of a multi-byte character: overlong forms are no longer recognised', blk['stmts'][-1]['loc'])
    res.floor('C12.g', 'UTF-8 scanner loops', n, 2)


STALLS = {
    # function: (atom whose edge is a reviewed, bounded stall of the read cursor, reason)
    'htp_normalize_uri_path_inplace': (('c', '!=', '-1'), 'c is a one-byte look-ahead register: an iteration entered with a pending byte consumes that byte (c = -1) instead of the cursor'),
    'htp_utf8_decode_path_inplace': (('counter', '!=', '1'), 'the byte that breaks a multi-byte sequence is re-examined once as the start of the next character (decoder state and counter are reset)'),
}


def c12h(db, res):
    """Every iteration of a scanning loop consumes input: the cursor that the loop condition compares with the length is
    advanced on every path through the body back to the loop head.  (Necessary for termination, for "never longer" and for
    each input byte to be decoded once.)  Flag locals are tracked, so `if (!handled)` is decided per value of the flag."""
    from .. import guards as G
    res.rule('C12.h', 'progress: in every loop of an in-place decoder whose condition is `cursor < length`, each path through the body back to the loop head advances that cursor (two reviewed, bounded stalls are tabled with their reason)')
    n = 0
    for f in inplace_functions(db):
        flags = G.flag_locals(f)
        for h, body in C.loops(f):
            cnd = f.cond_of(h)
            if not cnd:
                continue
            a = P.canon(cnd[0])
            if not a or a[1] != '<' or not re.match(r'^\w+$', a[0]):
                continue
            cur = a[0]
            n += 1
            stall = STALLS.get(f.name)

            def advances(st):
                for y in nodes(st):
                    if y['k'] == 'un' and y['op'] in ('++', '++post') and P.K(y['e']) == cur:
                        return True
                    if y['k'] == 'assign' and P.K(y['l']) == cur and y['op'] in ('+=', '='):
                        return True
                return False

            def flagstep(fl, st):
                fl = dict(fl)
                for y in nodes(st):
                    if y['k'] == 'assign' and y['op'] == '=' and strip(y['l']).get('k') == 'var' and strip(y['l'])['name'] in flags and is_lit(strip(y['r'])):
                        fl[strip(y['l'])['name']] = strip(y['r'])['v']
                    elif y['k'] == 'decl':
                        for v in y['vars']:
                            if v['name'] in flags and 'init' in v and is_lit(strip(v['init'])):
                                fl[v['name']] = strip(v['init'])['v']
                return fl
            # forward must-analysis inside the loop body over (block, flag values): "the cursor has been advanced since the loop head"
            entry = f.blocks[h]['succs'][0]
            IN = {(entry, ()): False}
            work = [(entry, ())]
            back = []
            used_stall = [False]
            while work:
                b, flk = work.pop()
                v = IN[(b, flk)]
                fl = dict(flk)
                blk = f.blocks[b]
                for st in blk['stmts']:
                    v = v or advances(st)
                    fl = flagstep(fl, st)
                dead = set()
                if blk.get('term', {}).get('kind') == 'SwitchStmt' and blk['stmts']:
                    # a switch over an enum whose cases name every enumerator has no other way out (other values are outside the configuration lattice)
                    et = (strip(blk['stmts'][-1]).get('t') or '').replace('enum ', '')
                    vals = {e_['v'] for e_ in db.enums.get(et, {}).get('enumerators', [])}
                    labs = {(f.blocks[s2].get('label') or {}).get('v') for s2 in blk['succs'] if s2 is not None and (f.blocks[s2].get('label') or {}).get('kind') == 'CaseStmt'}
                    if vals and vals <= labs:
                        dead = {s2 for s2 in blk['succs'] if s2 is not None and (f.blocks[s2].get('label') or {}).get('kind') not in ('CaseStmt', 'DefaultStmt')}
                c2 = f.cond_of(b)
                for j, s_ in enumerate(blk['succs']):
                    if s_ is None or s_ in dead:
                        continue
                    if c2:
                        at = P.canon(c2[0], j == 0)
                        if at and at[0] in fl and at[2].lstrip('-').isdigit() and at[1] in ('==', '!='):
                            if (fl[at[0]] == int(at[2])) != (at[1] == '=='):
                                continue                   # contradicts the constant the flag holds
                        if stall and at == stall[0]:
                            used_stall[0] = True
                            continue                       # reviewed stall
                    if s_ == h:
                        back.append((b, v))
                        continue
                    if s_ not in body:
                        continue
                    k2 = (s_, tuple(sorted(fl.items())))
                    nv = v if k2 not in IN else (IN[k2] and v)
                    if k2 not in IN or nv != IN[k2]:
                        IN[k2] = nv
                        work.append(k2)
            bad = [b for b, v in back if not v]
            key = '%s:loop(%s<%s):advances' % (f.name, cur, a[2])
            res.check(not bad and bool(back), 'C12.h', key, '%s is advanced before every way back to the loop head (%d block/flag states explored)%s' % (cur, len(IN), ('; reviewed stall excluded: ' + stall[1]) if stall and used_stall[0] else ''),
                      'an iteration of %s can return to the loop head without advancing %s: the same byte is decoded again and again and the output is filled with it' % (f.name, cur), cnd[0]['loc'])
    res.floor('C12.h', 'scanning loops of in-place decoders', n, 4)


def c12i(db, res):
    """NUL termination is part of the documented pipeline: `nul_encoded_terminates` / `nul_raw_terminates` cut the string at the
    NUL.  Every place that recognises an encoded (raw) NUL - it raises the ENCODED_NUL (RAW_NUL) indicator under a test of the
    byte against 0 - has to consult the matching option under that same test; the %XX and %u forms of one decoder are siblings."""
    res.rule('C12.i', 'NUL termination wherever a NUL is recognised: every site that raises an ENCODED_NUL / RAW_NUL indicator is followed, under the same `byte == 0` test, by a test of nul_encoded_terminates / nul_raw_terminates whose true arm cuts the string (bstr_adjust_len) and returns')
    n = 0
    for name, f in sorted(db.fn.items()):
        if not f.blocks:
            continue
        ordn = {}
        for b, i, st in sorted(f.stmts(), key=lambda t: [int(v) for v in t[2]['loc'].split(':')[1:3]] if t[2].get('loc') else [0, 0]):
            for w in nodes(st, lambda y: y.get('k') == 'assign' and y.get('op') == '|='):
                fl = lit_name(w['r']) or ''
                if not fl.endswith('_ENCODED_NUL') and not fl.endswith('_RAW_NUL'):
                    continue
                ordn[fl] = ordn.get(fl, 0) + 1
                opt = 'nul_encoded_terminates' if fl.endswith('_ENCODED_NUL') else 'nul_raw_terminates'
                # the zero test this raise sits under
                zt = [(a, d) for a, d in P.facts_at(f, b) if a[1] == '==' and a[2] == '0']
                if not zt:
                    continue
                n += 1
                zb = zt[-1][1]
                # blocks under the same test edge that branch on the option
                ok = False
                for b2 in f.blocks:
                    c2 = f.cond_of(b2)
                    if not c2 or opt not in P.K(c2[0]):
                        continue
                    if not any(d == zb and a == zt[-1][0] for a, d in P.facts_at(f, b2)):
                        continue
                    # true arm: adjust_len then return
                    tb = c2[1]
                    sts = f.blocks[tb]['stmts']
                    if any(c.get('callee') == 'bstr_adjust_len' for s_ in sts for c in nodes(s_, lambda y: y.get('k') == 'call')) and any(s_.get('k') == 'return' for s_ in sts):
                        ok = True
                res.check(ok, 'C12.i', '%s:%s#%d' % (name, fl, ordn[fl]), 'the option %s is consulted under the same test and cuts the string' % opt,
                          '%s raises %s here but does not consult %s under that test: with the option on, this spelling of the NUL does not terminate the string while its sibling spelling does' % (name, fl, opt), w['loc'])
    res.floor('C12.i', 'NUL indicator raise sites', n, 5)


def _utf8_scanners(db):
    """(function, switch block, decoder-state local, accept value, loop body) of every loop over htp_utf8_decode_allow_overlong"""
    out = []
    for name, f in sorted(db.fn.items()):
        for b, blk in f.blocks.items():
            if blk.get('term', {}).get('kind') != 'SwitchStmt' or not blk['stmts']:
                continue
            sc = strip(blk['stmts'][-1])
            if sc is None or sc.get('k') != 'call' or sc.get('callee') != 'htp_utf8_decode_allow_overlong':
                continue
            a0 = strip(sc['args'][0])
            if a0.get('k') != 'un' or a0['op'] != '&' or strip(a0['e']).get('k') != 'var':
                continue
            st_var = strip(a0['e'])['name']
            inner = [body for h, body in C.loops(f) if b in body]
            if inner:
                out.append((f, b, st_var, min(inner, key=len)))
    return out


def c12j(db, res):
    """A path may END inside a multi-byte character (a lead byte with its continuation bytes missing). Inside the loop such a
    sequence is only recognised when the next byte arrives and is rejected; at the end of the path nothing arrives, so the
    scanner has to look at the decoder state after the loop. Same shape as every other 'pending piece at end of input' in
    this code (C14.h, C15.c): whatever the loop carries from one iteration to the next must be inspected when the loop is
    left."""
    res.rule('C12.j', 'pending UTF-8 sequence at the end of the path: after every scanner loop over htp_utf8_decode_allow_overlong, each path to the end of the function passes a test of the decoder state (or of the per-character byte counter), and an unfinished sequence raises HTP_PATH_UTF8_INVALID')
    n = 0
    for f, b, st_var, body in _utf8_scanners(db):
        n += 1
        exits = sorted({s for bb in body for s in f.blocks[bb]['succs'] if s is not None and s not in body})
        # per-character counter: the local incremented once per iteration in a block that dominates the switch
        dom = C.dominators(f)
        incs = {}
        for bb in body:
            for s2 in f.blocks[bb]['stmts']:
                for u in nodes(s2, lambda y: y.get('k') == 'un' and y['op'] in ('++', '++post') and strip(y['e']).get('k') == 'var'):
                    incs.setdefault(strip(u['e'])['name'], []).append(bb)
        watch = {st_var} | {v for v, bs in incs.items() if len(bs) == 1 and bs[0] in dom[b]}
        after = set()
        for e in exits:
            after |= C.reachable(f, e)
        after -= body
        tests = []
        for bb in sorted(after):
            c_ = f.cond_of(bb)
            if c_ and any(strip(v).get('k') == 'var' and strip(v)['name'] in watch for v in nodes(c_[0], lambda y: y.get('k') == 'var')):
                tests.append(bb)
        # every path from a loop exit to the function exit passes one of the tests
        ok_paths = True
        for e in exits:
            seen, w = set(), [e]
            while w:
                x = w.pop()
                if x in seen or x in tests:
                    continue
                seen.add(x)
                if x == f.exit:
                    ok_paths = False
                    break
                w += [s for s in f.blocks[x]['succs'] if s is not None]
        raises = False
        for t in tests:
            for s in f.blocks[t]['succs']:
                if s is None:
                    continue
                for x in C.reachable(f, s) - body:
                    if any('HTP_PATH_UTF8_INVALID' in S(a['r']) for st in f.blocks[x]['stmts'] for a in nodes(st, lambda y: y.get('k') == 'assign' and y['op'] == '|=')):
                        raises = True
        loc = f.blocks[b]['stmts'][-1]['loc']
        res.check(bool(tests) and ok_paths and raises, 'C12.j', f.name + ':pending-sequence-at-end',
                  'the decoder state is inspected after the loop and an unfinished sequence raises HTP_PATH_UTF8_INVALID',
                  '%s leaves its scanner loop without looking at the decoder state (%s): a path that ends inside a multi-byte character (a lead byte whose continuation bytes are missing) is not reported as invalid UTF-8%s'
                  % (f.name, ', '.join(sorted(watch)), ', and the best-fit conversion drops those bytes without a replacement' if f.calls('bestfit_codepoint') else ''), loc)
    res.floor('C12.j', 'UTF-8 scanner loops', n, 2)


FULLWIDTH = (0xff00, 0xffef)      # htp_core.h: "Range U+FF00 - U+FFEF detected", htp_config.h: "full-width and half-width form characters (U+FF00-FFEF)"


def c12k(db, res):
    """The half/full-width indicator has four raise sites (UTF-8 best-fit, UTF-8 validation, %u in the path, %u in parameters).
    The set of code points each site lets through is computed from the guards that dominate it (an interval of a code-point
    local, or `high byte == K` with bounds on the low byte, the two bytes being the x2c() of offsets 0 and 2) and must be the
    documented range."""
    res.rule('C12.k', 'the half-width/full-width indicator is raised for exactly U+FF00..U+FFEF at every raise site: the code points admitted by the guards that dominate the raise (interval of the code-point local, or high byte == 0xff with the bound on the low byte) are computed and compared with the documented range')
    n = 0
    for name, f in sorted(db.fn.items()):
        for b, i, st in f.stmts():
            for a in nodes(st, lambda y: y.get('k') == 'assign' and y['op'] == '|='):
                flag = S(a['r'])
                if 'HALF_FULL_RANGE' not in flag:
                    continue
                n += 1
                # byte locals: x2c(p) is the high byte, x2c(p + 2) the low byte
                role = {}
                for bb, ii, s2 in f.stmts():
                    for d in nodes(s2, lambda y: y.get('k') == 'decl'):
                        for v in d['vars']:
                            ini = strip(v.get('init')) if v.get('init') else None
                            if ini and ini.get('k') == 'call' and ini.get('callee') == 'x2c' and ini['args']:
                                arg = strip(ini['args'][0])
                                role[v['name']] = 'lo' if (arg.get('k') == 'bin' and arg['op'] == '+' and is_lit(strip(arg['r']), 2)) else 'hi' if arg.get('k') == 'var' else None
                lo, hi = 0, 0x10ffff
                hib = None
                blo, bhi = 0, 255
                unknown = []
                for (l, op, r), e in P.facts_at(f, b):
                    try:
                        k = int(r, 0)
                    except ValueError:
                        continue
                    if role.get(l) == 'hi':
                        if op == '==':
                            hib = k
                        elif op != '!=':
                            unknown.append((l, op, r))
                    elif role.get(l) == 'lo':
                        if op == '<=': bhi = min(bhi, k)
                        elif op == '<': bhi = min(bhi, k - 1)
                        elif op == '>=': blo = max(blo, k)
                        elif op == '>': blo = max(blo, k + 1)
                        elif op == '==': blo, bhi = max(blo, k), min(bhi, k)
                    elif k >= 0x100 and re.match(r'^[A-Za-z_][A-Za-z0-9_]*$', l):
                        if op == '<=': hi = min(hi, k)
                        elif op == '<': hi = min(hi, k - 1)
                        elif op == '>=': lo = max(lo, k)
                        elif op == '>': lo = max(lo, k + 1)
                        elif op == '==': lo, hi = max(lo, k), min(hi, k)
                if hib is not None:
                    lo, hi = max(lo, (hib << 8) | blo), min(hi, (hib << 8) | bhi)
                key = '%s:raises:%s' % (name, flag.split('(')[0].strip())
                if unknown:
                    res.unknown('C12.k', key, 'guard on the high byte is not an equality: %s' % (unknown,), a['loc'])
                    continue
                res.check((lo, hi) == FULLWIDTH, 'C12.k', key, 'raised for U+%04X..U+%04X' % (lo, hi),
                          '%s raises %s for U+%04X..U+%04X; the documented half-width/full-width range is U+FF00..U+FFEF (htp_core.h), which is what the sibling raise sites test: %s' % (
                              name, flag, lo, hi, 'code points U+FFF0..U+FFFF (specials, not width forms) set the indicator' if (lo, hi) == (0xff00, 0xffff) else 'the indicator does not follow the construct'), a['loc'])
    res.floor('C12.k', 'raise sites of the half/full-width indicators', n, 4)


def c12l(db, res):
    """Best-fit maps are triplets (high byte, low byte, replacement) ended by a zero pair; htp_config_set_bestfit_map() takes
    any such map from the application and documents no ordering. The three lookups (UTF-8 conversion, %u in the path, %u in
    parameters) therefore walk the map to its terminator; a lookup that gives up at the first key above the code point is
    right for the built-in map only."""
    res.rule('C12.l', 'best-fit lookups walk the whole map: every loop that steps a pointer through a bestfit_map by 3 is left only on an equality test (terminator pair, or a match of both key bytes), never on an ordering comparison of a key with the code point')
    n = 0
    for name, f in sorted(db.fn.items()):
        if not f.blocks:
            continue
        for h, body in C.loops(f):
            step = [a for bb in body for st in f.blocks[bb]['stmts'] for a in nodes(st, lambda y: y.get('k') == 'assign' and y['op'] == '+=' and is_lit(strip(y['r']), 3) and strip(y['l']).get('k') == 'var')]
            if not step:
                continue
            pv = strip(step[0]['l'])['name']
            inits = [v for bb, ii, s2 in f.stmts() for d in nodes(s2, lambda y: y.get('k') == 'decl') for v in d['vars'] if v['name'] == pv and v.get('init') and 'bestfit_map' in S(v['init'])]
            if not inits:
                continue
            n += 1
            bad = []
            for bb in sorted(body):
                c = f.cond_of(bb)
                if not c:
                    continue
                a = P.canon(c[0], True)
                if a and a[1] in ('<', '<=', '>', '>='):
                    bad.append((a, c[0].get('loc', f.loc)))
            res.check(not bad, 'C12.l', name + ':bestfit-lookup', 'the lookup ends at the terminator or at a match',
                      '%s leaves its best-fit lookup on an ordering test (%s): a map installed with htp_config_set_bestfit_map() need not be sorted, and every mapping behind the first larger key is ignored' % (name, ' '.join(bad[0][0]) if bad else ''), bad[0][1] if bad else f.loc)
    res.floor('C12.l', 'best-fit lookup loops', n, 3)


def c12m(db, res):
    """RFC 3986 5.2.4: only the complete segment ".." removes the preceding segment (and only "." is dropped). A segment of three
    or more dots is an ordinary name. The removal of the last written segment is therefore guarded by tests that pin the
    segment to exactly two dots followed by a separator or the end."""
    res.rule('C12.m', 'only the segment ".." removes its predecessor: in htp_normalize_uri_path_inplace every loop that takes the last written segment back (steps the write cursor down to the previous \'/\') is guarded by dot tests at the cursor and the cursor + 1 and a separator / end test at the cursor + 2 - or by an equality of a dot count with 2')
    f = db.get('htp_normalize_uri_path_inplace')
    n = 0
    for h, body in C.loops(f):
        dec = [u for bb in body for st in f.blocks[bb]['stmts'] for u in nodes(st, lambda y: y.get('k') == 'un' and y['op'] in ('--', '--post') and strip(y['e']).get('k') == 'var')]
        c = f.cond_of(h)
        conds = ' '.join(S(f.cond_of(bb)[0]) for bb in body if f.cond_of(bb))
        if not dec or not c or ' - 1)] != 47' not in conds or len(body) > 8:
            continue                                       # the back-up loop: while (w > 0 && data[w - 1] != '/') w--
        n += 1
        facts = [a for a, e in P.facts_at(f, h)]
        dots = [a for a in facts if a[1] == '==' and a[2] in ('46', "'.'") and a[0].startswith('data[')]
        end = [a for a in facts if (a[1] == '==' and a[2] in ('47', "'/'") and '+ 2' in a[0]) or (a[1] == '==' and '+ 2' in a[0] and a[2] == 'len')]
        count2 = [a for a in facts if a[1] == '==' and a[2] == '2' and ' - ' in a[0]]
        ok = (len({a[0] for a in dots}) >= 2 and end) or count2
        res.check(bool(ok), 'C12.m', 'htp_normalize_uri_path_inplace:remove-last-segment@%s' % ('|'.join('%s%s%s' % a for a in facts[-1:])), 'guarded by exactly two dots and a separator / the end',
                  'htp_normalize_uri_path_inplace takes the previous segment back under guards that do not pin the current segment to exactly ".." (%s): a segment of three or more dots behaves like "..", "/a/.../b" becomes "/b"' % facts[-3:], c[0].get('loc', f.loc))
    res.floor('C12.m', 'remove-last-segment loops', n, 2)
