"""Shared rule: a byte that is loaded into an integer object which the same function compares with the sentinel -1
("no byte available" / "end of chunk") must be loaded as `unsigned char`; a plain or signed `char` load turns 0xFF into -1."""
from ..facts import S, strip, nodes, is_lit
from .. import pat as P


def sites(db, want):
    out = []
    for name, f in sorted(db.fn.items()):
        if not f.blocks or not want(f):
            continue
        sent = set()
        for b, i, st in f.stmts():
            for x in nodes(st, lambda y: y.get('k') == 'bin' and y['op'] in ('==', '!=')):
                if is_lit(x['r'], -1):
                    sent.add(P.K(x['l']))
                if is_lit(x['l'], -1):
                    sent.add(P.K(x['r']))
        if not sent:
            continue
        for b, i, st in f.stmts():
            for x in nodes(st, lambda y: y.get('k') in ('assign', 'decl')):
                if x['k'] == 'assign' and x['op'] == '=':
                    items = [(P.K(x['l']), x['r'])]
                elif x['k'] == 'decl':
                    items = [(v['name'], v['init']) for v in x['vars'] if 'init' in v]
                else:
                    items = []
                for L, r in items:
                    r0 = strip(r)
                    if L in sent and r0 is not None and (r0.get('k') == 'index' or (r0.get('k') == 'un' and r0['op'] == '*')):
                        out.append((f, L, r0))
    return out


def run(db, res, rule, want, floor):
    res.rule(rule, 'sentinel-safe byte loads: a byte stored into an integer that the function compares with -1 (no byte / end of chunk) is read through an `unsigned char` l-value, so the data byte 0xFF cannot be taken for the sentinel')
    ss = sites(db, want)
    for f, L, r0 in ss:
        t = (r0.get('t') or '').replace('const ', '')
        key = '%s:%s=%s' % (f.name, L, P.K(r0)[:50])
        res.check(t == 'unsigned char', rule, key, 'loaded as unsigned char',
                  '%s loads %s (type `%s`) into %s, which it compares with -1: on platforms where char is signed the data byte 0xFF becomes -1 and is taken for "no more data" - the rest of the chunk is dropped and the result depends on where the chunks are cut' % (f.name, S(r0)[:50], r0.get('t'), L), r0.get('loc', f.loc))
    res.floor(rule, 'byte loads into sentinel-compared integers', len(ss), floor)
