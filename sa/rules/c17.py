"""C17 — containers and string/number primitives (DESIGN.md §4.17). Agreement with an abstract model on
values is not decided; the structural invariants the model rests on are."""
import re
from ..facts import load, S, strip, nodes, is_lit, lit_name, AnalysisBroken
from ..report import Result
from .. import cfg as C
from .. import pat as P

TECHNIQUE = 'ring-buffer typestate rules (wrap test after every cursor increment, size bookkeeping paired with element store/removal, growth re-linearisation copies adjacent and complete, index forms with their guards), overflow pre-check dominance in the integer parser, comparator and iteration rules for the table getters, one add-variant per table'


def run(repo='/repo', tier='quick'):
    res = Result('C17')
    db = load(repo)
    res.rule('C17.a', 'ring buffer: every cursor increment is followed by its wrap test; element stores/removals are paired with current_size +-1; growth assigns first,last,max_size,elements and copies head then tail adjacently; every elements[E] uses a guarded index form')
    res.rule('C17.b', 'numbers: the multiply-accumulate of the integer parser is dominated by the INT64_MAX pre-check that returns an error; chunk length > INT32_MAX is an error; status is valid iff 100..999')
    res.rule('C17.c', 'table: the getters compare only through case-folding comparators, scan from 0 in steps of 2 and return inside the loop (first match); each table is added to through one key-ownership variant')
    # ---------------- C17.a
    push, pop, shift, get, repl = (db.get('htp_list_array_' + n) for n in ('push', 'pop', 'shift', 'get', 'replace'))
    for f in (push, shift):
        for fld in ('first', 'last'):
            for b, i, x in P.field_writes(f, fld):
                if not x.get('op', '').startswith('++'):
                    continue
                # every path from the increment to a return passes `fld == max_size` test
                key = 'l->' + fld
                missing = []

                def visit(bb, ii, st):
                    if f.cond_of(bb) and f.blocks[bb]['stmts'][-1] is st and P.canon(st) == (key, '==', 'l->max_size'):
                        return True
                    if st.get('k') == 'return':
                        missing.append(st)
                        return True
                    return False
                C.forward(f, (b, i), visit)
                okw = False
                for bb in f.blocks:
                    c = f.cond_of(bb)
                    if c and P.canon(c[0]) == (key, '==', 'l->max_size'):
                        tb = f.blocks[bb]['succs'][0]
                        okw = any(is_lit(w['r'], 0) for st in f.blocks[tb]['stmts'] for w in P.assigns_field(st, fld, '='))
                res.check(not missing and okw, 'C17.a', '%s:%s++:wrap' % (f.name, fld), 'increment is followed by `if (%s == max_size) %s = 0` on every path' % (fld, fld),
                          'l->%s is incremented without the wrap-around test before returning: the cursor runs past the storage block' % fld, x['loc'])
    # a computed position stored into a cursor has been through its wrap correction first
    lst_fns = [f for n, f in sorted(db.fn.items()) if n.startswith('htp_list_array_')]
    ncur = 0
    for f in lst_fns:
        for fld in ('first', 'last'):
            for b, i, x in P.field_writes(f, fld):
                r = strip(x.get('r')) if x['k'] == 'assign' and x['op'] == '=' else None
                if r is None or r.get('k') != 'var' or r.get('decl') != 'local':
                    continue
                ncur += 1
                V = r['name']
                decl = [(bb, ii) for bb, ii, st in f.stmts() for d in nodes(st, lambda y: y.get('k') == 'decl') if any(v['name'] == V and 'init' in v for v in d['vars'])]
                if not decl:
                    res.unknown('C17.a', '%s:%s=%s:wrapped-first' % (f.name, fld, V), 'the local has no initialised declaration', x['loc'])
                    continue
                store = f.blocks[b]['stmts'][i]

                def is_wrap_test(st, V=V):
                    return any(f.cond_of(bb) and f.blocks[bb]['stmts'][-1] is st for bb in f.blocks) and 'max_size' in S(st) and any(v['name'] == V for v in nodes(st, lambda y: y.get('k') == 'var'))
                ok, why = C.every_path_passes(f, decl[0], lambda st, store=store: st is store, is_wrap_test)
                res.check(ok, 'C17.a', '%s:%s=%s:wrapped-first' % (f.name, fld, V), 'the position passes its wrap test against max_size before it is stored into the cursor',
                          'l->%s is set from %s on a path that has not yet passed the wrap test of %s against max_size: the cursor can be left at an index >= max_size and the next push writes outside the block' % (fld, V, V), x['loc'])
    res.floor('C17.a', 'computed positions stored into ring cursors', ncur, 1)
    # size bookkeeping
    for f, delta in ((push, '++'), (pop, '--'), (shift, '--')):
        n = 0
        bad = False
        for atoms, events, end, seq in P.enum_paths_seq(f, (f.entry, -1)):
            if end[0] != 'return':
                continue
            rv = P.ret_value(end[3])
            facts = [a for a, bb in atoms]
            touched = any(x[0] == 'stmt' and any(strip(a['l']).get('k') == 'index' for a in nodes(x[3], lambda y: y.get('k') == 'assign')) for x in seq) if f is push else \
                any(x[0] == 'stmt' and any(strip(strip(a.get('r') if a.get('k') == 'assign' else None) or {}).get('k') == 'index' for a in nodes(x[3], lambda y: y.get('k') == 'assign')) for x in seq)
            cnt = sum(1 for x in seq if x[0] == 'stmt' for w in P.assigns_field(x[3], 'current_size') if w.get('op', '').startswith(delta))
            other = sum(1 for x in seq if x[0] == 'stmt' for w in P.assigns_field(x[3], 'current_size') if not w.get('op', '').startswith(delta))
            n += 1
            if touched != (cnt == 1) or other:
                bad = True
        res.check(not bad and n > 0, 'C17.a', f.name + ':size-bookkeeping', 'on all %d paths an element is stored/removed exactly when current_size%s happens once' % (n, delta),
                  '%s: storing/removing an element and current_size%s are not paired one-to-one on every path' % (f.name, delta), f.loc)
    # growth arm
    grow_blocks = [b for b, i, x in P.field_writes(push, 'max_size')]
    if not grow_blocks:
        res.violated('C17.a', 'push:growth', 'htp_list_array_push no longer grows the storage', push.loc)
    else:
        gb = grow_blocks[0]
        vals = {}
        for st in push.blocks[gb]['stmts']:
            for fld in ('first', 'last', 'max_size', 'elements'):
                for w in P.assigns_field(st, fld, '='):
                    vals[fld] = P.K(w['r'])
        want = {'first': '0', 'last': 'l->current_size', 'max_size': 'new_size', 'elements': 'newblock'}
        res.check(vals == want, 'C17.a', 'push:growth:resets-cursors', 'growth sets first=0, last=current_size, max_size=new_size, elements=newblock',
                  'the growth arm leaves the ring inconsistent: %s (expected %s)' % (vals, want), push.blocks[gb]['stmts'][0]['loc'])
        full = any(a == ('l->current_size', '>=', 'l->max_size') for a, e in P.facts_at(push, gb))
        res.check(full, 'C17.a', 'push:growth:only-when-full', 'growth happens under current_size >= max_size', 'growth is not tied to the list being full', push.blocks[gb]['stmts'][0]['loc'])
        ns = [v for b, i, st in push.stmts() for d in nodes(st, lambda y: y.get('k') == 'decl') for v in d['vars'] if v['name'] == 'new_size']
        res.check(bool(ns) and P.K(ns[0].get('init')) == '(l->max_size * 2)', 'C17.a', 'push:growth:doubles', 'new_size = max_size * 2', 'new size is not max_size * 2', push.loc)
    mc = push.calls('memcpy')
    if len(mc) == 2:
        (b1, i1, c1), (b2, i2, c2) = sorted(mc, key=lambda t: (-t[0], t[1])) if mc[0][0] != mc[1][0] else sorted(mc, key=lambda t: t[1])
        len1, len2 = P.K(c1['args'][2]), P.K(c2['args'][2])
        okc = (P.K(c1['args'][0]) == 'newblock' and P.K(c1['args'][1]) == '(l->elements + (l->first * 8))' and len1 == '((l->max_size - l->first) * 8)'
               and P.K(c2['args'][0]) == '(newblock + %s)' % len1 and P.K(c2['args'][1]) == 'l->elements' and len2 == '(l->first * 8)')
        res.check(okc, 'C17.a', 'push:growth:relinearise', 'head [first..max) is copied to the start, tail [0..first) right behind it',
                  'the re-linearising copies do not place the head at 0 and the tail directly behind it: memcpy(%s, %s, %s); memcpy(%s, %s, %s)' % (
                      P.K(c1['args'][0]), P.K(c1['args'][1]), len1, P.K(c2['args'][0]), P.K(c2['args'][1]), len2), c2['loc'])
        nz = any(a == ('l->first', '!=', '0') for a, e in P.facts_at(push, b1))
        res.check(nz, 'C17.a', 'push:growth:relinearise-only-when-wrapped', 'copies are in the first != 0 arm', 'the copying arm is not the first != 0 arm', c1['loc'])
    else:
        res.unknown('C17.a', 'push:growth:relinearise', 'growth no longer uses exactly two memcpy calls (%d): re-linearisation not recognised' % len(mc), push.loc)
    # index forms
    nidx = 0
    for f in (push, pop, shift, get, repl):
        for b, i, st in f.stmts():
            for x in nodes(st, lambda y: y.get('k') == 'index' and P.member_field(y['base']) == 'elements'):
                nidx += 1
                E = P.K(x['idx'])
                facts = [a for a, e in P.facts_at(f, b)]
                key = '%s:elements[%s]' % (f.name, E)
                sized = ('idx', '<', 'l->current_size') in facts or ('(idx + 1)', '<=', 'l->current_size') in facts
                if E in ('l->last', 'l->first'):
                    res.holds('C17.a', key, 'cursor kept < max_size by the wrap rule', x['loc'])
                elif E == '(l->first + idx)':
                    res.check(('(l->first + idx)', '<', 'l->max_size') in facts and sized, 'C17.a', key, 'under first + idx < max_size and idx < current_size',
                              'elements[first + idx] is read without (first + idx < max_size && idx < current_size): %s' % facts, x['loc'])
                elif E == '(idx - (l->max_size - l->first))':
                    res.check(('(l->first + idx)', '>=', 'l->max_size') in facts and sized, 'C17.a', key, 'wrapped form under first + idx >= max_size and idx < current_size',
                              'the wrapped index form is used without its guard: %s' % facts, x['loc'])
                elif E == '((l->first + idx) % l->max_size)':
                    res.check(sized, 'C17.a', key, 'modulo form under idx < current_size', 'replace() indexes without the idx < current_size guard', x['loc'])
                elif E == 'pos':
                    pd = [v for bb, ii, s2 in f.stmts() for d in nodes(s2, lambda y: y.get('k') == 'decl') for v in d['vars'] if v['name'] == 'pos']
                    okd = bool(pd) and P.K(pd[0].get('init')) == '((l->first + l->current_size) - 1)'
                    wrap = False
                    for bb in f.blocks:
                        c = f.cond_of(bb)
                        if c and P.canon(c[0]) == ('pos', '>', '(l->max_size - 1)'):
                            wrap = any(P.K(w['l']) == 'pos' and w['op'] == '-=' and P.K(w['r']) == 'l->max_size' for s2 in f.blocks[f.blocks[bb]['succs'][0]]['stmts'] for w in nodes(s2, lambda y: y.get('k') == 'assign'))
                            wrap = wrap and bb in C.dominators(f)[b]
                    nonempty = ('l->current_size', '!=', '0') in facts
                    res.check(okd and wrap and nonempty, 'C17.a', key, 'pos = first + size - 1, wrapped by -= max_size, list not empty', 'pop() index is not (first + size - 1) wrapped into the block under size != 0', x['loc'])
                else:
                    res.unknown('C17.a', key, 'index form not recognised', x['loc'])
    res.floor('C17.a', 'elements[...] accesses', nidx, 6)
    # ---------------- C17.b
    f = db.get('bstr_util_mem_to_pint')
    mults = [(b, i, a) for b, i, st in f.stmts() for a in nodes(st, lambda y: y.get('k') == 'assign' and y['op'] == '*=' and P.K(y['l']) == 'rval')]
    if not mults:
        res.violated('C17.b', 'pint:accumulate', 'the integer parser no longer accumulates with rval *= base', f.loc)
    for b, i, a in mults:
        facts = [x for x, e in P.facts_at(f, b)]
        ok = ('((INT64_MAX - d) / base)', '>=', 'rval') in facts
        res.check(ok, 'C17.b', 'pint:overflow-precheck', 'rval *= base; rval += d is on the false edge of ((INT64_MAX - d) / base) < rval',
                  'the multiply-accumulate is not dominated by the overflow pre-check ((INT64_MAX - d) / base) < rval: a long digit string wraps instead of reporting an error (guards: %s)' % facts, a['loc'])
    for b in f.blocks:
        c = f.cond_of(b)
        if c and P.canon(c[0]) == ('((INT64_MAX - d) / base)', '<', 'rval'):
            okr = all(end[0] == 'return' and is_lit(P.ret_value(end[3])) and P.ret_value(end[3])['v'] < 0 for atoms, events, end in P.enum_paths(f, (f.blocks[b]['succs'][0], -1)))
            res.check(okr, 'C17.b', 'pint:overflow-returns-error', 'overflow returns a negative error code', 'the overflow arm does not return an error', c[0]['loc'])
    dchk = [b for b in f.blocks if f.cond_of(b) and P.canon(f.cond_of(b)[0]) == ('d', '>=', 'base')]
    res.check(bool(dchk), 'C17.b', 'pint:digit-below-base', 'digits are checked against the base', 'digits are no longer checked against the base', f.loc)
    # the whitespace-tolerant integer parser accepts the number only when the cursor has reached the end of the text
    f = db.get('htp_parse_positive_integer_whitespace')
    lenp = [p_['name'] for p_ in f.params if any(t in p_['t'] for t in ('long', 'int')) and '*' not in p_['t']]
    lenp = lenp[0] if lenp else 'len'
    nacc, badp = 0, None
    for atoms, events, end in P.enum_paths(f, (f.entry, -1)):
        if end[0] != 'return':
            continue
        v = P.ret_value(end[3])
        if is_lit(v) and strip(v)['v'] < 0:
            continue                                       # an error code
        facts = [a for a, bb in atoms]
        if any(a[0] == P.K(v) and a[1] == '<' and a[2] == '0' for a in facts):
            continue                                       # propagates the digit parser's error
        nacc += 1
        # the last fact about the cursor against the length must be "cursor >= len"
        last = [a for a in facts if a[2] == lenp and a[1] in ('<', '>=', '==', '!=')]
        if not last or last[-1][1] != '>=':
            badp = facts[-3:]
    res.check(badp is None and nacc > 0, 'C17.b', 'pint-ws:accepts-only-at-end', 'every path that returns the number ends with the cursor at the end of the text (%d accepting path(s))' % nacc,
              'htp_parse_positive_integer_whitespace can return the number while unchecked bytes remain after it (last guards: %s): "80<TAB>x" is accepted as 80' % (badp,), f.loc)
    f = db.get('htp_parse_chunked_length')
    ok = False
    for b in f.blocks:
        c = f.cond_of(b)
        if c and P.canon(c[0]) == ('chunk_len', '>', 'INT32_MAX'):
            ok = all(end[0] == 'return' and is_lit(P.ret_value(end[3])) and P.ret_value(end[3])['v'] < 0 for atoms, events, end in P.enum_paths(f, (f.blocks[b]['succs'][0], -1)))
    res.check(ok, 'C17.b', 'chunk-length:int32-cap', 'chunk length > INT32_MAX is an error', 'a chunk length above INT32_MAX is no longer rejected', f.loc)
    cl = [v for b, i, st in f.stmts() for d in nodes(st, lambda y: y.get('k') == 'decl') for v in d['vars'] if v['name'] == 'chunk_len']
    res.check(bool(cl) and P.call_name_of(cl[0].get('init')) == 'htp_parse_positive_integer_whitespace' and is_lit(strip(cl[0]['init'])['args'][2], 16), 'C17.b', 'chunk-length:base-16', 'parsed in base 16', 'chunk length is no longer parsed in base 16', f.loc)
    f = db.get('htp_tx_state_response_line')
    st_writes = [(b, i, x) for b, i, x in P.field_writes(f, 'response_status_number') if lit_name(x['r']) == 'HTP_STATUS_INVALID']
    lo = hi = None
    for e in db.enums.values():
        pass
    okrange = False
    for b, i, x in st_writes:
        # reached over the edges number == INVALID || number < MIN || number > MAX
        conds = set()
        for p in f.preds.get(b, []):
            c = f.cond_of(p)
            if c:
                conds.add(P.canon(c[0]))
        anc = set()
        for bb in f.blocks:
            c = f.cond_of(bb)
            if c and (P.canon(c[0]) or ('',))[0] == 'tx->response_status_number':
                anc.add(P.canon(c[0])[1:])
        okrange = ('<', 'HTP_VALID_STATUS_MIN') in anc and ('>', 'HTP_VALID_STATUS_MAX') in anc
    mn = [l['v'] for bb, ii, s2 in f.stmts() for l in nodes(s2, lambda y: y.get('k') == 'lit' and y.get('name') == 'HTP_VALID_STATUS_MIN')]
    mx = [l['v'] for bb, ii, s2 in f.stmts() for l in nodes(s2, lambda y: y.get('k') == 'lit' and y.get('name') == 'HTP_VALID_STATUS_MAX')]
    # ... and the status number is only replaced by INVALID because of the number itself: every path to that store passes a
    # true test of the status number (== INVALID, < MIN, > MAX) - an invalid protocol token must not erase a valid status
    for b, i, x in st_writes:
        npth, badp = 0, None
        for atoms, events, end, seq in P.enum_paths_seq(f, (f.entry, -1), stop=lambda bb, ii, st_, b=b, i=i: (bb, ii) == (b, i), max_paths=20000, must_reach=b):
            if end[0] != 'stop':
                continue
            npth += 1
            facts = [a for a, bb in atoms]
            if not any(a[0] == 'tx->response_status_number' and ((a[1] == '==' and a[2] == 'HTP_STATUS_INVALID') or (a[1] == '<' and a[2] == 'HTP_VALID_STATUS_MIN') or (a[1] == '>' and a[2] == 'HTP_VALID_STATUS_MAX')) for a in facts):
                badp = [a for a in facts if 'status' in a[0] or 'protocol' in a[0]][-3:]
        res.check(badp is None and npth > 0, 'C17.b', 'status:invalid-only-for-the-number', 'all %d paths to the store pass a failed test of the status number' % npth,
                  'response_status_number is overwritten with HTP_STATUS_INVALID on a path that tested something else (%s): a valid status code is erased (a 2xx answer to CONNECT is then handled as a refusal, a 101 does not switch to tunnel mode)' % (badp,), x['loc'])
    res.check(okrange and mn[:1] == [100] and mx[:1] == [999], 'C17.b', 'status:range-100-999', 'status is invalid iff < 100 or > 999', 'the status validity range is not 100..999 (min %s max %s)' % (mn[:1], mx[:1]), f.loc)
    # no narrowing before the range check: results of the 64-bit numeric parsers are received in 64-bit objects
    NUM = {n for n, g in db.fn.items() if g.ret in ('long', 'long long') and (n.startswith('htp_parse_') or n.startswith('bstr_util_mem_to_pint') or n.startswith('bstr_to_pint'))}
    res.analysed['64-bit numeric parsers'] = sorted(NUM)
    nrecv = 0
    for g in db.fn.values():
        for b, i, st in g.stmts():
            for x in nodes(st, lambda y: y.get('k') in ('assign', 'decl')):
                pairs = []
                if x['k'] == 'assign' and x['op'] == '=':
                    pairs.append((strip(x['l']).get('t'), P.K(x['l']), x['r'], x))
                elif x['k'] == 'decl':
                    pairs += [(v['t'], v['name'], v['init'], x) for v in x['vars'] if 'init' in v]
                for t, name, r, node in pairs:
                    r0 = strip(r)
                    # also through an explicit cast: (int) parse(...)
                    if r0 is not None and r0.get('k') == 'call' and r0.get('callee') in NUM:
                        nrecv += 1
                        wide = t in ('long', 'unsigned long', 'long long', 'unsigned long long')
                        res.check(wide, 'C17.b', '%s:receives:%s' % (g.name, r0['callee']), 'the 64-bit result is kept in a 64-bit object (%s %s) until it is range-checked' % (t, name),
                                  '%s stores the 64-bit result of %s() into `%s %s` before any range check: values of the form k*2^32 + v wrap to v and pass as valid' % (g.name, r0['callee'], t, name), node['loc'])
    res.floor('C17.b', 'receivers of 64-bit parser results', nrecv, 8)
    f = db.get('htp_parse_status')
    okst = False
    for b, i, st in f.returns():
        rv = P.ret_value(st)
        if rv is not None and rv.get('k') == 'var':
            facts = [a for a, e in P.facts_at(f, b)]
            okst = (rv['name'], '>=', 'HTP_VALID_STATUS_MIN') in facts and (rv['name'], '<=', 'HTP_VALID_STATUS_MAX') in facts
    res.check(okst, 'C17.b', 'htp_parse_status:range-before-return', 'the parsed status is returned only under MIN <= r <= MAX', 'htp_parse_status returns the parsed number without the 100..999 range test', f.loc)

    # ---------------- C17.c
    for name, cmp_ok in (('htp_table_get', {'bstr_cmp_nocase'}), ('htp_table_get_c', {'bstr_cmp_c_nocasenorzero', 'bstr_cmp_c_nocase'}), ('htp_table_get_mem', {'bstr_cmp_mem_nocase'})):
        f = db.get(name)
        cmps = [c for b, i, c in f.calls() if c.get('callee', '').startswith('bstr_cmp') or c.get('callee', '').startswith('bstr_util_cmp') or c.get('callee') in ('memcmp', 'strcmp')]
        res.check(bool(cmps) and all(c['callee'] in cmp_ok for c in cmps), 'C17.c', name + ':case-folding', 'keys are compared with ' + ', '.join(sorted(cmp_ok)),
                  'lookup compares keys with %s: header lookup would be case sensitive' % [c['callee'] for c in cmps], f.loc)
        lp = C.loops(f)
        ok = False
        if lp:
            h, body = lp[0]
            init0 = any(v['name'] == 'i' and is_lit(v.get('init'), 0) for b, i, st in f.stmts() for d in nodes(st, lambda y: y.get('k') == 'decl') for v in d['vars'])
            step2 = any(P.K(a['l']) == 'i' and a['op'] == '+=' and is_lit(a['r'], 2) for b in body for st in f.blocks[b]['stmts'] for a in nodes(st, lambda y: y.get('k') == 'assign'))
            ret_in = any(st.get('k') == 'return' and P.K(st.get('e')) == 'element' for b in body | {s for bb in body for s in f.blocks[bb]['succs'] if s is not None} for st in f.blocks[b]['stmts'])
            keyidx = any(v['name'] == 'key_candidate' and P.K(strip(v.get('init'))['args'][1]) == 'i' for b, i, st in f.stmts() for d in nodes(st, lambda y: y.get('k') == 'decl') for v in d['vars'] if 'init' in v and strip(v['init']).get('k') == 'call')
            elidx = any(v['name'] == 'element' and P.K(strip(v.get('init'))['args'][1]) == '(i + 1)' for b, i, st in f.stmts() for d in nodes(st, lambda y: y.get('k') == 'decl') for v in d['vars'] if 'init' in v and strip(v['init']).get('k') == 'call')
            matched = any(a[1] == '==' and a[2] == '0' and a[0].startswith('bstr_cmp') for b in f.blocks for st in f.blocks[b]['stmts'] if st.get('k') == 'return' and P.K(st.get('e')) == 'element' for a, e in P.facts_at(f, b))
            ok = init0 and step2 and ret_in and keyidx and elidx and matched
        res.check(ok, 'C17.c', name + ':first-match', 'scans pairs (i, i+1) from 0 in steps of 2 and returns the element of the first equal key',
                  'the getter no longer scans key/element pairs from the start returning at the first match', f.loc)
    adds = {}
    for f in db.fn.values():
        for b, i, c in f.calls():
            if c.get('callee') in ('htp_table_add', 'htp_table_addn', 'htp_table_addk'):
                t = strip(c['args'][0])
                key = (t.get('rec'), t.get('field')) if t.get('k') == 'member' else ('local', P.K(t))
                adds.setdefault(key, {}).setdefault(c['callee'], []).append((f.name, c['loc']))
    for key, variants in sorted(adds.items(), key=str):
        if key[0] == 'local':
            continue
        res.check(len(variants) == 1, 'C17.c', 'table:%s.%s:one-add-variant' % key, 'always added through ' + next(iter(variants)),
                  'table %s.%s is added to through %s: key ownership is inconsistent (leak or double free of keys at destroy)' % (key[0], key[1], ' and '.join(sorted(variants))), list(variants.values())[-1][0][1])
    res.floor('C17.c', 'tables with adds', len([k for k in adds if k[0] != 'local']), 4)
    res.assumptions.append('equality with an abstract sequence / multimap model on values is not decided; byte-string scan loops are covered by the guarded-read rules of C01')
    c17d(db, res)
    c17e(db, res)
    # ---- C17.f ring cursors are rewound only at the wrap or together
    res.rule('C17.f', 'ring cursors are rewound only at the wrap or together: every store `first = 0` / `last = 0` of the list is on the true edge of `<cursor> == max_size` (the wrap), or in a step that rewinds both cursors (init, clear, growth) - a cursor rewound alone elsewhere breaks last == (first + size) mod max_size')
    nz = 0
    for n_, f_ in sorted(db.fn.items()):
        if not f_.blocks or not f_.loc.startswith('htp/htp_list.c'):
            continue
        for cur_, oth_ in (('first', 'last'), ('last', 'first')):
            for b_, i_, w_ in P.field_writes(f_, cur_):
                if w_.get('op') != '=' or (strip(w_['l']) or {}).get('rec') != 'htp_list_array_t' or not is_lit(w_['r'], 0):
                    continue
                nz += 1
                facts_ = [a for a, e in P.facts_at(f_, b_)]
                wrap = any(a[0].endswith('->' + cur_) and a[1] == '==' and a[2].endswith('->max_size') for a in facts_) or any(a[2].endswith('->' + cur_) and a[1] == '==' and a[0].endswith('->max_size') for a in facts_)
                both = any((strip(w2['l']) or {}).get('rec') == 'htp_list_array_t' and w2.get('op') == '=' for b2, i2, w2 in P.field_writes(f_, oth_) if b2 == b_)
                res.check(wrap or both, 'C17.f', '%s:%s=%s' % (n_, cur_, P.K(w_['r'])), 'at the wrap, or together with the other cursor',
                          '%s rewinds `%s` alone and not at the wrap (guards: %s): the other cursor keeps its place, so the next push stores where no lookup reads' % (n_, cur_, facts_[-2:]), w_['loc'])
    res.floor('C17.f', 'rewinds of a ring cursor to 0', nz, 5)
    c17g(db, res)
    c17h(db, res)
    c17i(db, res)
    return res


def c17d(db, res):
    """The table getters and the header/coding recognisers compare through the NUL-insensitive comparator: NUL bytes of the
    first operand are skipped.  The scan stops as soon as the second operand is exhausted, so what is left of the first
    operand must be skipped over as long as it is NUL *before* the two lengths are compared - otherwise "Host\\0" no
    longer equals "host" and a lookup walks past the first match."""
    res.rule('C17.d', 'NUL-insensitive comparison: in bstr_util_cmp_mem_nocasenorzero the NUL test of the first operand appears inside the scanning loop and again in a loop of its own (advancing only that cursor) that dominates the comparison of the cursors with the lengths')
    f = db.get('bstr_util_cmp_mem_nocasenorzero')
    skips = []
    for b in f.blocks:
        c = f.cond_of(b)
        if not c:
            continue
        e = strip(c[0])
        if e.get('k') == 'bin' and e['op'] in ('==', '!=') and is_lit(e['r'], 0) and strip(e['l']).get('k') == 'index' and strip(strip(e['l'])['idx']).get('k') == 'var':
            skips.append((b, P.K(strip(e['l'])['base']), strip(strip(e['l'])['idx'])['name']))
    if not skips:
        res.violated('C17.d', 'cmp_nocasenorzero:skips-nul', 'the comparator no longer tests bytes of the first operand for NUL at all', f.loc)
        return
    A1, c1 = skips[0][1], skips[0][2]
    lps = C.loops(f)
    dom = C.dominators(f)
    # the final decision: a condition comparing the first cursor with `==`
    finals = [b for b in f.blocks if f.cond_of(b) and (P.canon(f.cond_of(b)[0]) or ('', '', ''))[0] == c1 and P.canon(f.cond_of(b)[0])[1] == '==']
    res.check(bool(finals), 'C17.d', 'cmp_nocasenorzero:final-length-test', 'the verdict compares the cursor of the first operand with its length', 'no final comparison of the first cursor with the length', f.loc)
    own = []
    for h, body in lps:
        has_skip = any(sb in body for sb, a, c in skips if a == A1 and c == c1)
        writes = [(P.K(y.get('l') or y.get('e'))) for bb in body for st in f.blocks[bb]['stmts'] for y in nodes(st, lambda z: z.get('k') == 'assign' or (z.get('k') == 'un' and z['op'] in ('++', '--', '++post', '--post')))]
        rets = any(st.get('k') == 'return' for bb in body for st in f.blocks[bb]['stmts'])
        if has_skip and set(writes) == {c1} and not rets:
            own.append(h)
    inscan = [h for h, body in lps if any(sb in body for sb, a, c in skips) and h not in own]
    res.check(bool(inscan), 'C17.d', 'cmp_nocasenorzero:skip-inside-scan', 'NUL bytes of the first operand are skipped inside the scanning loop', 'the scanning loop no longer skips NUL bytes of the first operand', f.loc)
    ok = bool(own) and bool(finals) and all(any(h in dom[fb] for h in own) for fb in finals)
    res.check(ok, 'C17.d', 'cmp_nocasenorzero:trailing-nul-skipped', 'a loop that only advances %s over NUL bytes dominates the final length comparison' % c1,
              'after the scan nothing skips the NUL bytes that are left of the first operand before %s is compared with its length: a key or value with trailing NUL bytes no longer compares equal (htp_table_get_c misses the first match; "gzip\\0" is not recognised)' % c1, f.loc)


def c17e(db, res):
    """NUL-insensitive search (used for "chunked" in Transfer-Encoding): a NUL byte of the haystack is skipped, i.e. the
    iteration that meets it moves the haystack cursor by one and leaves the needle cursor where it is."""
    res.rule('C17.e', 'NUL-insensitive search: in bstr_util_mem_index_of_mem_nocasenorzero every path of the inner loop from a true NUL test of the haystack byte back to the loop head has net effect +1 on the haystack cursor and 0 on the needle cursor')
    f = db.get('bstr_util_mem_index_of_mem_nocasenorzero')
    lps = C.loops(f)
    n = 0
    for b in f.blocks:
        c = f.cond_of(b)
        if not c:
            continue
        e = strip(c[0])
        if not (e.get('k') == 'bin' and e['op'] in ('==', '!=') and is_lit(e['r'], 0) and strip(e['l']).get('k') == 'index' and strip(strip(e['l'])['idx']).get('k') == 'var'):
            continue
        inner = [(h, body) for h, body in lps if b in body]
        if len(inner) < 2:
            continue                                       # the leading-NUL skip of the outer loop (C08.d)
        h, body = min(inner, key=lambda hb: len(hb[1]))
        hay = strip(strip(e['l'])['idx'])['name']
        # the needle cursor: the other variable stepped in this loop
        stepped = {strip(u['e'])['name'] for bb in body for st in f.blocks[bb]['stmts'] for u in nodes(st, lambda y: y.get('k') == 'un' and y['op'] in ('++', '++post', '--', '--post') and strip(y['e']).get('k') == 'var')}
        needle = sorted(stepped - {hay})
        tsucc = f.blocks[b]['succs'][0 if e['op'] == '==' else 1]
        for atoms, events, end, seq in P.enum_paths_seq(f, (tsucc, -1)):
            if end[0] != 'loop' or end[1] != h:
                continue
            n += 1
            delta = {}
            for x in seq:
                if x[0] != 'stmt':
                    continue
                for u in nodes(x[3], lambda y: y.get('k') == 'un' and y['op'] in ('++', '++post', '--', '--post') and strip(y['e']).get('k') == 'var'):
                    v = strip(u['e'])['name']
                    delta[v] = delta.get(v, 0) + (1 if '+' in u['op'] else -1)
            ok = delta.get(hay, 0) == 1 and all(delta.get(v, 0) == 0 for v in needle)
            res.check(ok, 'C17.e', 'index_of_nocasenorzero:nul-skip:net-effect', 'haystack cursor +1, needle cursor 0',
                      'the iteration that skips a NUL byte of the haystack has net effect %s: the NUL consumes a position of the needle (it acts as a wildcard) or the haystack cursor does not move - "ch\\0unked" is no longer found' % (delta,), c[0]['loc'])
    res.floor('C17.e', 'NUL-skip paths of the inner search loop', n, 1)


def _var_writes(f, blocks, name):
    """(block, node) of every write to the local `name` inside `blocks`"""
    out = []
    for bb in blocks:
        for st in f.blocks[bb]['stmts']:
            for y in nodes(st, lambda y: (y.get('k') == 'un' and y['op'] in ('++', '++post', '--', '--post') and strip(y['e']).get('k') == 'var' and strip(y['e'])['name'] == name)
                           or (y.get('k') == 'assign' and strip(y['l']).get('k') == 'var' and strip(y['l'])['name'] == name)):
                out.append((bb, y))
    return out


def c17g(db, res):
    """The substring searches are the naive algorithm: try every start position in turn. That is only correct if the start
    position moves by exactly one per attempt - skipping ahead by the length of a failed partial match loses occurrences
    that begin inside it ("aab" in "aaab") unless the skip comes from a failure table, which this code does not have."""
    res.rule('C17.g', 'substring search tries every start position: in each bstr_util_mem_index_of_mem* function the start cursor of the outer loop (the value returned on a match) is written exactly once inside that loop, by its ++ step')
    n = 0
    for name, f in sorted(db.fn.items()):
        if 'index_of_mem' not in name or not f.blocks or not f.loc.startswith('htp/bstr.c'):
            continue
        lps = C.loops(f)
        # the start cursor: a local returned (cast to int) from inside a loop
        rets = set()
        for b, i, st in f.returns() or []:
            rv = strip(P.ret_value(st)) if P.ret_value(st) is not None else None
            if rv is not None and rv.get('k') == 'var' and rv.get('vk', rv.get('kind')) != 'param':
                rets.add(rv['name'])
        for v in sorted(rets):
            outer = [(h, body) for h, body in lps if any(bb for bb in body if _var_writes(f, [bb], v))]
            if not outer:
                continue
            h, body = max(outer, key=lambda hb: len(hb[1]))
            ws = _var_writes(f, body, v)
            n += 1
            ok = len(ws) == 1 and ws[0][1].get('k') == 'un' and ws[0][1]['op'] in ('++', '++post')
            res.check(ok, 'C17.g', '%s:start-cursor:%s' % (name, v), 'the start position advances by one per attempt',
                      '%s changes its start position `%s` %d times inside the search loop (%s): after a failed partial match the search no longer resumes at the next byte, so an occurrence that begins inside the partial match is missed ("aab" in "aaab")'
                      % (name, v, len(ws), '; '.join(S(w) for b_, w in ws)), ws[-1][1].get('loc', f.loc) if ws else f.loc)
    res.floor('C17.g', 'search loops with a returned start cursor', n, 3)


NUMERIC_PARSERS = ['htp_parse_chunked_length', 'htp_parse_positive_integer_whitespace', 'bstr_util_mem_to_pint', 'htp_parse_content_length', 'htp_parse_port', 'htp_parse_status']


def c17h(db, res):
    """A numeric field is the whole run of digits. A scan that stops after a fixed number of digits, combined with the
    "cut off what follows the digits" step, silently drops the remaining digits: "100000005" is read as 0x10000000 instead of
    being refused as too large. The bound of a scan over the text is its length, never a constant."""
    res.rule('C17.h', 'numeric fields are scanned to their end: in the numeric parsers no loop that steps a cursor over the text leaves it because the cursor reached a constant; the only exits are the end of the text (cursor against a length) and a test of the byte at the cursor')
    n = 0
    for name in NUMERIC_PARSERS:
        f = db.fn.get(name)
        if f is None or not f.blocks:
            continue
        for h, body in C.loops(f):
            stepped = {strip(u['e'])['name'] for bb in body for st in f.blocks[bb]['stmts']
                       for u in nodes(st, lambda y: y.get('k') == 'un' and y['op'] in ('++', '++post', '--', '--post') and strip(y['e']).get('k') == 'var')}
            stepped |= {strip(a['l'])['name'] for bb in body for st in f.blocks[bb]['stmts']
                        for a in nodes(st, lambda y: y.get('k') == 'assign' and y['op'] in ('+=', '-=') and strip(y['l']).get('k') == 'var')}
            # a cursor over the text: stepped in the loop and used to subscript it
            subs = {strip(x['idx'])['name'] for bb in body for st in f.blocks[bb]['stmts'] for x in nodes(st, lambda y: y.get('k') == 'index' and strip(y['idx']).get('k') == 'var')}
            for bb in body:
                c_ = f.cond_of(bb)
                if c_:
                    subs |= {strip(x['idx'])['name'] for x in nodes(c_[0], lambda y: y.get('k') == 'index' and strip(y['idx']).get('k') == 'var')}
            stepped &= subs
            for bb in sorted(body):
                c = f.cond_of(bb)
                if not c or all(s_ in body for s_ in f.blocks[bb]['succs'] if s_ is not None):
                    continue                                   # not an exit of this loop
                a = P.canon(c[0], True)
                if not a:
                    continue
                n += 1
                cur_const = a[0] in stepped and re.match(r'^-?(0x[0-9a-fA-F]+|[0-9]+)$', a[2]) and a[1] in ('<', '<=', '>', '>=', '==', '!=') and a[2] not in ('0',)
                res.check(not cur_const, 'C17.h', '%s:loop-exit:%s%s%s' % (name, a[0], a[1], a[2] if not cur_const else 'K'), 'exit on the length of the text or on a byte test',
                          '%s leaves a scan of the text when its cursor `%s` reaches the constant %s: the digits beyond that position are cut off with the trailing junk and a longer number is read as its first digits instead of being refused' % (name, a[0], a[2]), c[0].get('loc', f.loc))
    # ... and no parser refuses a number because of the LENGTH of its text: leading zeros are part of a number, "0000000000000000000005"
    # is 5 (overflow is detected on the value, C17.b)
    for name in NUMERIC_PARSERS:
        f = db.fn.get(name)
        if f is None or not f.blocks:
            continue
        lens = {p['name'] for p in f.params if p['t'] in ('size_t', 'unsigned long') and 'len' in p['name']}
        # and counters of text bytes: locals stepped by ++
        lens |= {strip(u['e'])['name'] for b_, i_, st_ in f.stmts() for u in nodes(st_, lambda y: y.get('k') == 'un' and y['op'] in ('++', '++post') and strip(y['e']).get('k') == 'var')}
        for bb in sorted(f.blocks):
            c = f.cond_of(bb)
            a = P.canon(c[0], True) if c else None
            if a and a[0] in lens and re.match(r'^(0x[0-9a-fA-F]+|[0-9]+)$', a[2]) and int(a[2], 0) >= 2:
                res.violated('C17.h', '%s:length-cap:%s%s%s' % (name, a[0], a[1], 'K'), '%s tests the length of the number\'s text against the constant %s: a value written with leading zeros (or any text of that length) is refused although it fits' % (name, a[2]), c[0].get('loc', f.loc))
    res.floor('C17.h', 'loop exits in the numeric parsers', n, 8)


def c17i(db, res):
    """A chunk length is the run of hex digits at the start of the line; whatever follows it on the line (a chunk extension,
    blanks, junk) is cut off before the digits are converted. A path that hands the uncut line to the converter makes every
    chunk that carries an extension an invalid length."""
    res.rule('C17.i', 'the chunk length is converted from its digit run only: in htp_parse_chunked_length every path on which the digit scan stopped before the end of the line (i != len) cuts the line at the scan position (len = i) before the integer parser is called')
    f = db.get('htp_parse_chunked_length')
    calls = f.calls('htp_parse_positive_integer_whitespace')
    if not calls:
        raise AnalysisBroken('htp_parse_chunked_length no longer calls htp_parse_positive_integer_whitespace')
    n = 0
    bad = None
    for b, i, c in calls:
        L = P.K(c['args'][1])
        for atoms, events, end, seq in P.enum_paths_seq(f, (f.entry, -1), stop=lambda bb, ii, st, b=b, i=i: (bb, ii) == (b, i), max_paths=50000):
            if not (end[0] == 'stop' or (end[0] == 'return' and tuple(end[1:3]) == (b, i))):
                continue
            stopped = [a for a, e in atoms if a[2] == L and a[1] == '!=' and re.match(r'^[A-Za-z_]\w*$', a[0])]
            if not stopped:
                continue
            n += 1
            cur = stopped[-1][0]
            cut = any(x[0] == 'stmt' and any(w['op'] == '=' and strip(w['l']).get('k') == 'var' and strip(w['l'])['name'] == L and P.K(w['r']) == cur for w in nodes(x[3], lambda y: y.get('k') == 'assign')) for x in seq)
            if not cut:
                bad = c
    res.check(bad is None and n > 0, 'C17.i', 'htp_parse_chunked_length:junk-cut-before-conversion', 'all %d paths with trailing bytes cut the line at the end of the digits' % n,
              'htp_parse_chunked_length converts the line without cutting it at the end of the digit run on a path where something follows the digits: a chunk extension ("5;name=value") makes the chunk length invalid - the request stream ends in an error, the response falls back to identity and delivers framing as body', (bad or {}).get('loc', f.loc))
    res.floor('C17.i', 'paths with bytes after the digit run', n, 1)
