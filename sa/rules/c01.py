"""C01 — memory safety and clean teardown (DESIGN.md §4.1). The whole property is not decidable here; each
clause below is a necessary condition whose breach is an out-of-bounds access, a use-after-free or a leak."""
import re
from ..facts import load, S, strip, nodes, is_lit, lit_name, root_of, AnalysisBroken
from ..report import Result
from .. import cfg as C
from .. import pat as P
from ..nullness import Nullness, FREEISH
from ..owner import Ownership

TECHNIQUE = 'ownership inference (owning fields vs destructor release sets), must-analysis for guarded reads of the caller\'s chunk, must-precede rules for unlink-before-free, use-after-may-destroy rule, nullness of container lookups, contradiction rule for the NULL chunk pointer'


def c01c(db, res, own):
    res.rule('C01.c', 'destructor completeness: every field that some code stores an allocation into is released by the destructor of its record (element records without a destructor: released inline somewhere)')
    inline = own.released_inline()
    nrec = nfields = 0
    for rec, fields in sorted(own.owning.items()):
        if not rec:
            continue
        ds = own.all_dtors(rec)
        nrec += 1
        rel = set()
        for fn, pi in ds:
            rel |= own.released(fn, pi)
        for fld, (where, loc) in sorted(fields.items()):
            nfields += 1
            key = '%s.%s' % (rec, fld)
            if ds:
                ok = (rec, fld) in rel or own.chain_released(rec, fld)
                res.check(ok, 'C01.c', key, 'released by %s' % '/'.join(d[0] for d in ds),
                          '%s.%s owns memory (allocated in %s) but %s never releases it: the object leaks with every %s that is destroyed' % (rec, fld, where, ' / '.join(d[0] for d in ds), rec), loc)
            else:
                ok = (rec, fld) in inline
                res.check(ok, 'C01.c', key, 'released inline by the owners of %s' % rec, '%s.%s owns memory (allocated in %s) and no code ever frees it' % (rec, fld, where), loc)
    res.analysed['records with owning fields'] = nrec
    res.floor('C01.c', 'owning fields', nfields, 60)
    # per-message objects hung off connp are released by htp_connp_destroy
    d = own.released('htp_connp_destroy', 0)
    for fld in ('in_buf', 'out_buf', 'in_header', 'out_header', 'put_file', 'out_decompressor', 'req_decompressor'):
        res.check(('htp_connp_t', fld) in d, 'C01.c', 'htp_connp_destroy:releases:' + fld, 'released at parser teardown', 'htp_connp_destroy no longer releases connp->%s (a message in flight at teardown leaks it)' % fld, db.get('htp_connp_destroy').loc)


def c01d(db, res):
    res.rule('C01.d', 'unlink before free: the tx destructor removes the transaction from the connection list and from both parser slots before free(tx); remove_tx NULLs the slot (never shifts)')
    f = db.get('htp_tx_destroy_incomplete')
    frees = [(b, i, c) for b, i, c in f.calls('free') if P.K(c['args'][0]) == f.params[0]['name']]
    if not frees:
        res.violated('C01.d', 'htp_tx_destroy_incomplete:free(tx)', 'the tx destructor no longer frees the transaction', f.loc)
    for b, i, c in frees:
        for un in ('htp_conn_remove_tx', 'htp_connp_tx_remove'):
            missing = [None]

            def visit(bb, ii, st, un=un):
                if any(c2.get('callee') == un and P.K(c2['args'][1]) == f.params[0]['name'] for c2 in nodes(st, lambda y: y.get('k') == 'call')):
                    return True
                if (bb, ii) == (b, i):
                    missing[0] = st
                    return True
                return False
            C.forward(f, (f.entry, -1), visit)
            res.check(missing[0] is None, 'C01.d', 'htp_tx_destroy_incomplete:%s-before-free' % un, 'every path to free(tx) calls %s(…, tx) first' % un,
                      'free(tx) can be reached without %s(): the connection list / parser keeps a pointer to the freed transaction' % un, c['loc'])
    g = db.get('htp_connp_tx_remove')
    for fld in ('in_tx', 'out_tx'):
        ok = any(is_lit(w['r'], 0) and any(a == ('connp->' + fld, '==', 'tx') for a, e in P.facts_at(g, b)) for b, i, w in P.field_writes(g, fld))
        res.check(ok, 'C01.d', 'htp_connp_tx_remove:clears-' + fld, 'connp->%s is cleared when it is the transaction' % fld, 'htp_connp_tx_remove no longer clears connp->%s == tx' % fld, g.loc)
        other = 'connp->' + ('out_tx' if fld == 'in_tx' else 'in_tx')
        dep = [a for b, i, w in P.field_writes(g, fld) if is_lit(w['r'], 0) for a, e in P.facts_at(g, b) if a[0] == other]
        res.check(not dep, 'C01.d', 'htp_connp_tx_remove:%s-independent' % fld, 'the two slots are cleared independently',
                  'clearing connp->%s depends on a test of %s (%s): a transaction that is both in_tx and out_tx keeps one dangling slot after it is destroyed' % (fld, other, dep[:1]), g.loc)
    h = db.get('htp_conn_remove_tx')
    reps = h.calls('htp_list_array_replace')
    ok = len(reps) == 1 and is_lit(reps[0][2]['args'][2], 0) and not [c for b, i, c in h.calls() if c.get('callee') in ('htp_list_array_shift', 'htp_list_array_pop')]
    res.check(ok, 'C01.d', 'htp_conn_remove_tx:nulls-slot', 'the slot is replaced by NULL (indices of other transactions stay valid)', 'htp_conn_remove_tx no longer replaces the slot with NULL', h.loc)
    # connection teardown destroys every remaining tx
    cd = db.get('htp_conn_destroy')
    lp = [(hh, body) for hh, body in C.loops(cd) if any(c.get('callee') == 'htp_tx_destroy_incomplete' for bb in body for st in cd.blocks[bb]['stmts'] for c in nodes(st, lambda y: y.get('k') == 'call'))]
    res.check(bool(lp), 'C01.d', 'htp_conn_destroy:destroys-remaining-tx', 'remaining transactions are destroyed in a loop over the list', 'htp_conn_destroy no longer destroys the remaining transactions', cd.loc)


def may_destroy(db):
    """functions that can free the transaction passed as their first parameter (fixpoint over calls that pass it on)"""
    md = set()
    ch = True
    while ch:
        ch = False
        for n, f in db.fn.items():
            if n in md or not f.params or 'htp_tx_t' not in f.params[0]['t']:
                continue
            p = f.params[0]['name']
            for b, i, c in f.calls():
                if c['args'] and P.K(c['args'][0]) == p and (c.get('callee') == 'free' or c.get('callee') in md):
                    md.add(n)
                    ch = True
                    break
    return md


def c01e(db, res):
    res.rule('C01.e', 'no use after may-destroy: after a call that can free the transaction (computed: reaches free of its tx parameter) the same pointer is not dereferenced again')
    md = may_destroy(db)
    res.analysed['functions that may free their tx parameter'] = sorted(md)
    n = 0
    for name, f in sorted(db.fn.items()):
        for b, i, c in f.calls():
            if c.get('callee') not in md or not c['args']:
                continue
            V = P.K(c['args'][0])
            a0 = strip(c['args'][0])
            if a0.get('k') not in ('var',):
                continue                                   # connp->in_tx style arguments: the field is cleared by the callee (C01.d)
            n += 1
            used = []

            def visit(bb, ii, st):
                if (bb, ii) == (b, i):
                    return False
                if Nullness.reassigns(st, V):
                    return True
                d = Nullness.derefs(st, V)
                if d is not None:
                    used.append(d)
                    return True
                return False
            C.forward(f, (b, i), visit)
            key = '%s:after:%s(%s)' % (name, c['callee'], V)
            res.check(not used, 'C01.e', key, '%s is not dereferenced after the call' % V,
                      '%s dereferences %s (%s) after %s(), which may have freed it (auto-destroy on completion)' % (name, V, P.K(used[0])[:50] if used else '', c['callee']), (used[0] if used else c)['loc'])
    res.floor('C01.e', 'calls that may free a tx held in a local/parameter', n, 5)
    # a TRANSACTION_COMPLETE callback may destroy the transaction it is given (a callback behaviour the property quantifies over)
    nh = 0
    for name, f in sorted(db.fn.items()):
        for b, i, c in f.calls('htp_hook_run_all'):
            hk = P.K(c['args'][0]).split('hook_')[-1] if len(c.get('args', [])) == 2 else ''
            if hk not in ('transaction_complete', 'response_complete', 'request_complete'):
                continue
            HK = hk.upper()
            a1 = strip(c['args'][1])
            if a1 is None or a1.get('k') != 'var':
                continue
            V = P.K(a1)
            nh += 1
            used = []

            def visit(bb, ii, st):
                if (bb, ii) == (b, i):
                    return False
                if Nullness.reassigns(st, V):
                    return True
                d = Nullness.derefs(st, V)
                if d is not None:
                    used.append(d)
                    return True
                return False
            C.forward(f, (b, i), visit)
            key = '%s:after:%s-callbacks(%s)' % (name, HK, V)
            res.check(not used, 'C01.e', key, '%s is not dereferenced after the callbacks ran' % V,
                      '%s dereferences %s (%s) after the %s callbacks ran; a callback may have destroyed the transaction when both sides are complete by then - htp_tx_destroy() accepts it (heap use-after-free)' % (name, V, P.K(used[0])[:60] if used else '', HK), (used[0] if used else c)['loc'])
    res.floor('C01.e', 'completion hook runs (TRANSACTION / RESPONSE / REQUEST COMPLETE)', nh, 3)


BORROWS = {('htp_ch_multipart_callback_request_body_data', 'htp_param_t', 'name'): 'text parts hand their name and value over to the parameter; the parser gives them up afterwards (gave_up_data, C18.d)',
           ('htp_ch_multipart_callback_request_body_data', 'htp_param_t', 'value'): 'same hand-over'}


def c01p(db, res, own):
    """A field that its record's destructor releases must own what it points to.  Storing the value of some other record's field
    into it makes two owners of one block (or frees memory that was only borrowed): the first destructor that runs frees what
    the other still uses."""
    # ---- C01.q a view handed out through (&pointer, &length) is never lengthened by hand
    res.rule('C01.q', 'a view is never lengthened by hand: a local length that a callee filled in through adjacent out-parameters (&data, &len) - the consolidated line - is not incremented afterwards; the bytes behind the view are not there (the view may be the carry buffer, which ends at the old length), a longer line is obtained by asking for the view again')
    nq = 0
    for name, f in sorted(db.fn.items()):
        if not f.blocks:
            continue
        for b, i, c in f.calls():
            args = c.get('args') or []
            for j in range(len(args) - 1):
                a0, a1 = strip(args[j]), strip(args[j + 1])
                if not (a0.get('k') == 'un' and a0['op'] == '&' and strip(a0['e']).get('k') == 'var' and a1.get('k') == 'un' and a1['op'] == '&' and strip(a1['e']).get('k') == 'var'):
                    continue
                D, L = strip(a0['e']), strip(a1['e'])
                if '*' not in (D.get('t') or '*') or (L.get('t') or '') not in ('size_t', 'unsigned long', 'int', 'unsigned int', 'uint32_t', 'uint64_t', 'long'):
                    continue
                nq += 1
                grown = None
                after = C.reachable(f, b)
                for bb, ii, st in f.stmts():
                    if not ((bb == b and ii > i) or (bb != b and bb in after)):
                        continue
                    for y in nodes(st, lambda y: (y.get('k') == 'un' and y['op'] in ('++', '++post') and strip(y['e']).get('k') == 'var' and strip(y['e'])['name'] == L['name'])
                                   or (y.get('k') == 'assign' and y['op'] == '+=' and strip(y['l']).get('k') == 'var' and strip(y['l'])['name'] == L['name'])):
                        grown = y
                key = '%s:%s(&%s,&%s)' % (name, c.get('callee'), D['name'], L['name'])
                res.check(grown is None, 'C01.q', key, 'the length of the view is only ever reduced or refilled',
                          '%s lengthens `%s` by hand after %s() handed out the view (%s, %s): when the view is the carry buffer it ends at the old length, and whoever is given (%s, %s) reads past the allocation' % (name, L['name'], c.get('callee'), D['name'], L['name'], D['name'], L['name']), (grown or c).get('loc', f.loc))
    res.floor('C01.q', 'views handed out through adjacent out-parameters', nq, 10)
    # ---- C01.r positions and lengths kept in parser state are not narrowed
    res.rule('C01.r', 'positions keep their width: no store into an integer field of a parser state record (htp_connp_t, htp_tx_t, htp_mpartp_t, htp_multipart_part_t, htp_urlenp_t) takes a non-constant value of a wider integer type - an offset into a chunk of more than 64 KiB (or 4 GiB) is not cut to its low bits')
    WIDTH = {'unsigned long': 64, 'long': 64, 'unsigned long long': 64, 'long long': 64, 'unsigned int': 32, 'int': 32, 'unsigned short': 16, 'short': 16, 'unsigned char': 8, 'char': 8, 'signed char': 8}
    nr = 0
    for name, f in sorted(db.fn.items()):
        if not f.blocks or f.loc.startswith('htp/lzma/'):
            continue
        for b, i, st in f.stmts():
            for a in nodes(st, lambda y: y.get('k') == 'assign' and y['op'] == '=' and strip(y['l']).get('k') == 'member' and strip(y['l']).get('rec') in ('htp_connp_t', 'htp_tx_t', 'htp_mpartp_t', 'htp_multipart_part_t', 'htp_urlenp_t')):
                r = strip(a['r'])
                lt, rt = a.get('t'), (r or {}).get('t')
                if lt not in WIDTH or rt not in WIDTH:
                    continue
                nr += 1
                narrow = WIDTH[rt] > WIDTH[lt] and r.get('k') != 'lit'
                l = strip(a['l'])
                if narrow:
                    res.violated('C01.r', '%s:%s.%s' % (name, l.get('rec'), l['field']), '%s stores %s (a %s) into %s.%s, which is a %s: the value is cut to its low %d bits - a position or length beyond that range silently becomes a different one, and the bytes in between are lost or read twice' % (name, S(r)[:50], rt, l.get('rec'), l['field'], lt, WIDTH[lt]), a['loc'])
    res.floor('C01.r', 'integer stores into parser state records', nr, 100)
    if not [o for o in res.obs if o['rule'] == 'C01.r']:
        res.holds('C01.r', 'parser-state-widths', '%d integer stores into parser state records, none narrows a non-constant value' % nr, '')
    # ---- C01.s a local that the function frees on one exit is freed (or handed on) on every exit
    res.rule('C01.s', 'what a function frees on one way out it frees on every way out: a local that holds a fresh allocation and is released by the function itself on some path is, on every path from the successful allocation to a return, released, stored somewhere, returned or handed to a callee that may keep it (a pointer-to-const parameter does not keep)')
    from ..nullness import Nullness, FREEISH
    nl_ = Nullness(db)
    ns = 0
    for name, f in sorted(db.fn.items()):
        if not f.blocks or f.loc.startswith('htp/lzma/'):
            continue
        allocs = []
        for b, i, st in f.stmts():
            for d in nodes(st, lambda y: y.get('k') == 'decl'):
                for v in d['vars']:
                    ini = strip(v['init']) if v.get('init') is not None else None
                    if ini is not None and ini.get('k') == 'call' and ini.get('callee') in nl_.mayfail and '*' in (v.get('t') or '*'):
                        allocs.append((b, i, v['name'], ini))
            for a in nodes(st, lambda y: y.get('k') == 'assign' and y['op'] == '=' and strip(y['l']).get('k') == 'var' and strip(y['l']).get('decl') == 'local'):
                r = strip(a['r'])
                if r is not None and r.get('k') == 'call' and r.get('callee') in nl_.mayfail:
                    allocs.append((b, i, strip(a['l'])['name'], r))
        for b, i, L, call in allocs:
            def frees(st, L=L):
                return any(c2.get('callee') and FREEISH(c2['callee']) and c2.get('args') and P.K(c2['args'][0]) == L for c2 in nodes(st, lambda y: y.get('k') == 'call'))
            if not any(frees(st) for bb, ii, st in f.stmts()):
                continue                                   # not released here: owned by someone else (C01.c / C18)
            ns += 1
            bad = None
            try:
                paths = P.enum_paths_seq(f, (b, i), max_paths=20000)
            except AnalysisBroken:
                res.unknown('C01.s', '%s:%s' % (name, L), 'too many paths', call['loc'])
                continue
            for atoms, events, end, seq in paths:
                if end[0] != 'return':
                    continue
                if any(a_[0] == L and a_[1] == '==' and a_[2] == '0' for a_, e_ in atoms):
                    continue                               # the allocation failed on this path
                done = False
                for x in seq[1:]:
                    if x[0] != 'stmt':
                        continue
                    st = x[3]
                    if frees(st):
                        done = True
                    for a in nodes(st, lambda y: y.get('k') == 'assign'):
                        if strip(a['r']) is not None and strip(a['r']).get('k') == 'var' and strip(a['r'])['name'] == L and not (strip(a['l']).get('k') == 'var' and strip(a['l'])['name'] == L):
                            done = True                      # stored / aliased (the pointer itself, not a value computed from it)
                        if strip(a['l']).get('k') == 'var' and strip(a['l'])['name'] == L and a is not None and x is not seq[0]:
                            done = True                      # re-bound (the old value was dealt with by the re-binding idiom: x = f(x))
                    for d_ in nodes(st, lambda y: y.get('k') == 'decl'):
                        for v_ in d_['vars']:
                            if v_.get('init') is not None and v_['name'] != L and strip(v_['init']).get('k') == 'var' and strip(v_['init'])['name'] == L:
                                done = True                  # aliased by another local (`bstr *name = field;`): that local's business
                    for c2 in nodes(st, lambda y: y.get('k') == 'call'):
                        if c2.get('callee') and FREEISH(c2['callee']):
                            continue
                        callee = db.fn.get(c2.get('callee') or '')
                        for ai, a in enumerate(c2.get('args') or []):
                            if strip(a).get('k') == 'var' and strip(a)['name'] == L:
                                pt = callee.params[ai]['t'] if callee is not None and ai < len(callee.params) else ''
                                if not pt.startswith('const ') or 'void' in pt or re.search(r'add|push|append|replace|register|insert', c2.get('callee') or ''):
                                    done = True              # may keep it (containers take `const void *` elements)
                    if st.get('k') == 'return' and st.get('e') is not None and any(strip(v).get('name') == L for v in nodes(st['e'], lambda y: y.get('k') == 'var')):
                        done = True
                if not done:
                    bad = end[3]
            res.check(bad is None, 'C01.s', '%s:%s=%s()' % (name, L, call.get('callee')), 'released or handed on on every way out',
                      '%s releases `%s` (from %s) on some of its exits but returns without releasing it on another: the block is unreachable after that return - one leak per message that takes this path' % (name, L, call.get('callee')), (bad or call).get('loc', f.loc))
    res.floor('C01.s', 'locals that the function itself releases', ns, 10)
    res.rule('C01.p', 'owning fields own: a field that receives allocations somewhere (and is released with its record) is never assigned the value read from another record\'s field - a borrowed pointer - except at the tabled hand-overs')
    n = 0
    for name, f in sorted(db.fn.items()):
        if not f.blocks or f.loc.startswith('htp/lzma'):
            continue
        for b, i, st in f.stmts():
            for x in nodes(st, lambda y: y.get('k') == 'assign' and y['op'] == '=' and (strip(y['l']) or {}).get('k') == 'member'):
                l, r = strip(x['l']), strip(x['r'])
                if l.get('field') not in own.owning.get(l.get('rec'), {}):
                    continue
                n += 1
                if r is None or r.get('k') != 'member' or own.is_alloc_expr(x['r'], f):
                    continue
                key = '%s:%s.%s=%s' % (name, l.get('rec'), l['field'], P.K(r))
                why = BORROWS.get((name, l.get('rec'), l['field']))
                if why:
                    res.holds('C01.p', key, 'reviewed hand-over: ' + why, x['loc'])
                else:
                    res.violated('C01.p', key, '%s stores %s - a pointer that belongs to another record - into %s.%s, which elsewhere holds an allocation of its own and is released with its record: the first of the two owners to be destroyed frees memory the other still uses' % (name, P.K(r), l.get('rec'), l['field']), x['loc'])
    res.floor('C01.p', 'stores into owning fields', n, 60)
    if not [o for o in res.obs if o['rule'] == 'C01.p' and o['status'] == 'VIOLATED']:
        res.holds('C01.p', 'owning-fields-own', '%d stores into owning fields, none of a borrowed pointer outside the tabled hand-overs' % n, '')


def c01g(db, res):
    res.rule('C01.g', 'the chunk pointer may be NULL (close / gap): every arithmetic on {in,out}_current_data is dominated by a non-NULL test of it or by read_offset < len')
    n = 0
    for d in ('in', 'out'):
        cur = 'connp->%s_current_data' % d
        off, ln = 'connp->%s_current_read_offset' % d, 'connp->%s_current_len' % d
        for name, f in sorted(db.fn.items()):
            for b, i, st in f.stmts():
                for x in nodes(st, lambda y: y.get('k') == 'bin' and y['op'] == '+' and P.K(y['l']) == cur):
                    n += 1
                    facts = [a for a, e in P.facts_at(f, b)]
                    nonnull = (cur, '!=', '0') in facts
                    # guarded inside the expression: (p == NULL) ? NULL : p + off
                    for cnd in nodes(st, lambda y: y.get('k') == 'cond'):
                        ca = P.canon(cnd['c'])
                        if ca and ca[0] == cur and ca[2] == '0':
                            arm = cnd['b'] if ca[1] == '==' else cnd['a'] if ca[1] == '!=' else None
                            if arm is not None and any(y is x for y in nodes(arm, lambda y: y.get('k') == 'bin')):
                                nonnull = True
                    hasbytes = (off, '<', ln) in facts or any('current_read_offset' in a[0] and 'current_consume_offset' in a[0] and a[1] in ('>=', '>') and a[2].isdigit() and int(a[2]) > 0 for a in facts) or any(a[1] == '!=' and a[2] == '0' and ('bytes' in a[0] or 'len' in a[0]) for a in facts) or any(a[0] in ('bytes_to_consume', 'bytes_left') and a[1] in ('!=', '>') and a[2] == '0' for a in facts)
                    key = '%s:%s+offset' % (name, cur.split('->')[1])
                    res.check(nonnull or hasbytes, 'C01.g', key, 'guarded by a non-NULL test or by bytes being available',
                              '%s computes %s + offset with no dominating test that the chunk pointer is not NULL; the drivers are entered with data == NULL on close (and the buffering routine itself tests for it): NULL + offset is undefined behaviour' % (name, cur), x['loc'])
    res.floor('C01.g', 'pointer arithmetic on the chunk pointer', n, 8)


def c01a(db, res):
    res.rule('C01.a', 'chunk reads are guarded: every read {in,out}_current_data[E] follows, on all paths, a test E < {in,out}_current_len with no write to the index or the length in between')
    n = 0
    for d in ('in', 'out'):
        cur = 'connp->%s_current_data' % d
        ln = 'connp->%s_current_len' % d
        for name, f in sorted(db.fn.items()):
            for b, i, st in f.stmts():
                for x in nodes(st, lambda y: y.get('k') == 'index' and P.K(y['base']) == cur):
                    n += 1
                    E = P.K(x['idx'])
                    idx0 = strip(x['idx'])
                    base_v = E
                    k_need = 0
                    if idx0.get('k') == 'bin' and idx0['op'] == '+' and is_lit(idx0['r']):
                        base_v, k_need = P.K(idx0['l']), strip(idx0['r'])['v']

                    def gen_edge(bb, j, base_v=base_v, k_need=k_need):
                        c = f.cond_of(bb)
                        if not c:
                            return False
                        a = P.canon(c[0], j == 0)
                        if not a or a[2] != ln or a[1] != '<':
                            # also len > E
                            return bool(a) and a[0] == ln and a[1] == '>' and a[2] == base_v and k_need == 0
                        if a[0] == base_v and k_need == 0:
                            return True
                        # E + k < len with k >= needed
                        import re
                        m = re.match(r'^\((.*) \+ (\d+)\)$', a[0])
                        return bool(m) and m.group(1) == base_v and int(m.group(2)) >= k_need

                    def kills(s, base_v=base_v):
                        return bool(C.writes_in(s, lambda k: k in (base_v, ln)))
                    before = C.must_hold(f, gen_edge, kills)
                    key = '%s:%s[%s]@%s' % (name, cur.split('->')[1], E.replace('connp->', ''), x.get('macro') or 'direct')
                    res.check(before(b, i), 'C01.a', key, 'preceded on all paths by a fresh test against the chunk length',
                              '%s reads %s[%s] on a path without a fresh test %s < %s: a read past the end of the caller\'s chunk' % (name, cur, E, E, ln), x['loc'])
    res.floor('C01.a', 'reads of the caller\'s chunk', n, 14)


def c01f(db, res, nl):
    res.rule('C01.f', 'nullable lookups: results of htp_list_get / htp_table_get* / pop / shift are NULL-tested before they are dereferenced, unless the index is provably below the size of the same container (loop `i < n` with n = size)')
    LOOK = {'htp_list_array_get', 'htp_table_get', 'htp_table_get_c', 'htp_table_get_mem', 'htp_table_get_index', 'htp_list_array_pop', 'htp_list_array_shift'}
    n = 0
    for name, f in sorted(db.fn.items()):
        for b, i, V, call, l in nl.tracked_sites(f, LOOK):
            n += 1
            viol = nl.scan(f, (b, i), V)
            key = '%s:%s=%s()' % (name, V, call['callee'])
            if not viol:
                res.holds('C01.f', key, 'tested before use (or not dereferenced)', call['loc'])
                continue
            # index provably < size: the call is in a loop whose condition is idx < n with n defined as the size of the same container
            cont = P.K(call['args'][0])
            ok = False
            if call['callee'] in ('htp_list_array_get', 'htp_table_get_index') and len(call['args']) > 1:
                idx = P.K(call['args'][1])
                for a, e in P.facts_at(f, b):
                    if a[0] == idx and a[1] == '<':
                        bound = a[2]
                        # bound is size(cont) directly, or a local initialised from it
                        sizes = {'htp_list_array_size(%s)' % cont, 'htp_table_size(%s)' % cont}
                        defs = [P.K(v['init']) for bb, ii, st in f.stmts() for dcl in nodes(st, lambda y: y.get('k') == 'decl') for v in dcl['vars'] if v['name'] == bound and 'init' in v]
                        if bound in sizes or any(dv in sizes for dv in defs):
                            ok = True
            kind, node, extra = viol[0]
            if ok:
                res.holds('C01.f', key, 'index is below the size of the same container (loop bound)', call['loc'])
            else:
                # elements may legitimately be NULL only where the code stores NULLs (the transaction list)
                res.unknown('C01.f', key, 'result of %s() is used without a NULL test and the index is not tied to the container size' % call['callee'], node['loc'])
    res.floor('C01.f', 'container lookups', n, 40)


def c01h(db, res):
    """state-machine re-dispatch: `goto LABEL` back to a switch on a state field, taken after the cursor was advanced,
    bypasses the enclosing `while (pos < len)`; the arm selected by the state constant assigned just before the goto
    must re-test the cursor before it reads data[pos]."""
    from .. import guards as G
    res.rule('C01.h', 'state-machine re-dispatch by goto: after a goto back to the state switch the selected arm re-tests the cursor against the length before its first read (the jump bypasses the enclosing loop guard)')
    n = 0
    for name, f in sorted(db.fn.items()):
        labels = {b: blk['label'].get('name') for b, blk in f.blocks.items() if blk.get('label', {}).get('kind') == 'LabelStmt'}
        if not labels:
            continue
        pairs = G.pairs_of(f)
        for lb, lname in labels.items():
            # the label must lead to a switch on a member field
            sw = None
            w = [lb]
            seen = set()
            while w and sw is None:
                x = w.pop()
                if x in seen:
                    continue
                seen.add(x)
                if f.blocks[x].get('term', {}).get('kind') == 'SwitchStmt':
                    sw = x
                    break
                if len([s for s in f.blocks[x]['succs'] if s is not None]) == 1:
                    w += [s for s in f.blocks[x]['succs'] if s is not None]
            if sw is None or not f.blocks[sw]['stmts']:
                continue
            field = P.K(f.blocks[sw]['stmts'][-1])
            for gb in f.preds.get(lb, []):
                if f.blocks[gb].get('term', {}).get('kind') != 'GotoStmt':
                    continue
                # constant assigned to the state field in the goto's block
                const = None
                for st in f.blocks[gb]['stmts']:
                    for a in nodes(st, lambda y: y.get('k') == 'assign' and P.K(y['l']) == field and strip(y['r']).get('k') == 'lit'):
                        const = strip(a['r'])
                if const is None:
                    continue
                n += 1
                target = None
                for s in f.blocks[sw]['succs']:
                    if s is not None and f.blocks[s].get('label', {}).get('kind') == 'CaseStmt' and f.blocks[s]['label'].get('v') == const['v']:
                        target = s
                if target is None:
                    continue
                # first event on the selected arm: a test of an index against its paired length, or a read through it
                verdict = [None]

                def visit(bb, ii, st):
                    for x in nodes(st, lambda y: y.get('k') == 'index' and P.K(y['base']) in pairs):
                        t = G.term(x['idx'])
                        if t and t[0] not in ('0',):
                            verdict[0] = ('read', x, t[0], pairs[P.K(x['base'])])
                            return True
                    a = P.canon(st) if f.cond_of(bb) and f.blocks[bb]['stmts'][-1] is st else None
                    if a and a[1] in ('<', '>=') and a[2] in pairs.values():
                        verdict[0] = ('test', st)
                        return True
                    return False
                C.forward(f, (target, -1), visit, edge_ok=lambda bb, j: True)
                key = '%s:goto-%s:state=%s' % (name, lname, const.get('name') or const['v'])
                if verdict[0] and verdict[0][0] == 'read':
                    kind, x, v, L = verdict[0]
                    # is the cursor known to be below the length at the goto? (guard analysis facts at the goto block)
                    proved = [False]

                    def on_index(xx, fs, b2, i2):
                        pass
                    # evaluate the facts at the end of the goto block
                    facts_end = {}

                    def grab(xx, fs, b2, i2):
                        if b2 == gb:
                            facts_end['k'] = fs.get((v, L), -G.INF)
                    G.analyse(f, grab)
                    # no subscript in the goto block: recompute by running the block transfer
                    kk = facts_end.get('k')
                    if kk is None:
                        kk = _facts_at_block_end(f, gb, v, L)
                    res.check(kk >= 0, 'C01.h', key, 'the cursor is below the length at the jump',
                              '%s advances %s and jumps back to the state switch with %s = %s; that arm reads %s[%s] at once, but the jump bypasses the `%s < %s` loop test and nothing re-tests it: when the chunk ends right there the read is one byte past the caller\'s buffer' % (
                                  name, v, field, const.get('name') or const['v'], P.K(x['base']), v, v, L), x['loc'])
                else:
                    res.holds('C01.h', key, 'the selected arm re-tests the cursor before reading', f.blocks[gb]['stmts'][-1]['loc'] if f.blocks[gb]['stmts'] else f.loc)
    res.analysed['C01.h re-dispatch gotos with a constant state'] = n


def _facts_at_block_end(f, gb, v, L):
    from .. import guards as G
    out = {}
    # run the analysis and capture the state at the end of block gb by appending a probe through on_index of successors is not possible;
    # instead recompute: IN[gb] is not exposed, so run a tiny re-implementation using analyse's callback on a synthetic subscript
    blk = f.blocks[gb]
    probe = {'k': 'index', 'base': {'k': 'var', 'name': '__probe__'}, 'idx': {'k': 'var', 'name': v}, 'loc': ''}
    blk['stmts'].append(probe)
    try:
        def cb(x, fs, b2, i2):
            if x is probe:
                out['k'] = fs.get((v, L), -G.INF)
        G.analyse(f, cb)
    finally:
        blk['stmts'].pop()
    return out.get('k', -G.INF)


def c01l(db, res):
    """A gap is a chunk with data == NULL and len > 0.  The drivers dispatch it only to the states named in their gap arm;
    those states (and what they call inside the library) must never look at the bytes of the chunk: a subscript or a copy from
    {in,out}_current_data there dereferences NULL."""
    from .c09 import DRIVERS
    res.rule('C01.l', 'gap safety: every state function that a driver dispatches for a gap chunk (data == NULL, len > 0) reads no byte of the chunk - no subscript on, dereference of or copy from {in,out}_current_data in it or in the library functions it calls (hooks are leaves)')
    n = 0
    for d, dn in DRIVERS.items():
        f = db.get(dn)
        cur = '%s_current_data' % d
        # the gap arm: blocks under the facts data == NULL and len > 0; the states it compares the state field with
        states = set()
        for b in f.blocks:
            c = f.cond_of(b)
            if not c:
                continue
            a = P.canon(c[0])
            if a and a[0] == 'connp->%s_state' % d and a[1] == '==' and any(x[0] == ('data', '==', '0') for x in P.facts_at(f, b)):
                # dispatched through the state pointer?  (REQ/RES_FINALIZE is completed by a direct call instead)
                found = []

                def visit(bb, ii, st, d=d):
                    if any(P.member_field(c_.get('fnexpr')) == '%s_state' % d for c_ in nodes(st, lambda y: y.get('k') == 'call' and 'fnexpr' in y)):
                        found.append(st)
                        return True
                    if any(c_.get('callee') and c_['callee'] != 'htp_log' for c_ in nodes(st, lambda y: y.get('k') == 'call')):
                        return True                              # this arm handles the gap by a direct call
                    cc = f.cond_of(bb)
                    return bool(cc and cc[0] is st and (P.canon(st) or ('',))[0] == 'connp->%s_state' % d)
                C.forward(f, (f.blocks[b]['succs'][0], -1), visit)
                if found:
                    states.add(a[2])
        if not states:
            res.holds('C01.l', dn + ':no-gap-arm', 'the driver has no gap arm', f.loc)
            continue
        # which of them are dispatched through the state pointer (the others are handled by a direct call of something else)
        for stn in sorted(states):
            sf = db.fn.get(stn)
            if sf is None:
                continue
            n += 1
            seen, work, bad = set(), [stn], []
            while work:
                g = work.pop()
                if g in seen or g not in db.fn:
                    continue
                seen.add(g)
                gf = db.fn[g]
                for b, i, st in gf.stmts():
                    for x in nodes(st, lambda y: y.get('k') in ('index', 'un', 'call')):
                        if x['k'] == 'index' and P.member_field(x['base']) == cur:
                            bad.append((g, x))
                        elif x['k'] == 'un' and x['op'] == '*' and P.member_field(x['e']) == cur:
                            bad.append((g, x))
                        elif x['k'] == 'call':
                            if x.get('callee') in ('memcpy', 'memchr', 'memcmp') and any(cur in P.K(a_) for a_ in x['args'][:2]):
                                bad.append((g, x))
                            elif x.get('callee') in db.fn and not x['callee'].startswith('htp_hook_run') and x['callee'] != 'htp_log':
                                work.append(x['callee'])
            key = '%s:gap->%s' % (dn, stn)
            if bad:
                g, x = bad[0]
                res.violated('C01.l', key, '%s is dispatched for a gap chunk (data == NULL) and %s reads the chunk: %s - a NULL dereference when the gap arrives in that state' % (stn, g, S(x)[:80]), x['loc'])
            else:
                res.holds('C01.l', key, 'reads no byte of the chunk (%d library functions followed)' % len(seen), sf.loc)
    res.floor('C01.l', 'states dispatched for a gap chunk', n, 2)


def c01i(db, res, own):
    """A slot that holds an allocation is not overwritten with a new one: for every store of a fresh allocation into a
    record field inside a loop there is no path from the store, around the loop, back to the same store along which the
    slot is neither released / cleared nor moved (its cursor or a guard variable reassigned) nor tested empty."""
    res.rule('C01.i', 'no loop-carried overwrite of an owning slot: from a store `S = alloc()` inside a loop, every path back to the same store releases or clears S, tests S == NULL, or reassigns a local that S (or the guard of the store) depends on')
    n = 0
    for name, f in sorted(db.fn.items()):
        if not f.blocks:
            continue
        lp = C.loops(f)
        if not lp:
            continue
        for b, i, st in f.stmts():
            if not any(b in body for h, body in lp):
                continue
            for x in nodes(st, lambda y: y.get('k') == 'assign' and y['op'] == '='):
                l = strip(x['l'])
                if l.get('k') != 'member' or not own.is_alloc_expr(x['r'], f):
                    continue
                n += 1
                L = P.K(x['l'])
                V = {v['name'] for v in nodes(x['l'], lambda y: y.get('k') == 'var' and y.get('decl') == 'local')}
                for a, e in P.facts_at(f, b):
                    # a NULL test of a pointer local that guards the store (`if (cur == NULL) first = alloc(); else cur->next = alloc();`)
                    cond = f.blocks[e[0]]['stmts'][-1] if f.blocks[e[0]]['stmts'] else None
                    if cond is not None and a[2] == '0' and a[1] in ('==', '!='):
                        V |= {v['name'] for v in nodes(cond, lambda y: y.get('k') == 'var' and y.get('decl') == 'local' and '*' in (y.get('t') or '') and y['name'] == a[0])}
                bad = []

                def visit(bb, ii, s2):
                    if (bb, ii) == (b, i):
                        bad.append(s2)
                        return True
                    for y in nodes(s2):
                        if y['k'] == 'assign' and y is not x and (P.K(y['l']) == L or L.startswith(P.K(y['l']) + '->')):
                            return True                                   # cleared or re-stored elsewhere (that store has its own instance), or the record that holds the slot is replaced
                        if y['k'] == 'assign' and strip(y['l']).get('k') == 'var' and strip(y['l'])['name'] in V:
                            return True                                   # the slot (or its guard) moves
                        if y['k'] == 'decl' and any(v['name'] in V and 'init' in v for v in y['vars']):
                            return True
                        if y['k'] == 'call' and (y.get('callee') in FREEISH_ or (y.get('callee') or '').endswith(('_free', '_destroy'))) and any(P.K(a_) == L for a_ in y['args']):
                            return True
                    return False

                def edge_ok(bb, j):
                    c = f.cond_of(bb)
                    if c:
                        a = P.canon(c[0])
                        if a and (a[0] == L or L.startswith(a[0] + '->')) and a[2] == '0' and ((a[1] == '==' and j == 0) or (a[1] == '!=' and j == 1)):
                            return False                                   # the slot (or the record it lives in) is tested empty on this edge: it does not hold the allocation
                    return True
                C.forward(f, (b, i), visit, edge_ok)
                key = '%s:%s=alloc' % (name, L)
                res.check(not bad, 'C01.i', key, 'every way back to this store releases, clears, tests or moves the slot (depends on %s)' % (sorted(V) or 'no local'),
                          'the loop can come back to this store with %s still holding the previous allocation and nothing that it depends on (%s) changed: the previous object is overwritten and never released' % (L, sorted(V) or 'no local'), x['loc'])
    res.floor('C01.i', 'allocation stores into record fields inside loops', n, 6)


FREEISH_ = ('free', 'bstr_free', 'htp_gzip_decompressor_destroy', 'htp_table_destroy', 'htp_list_array_destroy')


def run(repo='/repo', tier='quick'):
    res = Result('C01')
    db = load(repo)
    nl = Nullness(db)
    own = Ownership(db, nl)
    c01a(db, res)
    c01c(db, res, own)
    c01d(db, res)
    c01e(db, res)
    c01f(db, res, nl)
    c01g(db, res)
    c01h(db, res)
    c01i(db, res, own)
    c01p(db, res, own)
    c01l(db, res)
    from . import c01j
    c01j.run(db, res)
    c01j.run_reads(db, res)
    try:
        from . import c01b
        c01b.run(db, res)
    except ImportError:
        pass
    res.assumptions += ['full absence of undefined behaviour for every input is not decided (no relational bounds / heap-shape prover is available offline); each clause is a necessary condition',
                        'user callbacks are opaque and do not free what they are handed; a callback that destroys the completed transaction inside TRANSACTION_COMPLETE is outside what the rules model',
                        'index arithmetic by small constants does not wrap']
    from . import retain
    retain.run(db, res)
    from . import useb4test
    useb4test.run(db, res)
    useb4test.run_strncpy(db, res)
    return res
