"""C01.m - a caller's byte buffer is not kept beyond the call.  Interprocedural, flow-insensitive escape analysis over the
fact base: for every function and every pointer parameter, the set of local variables that hold a pointer into the
parameter's buffer (or point to a freshly allocated object that holds one) is propagated through assignments, pointer
arithmetic, casts and calls (summaries: `returns an alias of parameter j`, `keeps parameter j`, `returns a fresh object`),
to a fixpoint over the call graph.  A function KEEPS parameter i when such a pointer is stored through a pointer that is
not a fresh local object (a field of a structure that outlives the call, a container slot) or is passed to a callee that
keeps it.  Copies (bstr_dup_mem, memcpy into own storage) do not propagate anything."""
from ..facts import S, strip, nodes, is_lit

ALLOC = {'malloc', 'calloc', 'realloc'}


def is_ptr(t):
    return bool(t) and t.rstrip().endswith('*')


def root_of(l):
    """(root var node, through_pointer): through_pointer is True when the chain from the root dereferences a pointer"""
    thru = False
    x = strip(l)
    while x is not None:
        k = x.get('k')
        if k == 'member':
            thru = thru or bool(x.get('arrow'))
            x = strip(x['base'])
        elif k == 'index':
            b = strip(x['base'])
            if not ((b or {}).get('t') or '').endswith(']'):
                thru = True
            x = b
        elif k == 'un' and x.get('op') == '*':
            thru = True
            x = strip(x['e'])
        elif k == 'var':
            return x, thru
        else:
            return None, thru
    return None, thru


class Summ:
    def __init__(self):
        self.keeps = {}      # (fn, i) -> (loc, how)
        self.ret_alias = set()  # (fn, i)
        self.out_alias = set()  # (fn, i, k): *param_k = alias of param i
        self.fresh = set()   # functions that return a fresh object (or NULL)
        self.ret_chunk = set()  # functions that return a pointer into the current chunk
        self.out_chunk = set()  # (fn, k): *param_k = pointer into the current chunk
        self.keeps_chunk = {}   # fn -> (loc, how)
        self.keeps_field = {}   # (fn, i) -> (loc, how)


def all_stmts(f):
    for b, blk in f.blocks.items():
        for st in blk['stmts']:
            yield st
        if blk.get('term'):
            yield blk['term']


def compute_fresh(db, sm):
    changed = True
    while changed:
        changed = False
        for name, f in db.fn.items():
            if name in sm.fresh or not f.blocks:
                continue
            defs = local_defs(f)
            rets = [x for st in all_stmts(f) for x in nodes(st, lambda y: y.get('k') == 'return')]
            if not rets or not is_ptr(f.ret if hasattr(f, 'ret') else '*'):
                continue
            ok = True
            for r in rets:
                e = strip(r.get('e'))
                if e is None:
                    ok = False
                    break
                if is_lit(e, 0):
                    continue
                if not fresh_expr(e, defs, sm, set()):
                    ok = False
                    break
            if ok:
                sm.fresh.add(name)
                changed = True


def local_defs(f):
    d = {}
    for st in all_stmts(f):
        for x in nodes(st, lambda y: y.get('k') in ('decl', 'assign')):
            if x['k'] == 'decl':
                for v in x['vars']:
                    if v.get('init') is not None:
                        d.setdefault(v['name'], []).append(v['init'])
            elif x.get('op') == '=':
                l = strip(x['l'])
                if l is not None and l.get('k') == 'var' and l.get('decl') == 'local':
                    d.setdefault(l['name'], []).append(x['r'])
    return d


def fresh_expr(e, defs, sm, seen):
    e = strip(e)
    if e is None:
        return False
    if is_lit(e, 0):
        return True
    if e.get('k') == 'call':
        return e.get('callee') in ALLOC or e.get('callee') in sm.fresh
    if e.get('k') == 'var' and e.get('decl') == 'local':
        if e['name'] in seen:
            return True
        ds = defs.get(e['name'])
        return bool(ds) and all(fresh_expr(d, defs, sm, seen | {e['name']}) for d in ds)
    return False


CHUNK_FIELDS = ('in_current_data', 'out_current_data')
DATA_RECORDS = ('htp_tx_data_t', 'htp_file_data_t')


def analyse_fn(db, f, src, sm):
    """src: ('param', i) the buffer parameter i points to | ('field', i) the `data` field of the data record parameter i
    points to | ('chunk',) the connection parser's current chunk.  returns (keeps or None, ret_alias bool, out_alias set of k)"""
    pname = f.params[src[1]]['name'] if src[0] == 'param' else None
    dname = f.params[src[1]]['name'] if src[0] == 'field' else None
    pidx = {p['name']: k for k, p in enumerate(f.params)}
    defs = local_defs(f)
    T = {pname} if pname else set()            # tainted variable names (params/locals): pointer into the buffer, or object holding one
    keeps = None
    ret = False
    outs = set()

    def tainted(e):
        e = strip(e)
        if e is None:
            return False
        k = e.get('k')
        if k == 'var':
            return e['name'] in T and e.get('decl') in ('param', 'local')
        if k == 'bin' and e['op'] in ('+', '-') and is_ptr(e.get('t')):
            return tainted(e['l']) or tainted(e['r'])
        if k == 'un' and e['op'] == '&':
            r, thru = root_of(e['e'])
            return r is not None and r['name'] in T and (thru or not is_ptr(r.get('t')))
        if k == 'cond':
            return tainted(e.get('a')) or tainted(e.get('b')) or tainted(e.get('then')) or tainted(e.get('else'))
        if k == 'call':
            if src[0] == 'chunk' and e.get('callee') in sm.ret_chunk:
                return True
            return any((e.get('callee'), j) in sm.ret_alias and tainted(a) for j, a in enumerate(e.get('args', [])))
        if k == 'member' and src[0] == 'chunk' and e.get('field') in CHUNK_FIELDS:
            return True
        if k == 'member' and dname and e.get('field') == 'data' and e.get('arrow') and (strip(e['base']) or {}).get('name') == dname:
            return True
        if k == 'member' and is_ptr(e.get('t')):
            # reading a pointer field of a tainted local record (d.data) gives the alias back
            r, thru = root_of(e)
            return r is not None and r['name'] in T and r['name'] != pname and not thru
        if k == 'assign':
            return tainted(e['r'])
        return False

    changed = True
    rounds = 0
    while changed and rounds < 20:
        changed = False
        rounds += 1
        for st in all_stmts(f):
            for x in nodes(st, lambda y: y.get('k') in ('decl', 'assign', 'call', 'return')):
                k = x['k']
                if k == 'decl':
                    for v in x['vars']:
                        if v.get('init') is not None and is_ptr(v.get('t')) and v['name'] not in T and tainted(v['init']):
                            T.add(v['name'])
                            changed = True
                elif k == 'assign' and x.get('op') in ('=', '+=', '-='):
                    if not is_ptr(x.get('t') or (strip(x['l']) or {}).get('t')) or not tainted(x['r']):
                        continue
                    l = strip(x['l'])
                    if l.get('k') == 'var':
                        if l.get('decl') in ('local', 'param') and l['name'] not in T:
                            T.add(l['name'])
                            changed = True
                        elif l.get('decl') not in ('local', 'param') and keeps is None:
                            keeps = (x['loc'], 'stored in the global %s' % l['name'])
                            changed = True
                        continue
                    r, thru = root_of(l)
                    if r is None:
                        continue
                    if not thru and r.get('decl') == 'local':
                        if r['name'] not in T:   # field of a local record
                            T.add(r['name'])
                            changed = True
                        continue
                    if r.get('decl') == 'local' and fresh_expr(r, defs, sm, set()):
                        if r['name'] not in T:   # fresh object that now holds the pointer
                            T.add(r['name'])
                            changed = True
                        continue
                    if r.get('decl') == 'param' and l.get('k') == 'un' and strip(l['e']) is r:
                        k2 = pidx.get(r['name'])
                        if k2 is not None and k2 not in outs:
                            outs.add(k2)
                            changed = True
                        continue
                    if keeps is None:
                        keeps = (x['loc'], 'stored into %s' % S(l))
                        changed = True
                elif k == 'call':
                    g = x.get('callee')
                    if src[0] == 'chunk':
                        for (g2, k2) in [o for o in sm.out_chunk if o[0] == g]:
                            if k2 < len(x['args']):
                                o = strip(x['args'][k2])
                                if o is not None and o.get('k') == 'un' and o['op'] == '&':
                                    r, thru = root_of(o['e'])
                                    if r is not None and r.get('decl') == 'local' and not thru and r['name'] not in T:
                                        T.add(r['name'])
                                        changed = True
                                elif o is not None and o.get('k') == 'var' and o.get('decl') == 'param':
                                    k3 = pidx.get(o['name'])
                                    if k3 is not None and k3 not in outs:
                                        outs.add(k3)
                                        changed = True
                    for j, a in enumerate(x.get('args', [])):
                        if not tainted(a):
                            continue
                        if (g, j) in sm.keeps and keeps is None:
                            keeps = (x['loc'], 'passed to %s, which keeps it (%s)' % (g, sm.keeps[(g, j)][1]))
                            changed = True
                        for (g2, j2, k2) in [o for o in sm.out_alias if o[0] == g and o[1] == j]:
                            if k2 < len(x['args']):
                                o = strip(x['args'][k2])
                                if o is not None and o.get('k') == 'un' and o['op'] == '&':
                                    r, thru = root_of(o['e'])
                                    if r is None:
                                        continue
                                    if r.get('decl') == 'local' and not thru:
                                        if r['name'] not in T:
                                            T.add(r['name'])
                                            changed = True
                                    elif keeps is None and not (r.get('decl') == 'local' and fresh_expr(r, defs, sm, set())):
                                        keeps = (x['loc'], '%s writes a pointer into it to %s' % (g, S(o['e'])))
                                        changed = True
                                elif o is not None and o.get('k') == 'var' and o.get('decl') == 'param':
                                    k3 = pidx.get(o['name'])
                                    if k3 is not None and k3 not in outs:
                                        outs.add(k3)
                                        changed = True
                elif k == 'return':
                    if x.get('e') is not None and not ret and is_ptr((strip(x['e']) or {}).get('t')) and tainted(x['e']):
                        ret = True
                        changed = True
    return keeps, ret, outs


def summaries(db):
    sm = Summ()
    compute_fresh(db, sm)
    fns = [(n, f) for n, f in sorted(db.fn.items()) if f.blocks and not f.loc.startswith('htp/lzma')]
    changed = True
    rounds = 0
    while changed and rounds < 12:
        changed = False
        rounds += 1
        for name, f in fns:
            for pi, p in enumerate(f.params):
                if not is_ptr(p.get('t')):
                    continue
                keeps, ret, outs = analyse_fn(db, f, ('param', pi), sm)
                if keeps and (name, pi) not in sm.keeps:
                    sm.keeps[(name, pi)] = keeps
                    changed = True
                if ret and (name, pi) not in sm.ret_alias:
                    sm.ret_alias.add((name, pi))
                    changed = True
                for k in outs:
                    if (name, pi, k) not in sm.out_alias:
                        sm.out_alias.add((name, pi, k))
                        changed = True
            keeps, ret, outs = analyse_fn(db, f, ('chunk',), sm)
            if keeps and name not in sm.keeps_chunk:
                sm.keeps_chunk[name] = keeps
            if ret and name not in sm.ret_chunk:
                sm.ret_chunk.add(name)
                changed = True
            for k in outs:
                if (name, k) not in sm.out_chunk:
                    sm.out_chunk.add((name, k))
                    changed = True
    for name, f in fns:
        for pi, p in enumerate(f.params):
            if any(r in (p.get('t') or '') for r in DATA_RECORDS) and is_ptr(p.get('t')):
                keeps, ret, outs = analyse_fn(db, f, ('field', pi), sm)
                if keeps:
                    sm.keeps_field[(name, pi)] = keeps
    return sm


BYTES = ('const void *', 'void *', 'unsigned char *', 'const unsigned char *', 'char *', 'const char *')
REVIEWED = {
    'htp_connp_req_data:data': 'the current chunk pointer of the connection parser: read only while the call that set it is running (the leftover is copied by htp_connp_req_buffer before the call returns, C10)',
    'htp_connp_res_data:data': 'the current chunk pointer of the connection parser: read only while the call that set it is running (the leftover is copied by htp_connp_res_buffer before the call returns, C10)',
    'htp_gzip_decompressor_decompress:d->data': 'zlib input cursor: consumed inside this call (the loop runs until avail_in is 0) and set again by the next call before any use',
}


def run(db, res, rule='C01.m'):
    res.rule(rule, 'a caller\'s bytes are not kept beyond the call: interprocedural escape analysis (summaries: returns an alias / keeps / returns a fresh object) of every (bytes, length) parameter, of the data field of every data record parameter and of the current chunk pointer; a pointer into them is never stored in a structure that outlives the call or in a container, except at the reviewed sites and in the setters whose caller chooses the allocation strategy')
    sm = summaries(db)
    n = kept = 0
    for name, f in sorted(db.fn.items()):
        if not f.blocks or f.loc.startswith('htp/lzma'):
            continue
        strategy = any('htp_alloc_strategy_t' in (p.get('t') or '') for p in f.params)
        for pi, p in enumerate(f.params):
            t = (p.get('t') or '').replace('  ', ' ')
            if t in BYTES and pi + 1 < len(f.params) and ((f.params[pi + 1].get('t') or '') in ('unsigned long', 'size_t') or 'len' in f.params[pi + 1]['name']):
                key = '%s:%s' % (name, p['name'])
                k = sm.keeps.get((name, pi))
                n += 1
                if k and not strategy and key not in REVIEWED:
                    res.violated(rule, key, '%s keeps a pointer into the caller\'s buffer `%s` after it returns (%s): the caller may reuse or free that memory as soon as the call is over, so later reads see other bytes' % (name, p['name'], k[1]), k[0])
                else:
                    kept += bool(k)
                    res.holds(rule, key, 'not kept' if not k else 'kept by design: %s' % (REVIEWED.get(key) or 'the caller chooses the allocation strategy'), f.loc)
            if any(r in t for r in DATA_RECORDS) and is_ptr(t):
                key = '%s:%s->data' % (name, p['name'])
                k = sm.keeps_field.get((name, pi))
                n += 1
                if k and key not in REVIEWED:
                    res.violated(rule, key, '%s keeps a pointer into the data record\'s bytes after it returns (%s): the bytes belong to the caller\'s chunk' % (name, k[1]), k[0])
                else:
                    kept += bool(k)
                    res.holds(rule, key, 'not kept' if not k else 'kept by design: %s' % REVIEWED[key], f.loc)
        k = sm.keeps_chunk.get(name)
        if any(x.get('k') == 'member' and x.get('field') in CHUNK_FIELDS for st in all_stmts(f) for x in nodes(st, lambda y: y.get('k') == 'member')) or name in sm.ret_chunk or k:
            key = '%s:current-chunk' % name
            n += 1
            if k and key not in REVIEWED:
                res.violated(rule, key, '%s keeps a pointer into the current input chunk after it returns (%s)' % (name, k[1]), k[0])
            else:
                res.holds(rule, key, 'not kept', f.loc)
    res.analysed[rule + ' buffers followed'] = dict(total=n, kept_by_design=kept, fresh_object_functions=len(sm.fresh), alias_returning=len(sm.ret_alias))
    res.floor(rule, 'byte buffers followed', n, 60)
    res.floor(rule, 'reviewed or by-design keepers (anchors: the analysis sees the stores)', kept, 5)
