"""C06 — body delivery and length accounting (DESIGN.md §4.6)."""
from ..facts import load, S, strip, nodes, is_lit, lit_name, AnalysisBroken
from ..report import Result
from .. import cfg as C
from .. import pat as P

TECHNIQUE = 'pairing rules (delivery <-> accounting) by path enumeration over the body states; sibling agreement of the bulk-consume blocks; must-precede rule for the end-of-body marker'


def strip_addr(e):
    e = strip(e)
    if e is not None and e.get('k') == 'un' and e['op'] == '&':
        e = strip(e['e'])
    return e


def run(repo='/repo', tier='quick'):
    res = Result('C06')
    db = load(repo)
    res.rule('C06.a', 'every body-data hook run is preceded, exactly once on every path, by entity_len += <that data record>.len; entity_len has no other writer')
    res.rule('C06.b', 'bulk-consume template: after a successful process_body_data_ex(tx, current_data + read_offset, N) the read, consume and stream offsets (and request_message_len; and the remaining length) move by exactly N, once')
    res.rule('C06.c', 'every site that hands wire bytes to the body path accounts them in *_message_len by the same amount')
    res.rule('C06.d', 'for a message with a body the end-of-body marker (data NULL, len 0) is delivered before the completion hook on every path')

    # ---------------- C06.a
    for side, runner, fld in (('request', 'htp_req_run_hook_body_data', 'request_entity_len'), ('response', 'htp_res_run_hook_body_data', 'response_entity_len')):
        callers = db.callers(runner)
        if not callers:
            res.violated('C06.a', runner + ':callers', 'nothing delivers %s body data' % side)
        for f, b, i, c in callers:
            D = P.K(strip_addr(c['args'][1]))
            want = {D + '.len', D + '->len'}
            n = 0
            bad = None
            for atoms, events, end, seq in P.enum_paths_seq(f, (f.entry, -1), stop=lambda bb, ii, st: (bb, ii) == (b, i)):
                if end[0] != 'stop':
                    continue
                n += 1
                cnt = 0
                for x in seq:
                    if x[0] == 'stmt':
                        for w in P.assigns_field(x[3], fld):
                            if w.get('op') == '+=' and P.K(w['r']) in want:
                                cnt += 1
                            else:
                                cnt += 100
                if cnt != 1:
                    bad = cnt
            key = '%s:%s(%s)' % (f.name, runner, D)
            if bad is not None:
                res.violated('C06.a', key, '%s data is delivered on a path with %s `%s += %s.len` before it: reported entity length and delivered bytes disagree'
                             % (side, 'no' if bad == 0 else 'a different number/form of', fld, D), c['loc'])
            else:
                res.holds('C06.a', key, '%d paths to the delivery each pass `%s += %s.len` exactly once' % (n, fld, D), c['loc'])
        sites = {(f.name) for f, b, i, c in callers}
        for f in db.fn.values():
            for b, i, w in P.field_writes(f, fld):
                if f.name not in sites:
                    res.violated('C06.a', '%s:writes:%s' % (f.name, fld), '%s is written in a function that does not deliver body data: %s' % (fld, S(w)), w['loc'])

    # ---------------- C06.b / C06.c
    nb = 0
    for d, side, proc, mlen in (('in', 'req', 'htp_tx_req_process_body_data_ex', 'request_message_len'), ('out', 'res', 'htp_tx_res_process_body_data_ex', 'response_message_len')):
        if central_accounting(db, proc, mlen):
            mlen = None                                    # accounted inside the hand-over (C06.c central-accounting)
        cur = 'connp->%s_current_data' % d
        off = 'connp->%s_current_read_offset' % d
        ln = 'connp->%s_current_len' % d
        avail = '(%s - %s)' % (ln, off)
        for f, b, i, c in db.callers(proc):
            if is_lit(c['args'][1], 0):
                continue                                   # end-of-body marker
            if P.K(c['args'][1]) != '(%s + %s)' % (cur, off):
                continue                                   # not a wire hand-over straight from the chunk (C06.c handles the others)
            nb += 1
            N = P.K(c['args'][2])
            # N must be avail or min(left, avail)
            defs = []
            for bb, ii, st in f.stmts():
                for x in nodes(st, lambda y: y.get('k') == 'assign' and y['op'] == '=' and P.K(y['l']) == N):
                    defs.append((bb, P.K(x['r'])))
                for x in nodes(st, lambda y: y.get('k') == 'decl'):
                    for v in x['vars']:
                        if v['name'] == N and 'init' in v:
                            defs.append((bb, P.K(v['init'])))
            left = None
            okN = avail in [r for bb, r in defs]
            others = [(bb, r) for bb, r in defs if r != avail]
            if okN and others:
                if len(others) == 1 and any(a == (avail, '>=', others[0][1]) for a, e in P.facts_at(f, others[0][0])):
                    left = others[0][1]
                else:
                    okN = False
            key = '%s:bulk' % f.name
            if not okN:
                res.violated('C06.b', key + ':amount', 'the amount handed to %s (%s) is not min(remaining, %s): %s' % (proc, N, avail, defs), c['loc'])
                continue
            fields = ['%s_current_read_offset' % d, '%s_current_consume_offset' % d, '%s_stream_offset' % d] + ([mlen] if mlen else [])
            npth = 0
            probs = set()
            for atoms, events, end, seq in P.enum_paths_seq(f, (b, i)):
                facts = [a for a, bb in atoms]
                rcname = None
                st0 = f.blocks[b]['stmts'][i]
                for x in nodes(st0, lambda y: y.get('k') == 'assign' and strip(y['r']) is c):
                    rcname = P.K(x['l'])
                for x in nodes(st0, lambda y: y.get('k') == 'decl'):
                    for v in x['vars']:
                        if strip(v.get('init')) is c:
                            rcname = v['name']
                if rcname and (rcname, '!=', 'HTP_OK') in facts:
                    continue                               # delivery failed: the error is propagated
                npth += 1
                cnt = {fl: 0 for fl in fields}
                leftdec = 0
                for x in seq:
                    if x[0] != 'stmt':
                        continue
                    for fl in fields:
                        for w in P.assigns_field(x[3], fl):
                            cnt[fl] += 1 if (w.get('op') == '+=' and P.K(w['r']) == N) else 100
                    if left:
                        for w in nodes(x[3], lambda y: y.get('k') == 'assign' and P.K(y['l']) == left):
                            leftdec += 1 if (w['op'] == '-=' and P.K(w['r']) == N) else 100
                for fl in fields:
                    if cnt[fl] != 1:
                        probs.add('%s is advanced %s by %s' % (fl, 'not at all' if cnt[fl] == 0 else 'more than once or not', N))
                if left and leftdec != 1:
                    probs.add('%s is not decremented exactly once by %s' % (left, N))
            if probs:
                for p_ in sorted(probs):
                    res.violated('C06.b', key + ':' + p_.split(' ')[0], 'after delivering %s body bytes in %s: %s' % (N, f.name, p_), c['loc'])
            else:
                res.holds('C06.b', key, 'on %d success paths %s%s move by exactly %s once' % (npth, ', '.join(fields), (' and ' + left) if left else '', N), c['loc'])
            if left:
                # the `left == 0` test selects the next state
                ok = False
                for bb in f.blocks:
                    cnd = f.cond_of(bb)
                    if cnd and P.canon(cnd[0]) == (left, '==', '0'):
                        tb = f.blocks[bb]['succs'][0]
                        if any(P.assigns_field(st, '%s_state' % d) for st in f.blocks[tb]['stmts']):
                            ok = True
                res.check(ok, 'C06.b', key + ':end-of-body-switches-state', '%s == 0 selects the next state' % left, 'no `%s == 0` test that moves on to the next state: bytes after the body would be taken as body' % left, c['loc'])
    res.floor('C06.b', 'bulk-consume blocks', nb, 3)
    # consume-all without delivery (HTTP/0.9 trailing data)
    f = db.get('htp_connp_REQ_IGNORE_DATA_AFTER_HTTP_0_9')
    okk = True
    for fl in ('in_current_read_offset', 'in_current_consume_offset', 'in_stream_offset'):
        w = P.field_writes(f, fl)
        if not (len(w) == 1 and w[0][2].get('op') == '+=' and P.K(w[0][2]['r']) == 'bytes_left'):
            okk = False
    res.check(okk, 'C06.b', f.name + ':consume-all', 'all three offsets advance by the bytes left', 'the ignore-all state does not advance all three offsets by the same amount', f.loc)

    # ---------------- C06.c wire accounting: centrally inside the hand-over function, or at every caller
    nsites = 0
    req_central = central_accounting(db, 'htp_tx_req_process_body_data_ex', 'request_message_len')
    if req_central:
        res.holds('C06.c', 'htp_tx_req_process_body_data_ex:central-accounting', 'request_message_len += len once, before the coding dispatch', db.get('htp_tx_req_process_body_data_ex').loc)
        extra = [(n_, w_) for n_, f_ in sorted(db.fn.items()) if n_ != 'htp_tx_req_process_body_data_ex' for b_, i_, w_ in P.field_writes(f_, 'request_message_len')
                 if w_.get('op') == '+=' and any(P.K(c_['args'][2]) == P.K(w_['r']) and not is_lit(c_['args'][1], 0) for b2_, i2_, c_ in f_.calls('htp_tx_req_process_body_data_ex'))]
        res.check(not extra, 'C06.c', 'request:handed-over-bytes-counted-once', 'no caller adds the handed-over count a second time',
                  '%s adds the handed-over byte count to request_message_len although the hand-over function does so itself: counted twice' % (extra[0][0] if extra else ''), extra[0][1]['loc'] if extra else '')
    for f, b, i, c in ([] if req_central else db.callers('htp_tx_req_process_body_data_ex')):
        if is_lit(c['args'][1], 0) or f.name == 'htp_tx_req_process_body_data':
            continue                                       # end marker / public hybrid wrapper (no wire)
        nsites += 1
        N = P.K(c['args'][2])
        # is request_message_len advanced by N (or by the consolidated length the data came from) on every success path through the call?
        okall = True
        npth = 0
        for atoms, events, end, seq in P.enum_paths_seq(f, (f.entry, -1), max_paths=5000):
            if not any(x[0] == 'stmt' and (x[1], x[2]) == (b, i) for x in seq):
                continue
            st0 = f.blocks[b]['stmts'][i]
            rcname = None
            for x in nodes(st0, lambda y: y.get('k') == 'assign' and strip(y['r']) is c):
                rcname = P.K(x['l'])
            for x in nodes(st0, lambda y: y.get('k') == 'decl'):
                for v in x['vars']:
                    if strip(v.get('init')) is c:
                        rcname = v['name']
            if rcname and (rcname, '!=', 'HTP_OK') in [a for a, bb in atoms]:
                continue                                   # delivery failed: nothing was consumed
            npth += 1
            acc = 0
            for x in seq:
                if x[0] == 'stmt':
                    for w in P.assigns_field(x[3], 'request_message_len'):
                        if w.get('op') == '+=' and P.K(w['r']) == N:
                            acc += 1
            if acc != 1:
                okall = False
        key = '%s:wire-bytes(%s)' % (f.name, N)
        res.check(okall and npth > 0, 'C06.c', key, 'request_message_len += %s on all %d paths through the hand-over' % (N, npth),
                  '%s hands %s wire bytes to the request body path without adding them to request_message_len: entity length and message length disagree' % (f.name, N), c['loc'])
    if not req_central:
        res.floor('C06.c', 'request-side wire hand-over sites', nsites, 2)
    f = db.get('htp_tx_res_process_body_data_ex')
    okc = central_accounting(db, 'htp_tx_res_process_body_data_ex', 'response_message_len')
    res.check(okc, 'C06.c', f.name + ':central-accounting', 'response_message_len += len once, before the coding dispatch', 'the response side no longer accounts every handed-over byte centrally before dispatch', f.loc)

    # ---------------- C06.e the other direction may not cut a body short
    res.rule('C06.e', 'the response side redirects the request state machine only when no request body byte has been taken yet (in_body_data_left == in_content_length) or when no request exists at all (unmatched response)')
    in_side = set(P.state_functions(db, 'in')) | {'htp_connp_req_data', 'htp_connp_create'}
    nred = 0
    for n, f in sorted(db.fn.items()):
        if n in in_side or n.startswith('htp_tx_state_request') or n == 'htp_connp_tx_create':
            continue
        for b, i, x in P.field_writes(f, 'in_state'):
            if strip(x['l']).get('rec') != 'htp_connp_t':
                continue
            nred += 1
            npth, bad = 0, None
            for atoms, events, end, seq in P.enum_paths_seq(f, (f.entry, -1), stop=lambda bb, ii, st: (bb, ii) == (b, i), max_paths=20000, must_reach=b):
                if end[0] != 'stop':
                    continue
                npth += 1
                facts = [a for a, bb in atoms]
                untouched = ('connp->in_body_data_left', '==', 'connp->in_content_length') in facts and ('connp->in_content_length', '>', '0') in facts
                norequest = ('connp->out_tx', '==', '0') in facts
                if not (untouched or norequest):
                    bad = facts
            key = '%s:in_state=%s' % (n, P.K(x['r']))
            res.check(bad is None and npth > 0, 'C06.e', key, 'all %d paths to this write establish that the request body has not been started (or that there is no request)' % npth,
                      '%s redirects the request state machine (in_state = %s) on a path that does not establish in_body_data_left == in_content_length: a body that is partly consumed would be cut short and its tail parsed as a new request' % (n, P.K(x['r'])), x['loc'])
    res.floor('C06.e', 'cross-direction writes of in_state', nred, 1)

    # ---------------- C06.d
    for fname, hook, proc, hasbody in (
            ('htp_tx_state_request_complete_partial', 'hook_request_complete', 'htp_tx_req_process_body_data_ex', ('htp_tx_req_has_body(tx)', '!=', '0')),
            ('htp_tx_state_response_complete_ex', 'hook_response_complete', 'htp_tx_res_process_body_data_ex', ('tx->response_transfer_coding', '!=', 'HTP_CODING_NO_BODY'))):
        f = db.get(fname)
        hs = [(b, i) for b, i, st in f.stmts() for h, c in P.hook_runs(st) if h == hook]
        if not hs:
            res.violated('C06.d', fname + ':hook', '%s is not run in %s' % (hook, fname), f.loc)
            continue
        n = 0
        bad = False
        for atoms, events, end, seq in P.enum_paths_seq(f, (f.entry, -1), stop=lambda bb, ii, st: (bb, ii) in hs):
            if end[0] != 'stop':
                continue
            n += 1
            facts = [a for a, bb in atoms]
            marker = any(x[0] == 'stmt' and any(cc.get('callee') == proc and is_lit(cc['args'][1], 0) and is_lit(cc['args'][2], 0)
                                                 for cc in nodes(x[3], lambda y: y.get('k') == 'call')) for x in seq[:-1])
            nobody = (hasbody[0], P.NEG[hasbody[1]], hasbody[2]) in facts
            if not marker and not nobody:
                bad = True
            if marker and hasbody not in facts:
                res.violated('C06.d', fname + ':marker-only-with-body', 'the end-of-body marker is sent on a path that did not establish that the message has a body', end[3]['loc'])
        res.check(not bad, 'C06.d', fname + ':marker-before-complete', 'on all %d paths to %s either the message has no body or %s(tx, NULL, 0) came first' % (n, hook, proc),
                  '%s can run for a message with a body before the end-of-body marker was delivered' % hook, f.loc)
    # the hook runners pass the end-of-body marker on: a path that returns without running the hooks has tested data != NULL
    for runner, hook in (('htp_req_run_hook_body_data', 'hook_request_body_data'), ('htp_res_run_hook_body_data', 'hook_response_body_data')):
        rf = db.get(runner)
        dpar = [p_['name'] for p_ in rf.params if 'htp_tx_data_t' in p_['t']]
        dn = dpar[0] if dpar else 'd'
        npth, bad = 0, None
        for atoms, events, end, seq in P.enum_paths_seq(rf, (rf.entry, -1)):
            ran = any(x[0] == 'stmt' and any(h.startswith('hook_') for h, c in P.hook_runs(x[3])) for x in seq)
            if ran:
                continue
            npth += 1
            facts = [a for a, bb in atoms]
            notx = any(a[0] in ('connp->in_tx', 'connp->out_tx') and a[1] == '==' and a[2] == '0' for a in facts)      # nothing to deliver to
            if ('%s->data' % dn, '!=', '0') not in facts and not notx:
                bad = facts
        res.check(bad is None, 'C06.d', runner + ':marker-passes-the-empty-chunk-filter', 'every return in front of the hooks is taken only for data != NULL (%d such path(s))' % npth,
                  '%s can return without running the body hooks for a record with data == NULL (guards %s): the end-of-body marker is swallowed and the completion callback arrives without it' % (runner, bad), rf.loc)
    c06f(db, res)
    res.assumptions.append('"concatenation equals the entity body" and chunk-size parsing are values and are not decided')
    from . import mirror
    mirror.run(db, res, 'C06.g', [('htp_connp_REQ_BODY_CHUNKED_DATA_END', 'htp_connp_RES_BODY_CHUNKED_DATA_END', None), ('htp_tx_req_process_body_data', 'htp_tx_res_process_body_data', None),
                                  ('htp_connp_REQ_BODY_CHUNKED_DATA', 'htp_connp_RES_BODY_CHUNKED_DATA', (('(connp->in_tx->request_message_len += bytes_to_consume)',), (), 'the response side accounts the bytes inside the hand-over call (C06.c)'))])
    from . import coupdate
    coupdate.run(db, res, 'C06.h', [('htp_connp_t', 'in_stream_offset', 'in_current_read_offset', 6, 'the position in the stream moves with the position in the chunk'),
                                     ('htp_connp_t', 'out_stream_offset', 'out_current_read_offset', 6, 'the position in the stream moves with the position in the chunk'),
                                     ('htp_connp_t', 'in_current_read_offset', 'in_stream_offset', 6, 'bytes passed over in the chunk are bytes passed over in the stream', ('+=', '++')),
                                     ('htp_connp_t', 'out_current_read_offset', 'out_stream_offset', 6, 'bytes passed over in the chunk are bytes passed over in the stream', ('+=', '++')),
                                     ('htp_tx_data_t', 'tx', 'len', 5, 'a data record is filled completely before it is handed on'),
                                     ('htp_tx_data_t', 'len', 'tx', 5, 'a data record is filled completely before it is handed on')],
                  'fields that change together: the stream offset moves wherever the read offset of the same direction is advanced past consumed bytes, and a body data record gets its transaction and its length in the same step')
    c06i(db, res)
    c06j(db, res)
    c06k(db, res)
    c06l(db, res)
    return res


def c06i(db, res):
    """A wire byte is counted once. A state function that has added a line to *_message_len and then un-reads that line
    (moves the read offset back so that the next state takes the bytes as body) hands the same bytes to a second accounting
    site: the hand-over of the body state counts them again."""
    res.rule('C06.i', 'wire bytes are counted once: in every state function, on no path is an addition to *_message_len followed by a backward move of the read offset (-= or reset to 0) of the same direction unless the count is taken back on that path - the bytes that are un-read are counted again by the state that re-reads them')
    n = 0
    for d, side in (('in', 'request'), ('out', 'response')):
        fld = '%s_message_len' % side
        off = '%s_current_read_offset' % d
        for name in P.state_functions(db, d):
            f = db.get(name)
            adds = [(b, i, w) for b, i, w in P.field_writes(f, fld) if w.get('op') in ('+=',) or (w.get('k') == 'un' and w['op'].startswith('++'))]
            if not adds:
                continue
            for b, i, w in adds:
                n += 1
                bad = None
                try:
                    paths = P.enum_paths_seq(f, (b, i), max_paths=50000)
                except AnalysisBroken:
                    res.unknown('C06.i', '%s:count-then-rewind' % name, 'too many paths after the accounting statement', w['loc'])
                    continue
                for atoms, events, end, seq in paths:
                    back = taken = None
                    for x in seq:
                        if x[0] != 'stmt':
                            continue
                        if any(y.get('op') == '-=' for y in P.assigns_field(x[3], fld)):
                            taken = x[3]
                        for y in P.assigns_field(x[3], off):
                            if (y.get('op') == '-=' or (y.get('op') == '=' and is_lit(y['r'], 0))) and taken is None:
                                back = y
                    if back is not None:
                        bad = back
                key = '%s:count-then-rewind' % name
                if bad is not None:
                    res.violated('C06.i', key, '%s adds the line to %s and then moves the read offset back over it: the state that re-reads those bytes as body counts them a second time, so the reported message length exceeds the bytes taken from the wire' % (name, fld), bad['loc'])
                else:
                    res.holds('C06.i', key, 'no path un-reads bytes that were already counted', w['loc'])
    res.floor('C06.i', 'direct additions to *_message_len in state functions', n, 4)


def c06j(db, res):
    """Framing lines of a body (chunk-length lines, the blank lines the response side tolerates in front of them) are body
    bytes taken from the wire. A body state that takes the consolidated view of such a line and then consumes it (clears the
    line buffer / resynchronises the consumer position) has counted it on that path."""
    res.rule('C06.j', 'a framing line that is consumed is counted: in every body state that takes the consolidated view (data, L) of a line, each path from there to the clearing of the line buffer (or to a resynchronisation of the consumer position) passes *_message_len += L first')
    n = 0
    for d, side, sd in (('in', 'request', 'req'), ('out', 'response', 'res')):
        acc = side + '_message_len'
        cons, clear = 'htp_connp_%s_consolidate_data' % sd, 'htp_connp_%s_clear_buffer' % sd
        for name in sorted(P.state_functions(db, d)):
            f = db.get(name)
            if not P.field_writes(f, acc):
                continue
            for cb, ci, cc in f.calls(cons):
                a2 = strip(cc['args'][2])
                if not (a2.get('k') == 'un' and a2['op'] == '&'):
                    continue
                L = P.K(a2['e'])
                n += 1
                bad = None
                for atoms, events, end, seq in P.enum_paths_seq(f, (cb, ci), max_paths=50000):
                    counted = False
                    for x in seq:
                        if x[0] != 'stmt':
                            continue
                        if any(w.get('op') == '+=' and P.K(w['r']) == L for w in P.assigns_field(x[3], acc)):
                            counted = True
                        consumed = any(c2.get('callee') == clear for c2 in nodes(x[3], lambda y: y.get('k') == 'call')) or \
                            any(w.get('op') == '=' for w in P.assigns_field(x[3], '%s_current_consume_offset' % d))
                        if consumed and not counted:
                            bad = x[3]
                            break
                        if consumed:
                            break
                    if bad is not None:
                        break
                res.check(bad is None, 'C06.j', '%s:line-consumed-after-count' % name, 'every path counts the line before it consumes it',
                          '%s consumes the consolidated line (%s bytes) on a path that has not added it to %s: framing bytes taken from the wire are missing from the reported message length' % (name, L, acc), (bad or cc).get('loc', f.loc))
    res.floor('C06.j', 'consolidated framing lines in body states', n, 2)


def c06k(db, res):
    """The response side leaves a chunk-length line early ("not chunked after all") when data_probe_chunk_length() says that the
    line does not start like a number. That verdict is about the FIRST significant byte of the line: once a hex digit has been
    seen, whatever follows (a chunk extension, trailing blanks) belongs to the line. The probe keeps no state between calls, so
    the only way it can know what came before the current byte is to scan the line from its start; a verdict "no" outside such
    a scan classifies the byte at hand alone and cuts `5;ext=1` at the semicolon - chunk data is then taken from inside the
    chunk-length line."""
    res.rule('C06.k', 'the chunk-length probe judges the line, not the byte at hand: data_probe_chunk_length stores to no parser field, so each of its "not a chunk length" returns (0) lies inside a loop that walks the bytes of the line (carry buffer or unconsumed span) from index 0')
    f = db.fn.get('data_probe_chunk_length')
    if f is None:
        raise AnalysisBroken('data_probe_chunk_length not found')
    stateless = not any(strip(w['l']).get('k') == 'member' for b, i, st in f.stmts() for w in nodes(st, lambda y: y.get('k') == 'assign'))
    lps = C.loops(f)
    n = 0
    for b, i, st in f.returns() or []:
        rv = P.ret_value(st)
        if rv is None or not is_lit(rv, 0):
            continue
        n += 1
        # a return leaves the loop, so its block is not part of the natural loop: it belongs to the loop when it is reachable
        # from the header's body successor without passing the header again
        inner = []
        for h, body in lps:
            seen_, w_ = set(), [s_ for s_ in f.blocks[h]['succs'] if s_ is not None and s_ in body]
            while w_:
                x_ = w_.pop()
                if x_ in seen_ or x_ == h:
                    continue
                seen_.add(x_)
                w_ += [s_ for s_ in f.blocks[x_]['succs'] if s_ is not None]
            if b in seen_:
                inner.append((h, body))
        walks = False
        for h, body in inner:
            # a cursor that starts at 0, is stepped in the loop and subscripts bytes
            stepped = {strip(u['e'])['name'] for bb in body for s2 in f.blocks[bb]['stmts'] for u in nodes(s2, lambda y: y.get('k') == 'un' and y['op'] in ('++', '++post') and strip(y['e']).get('k') == 'var')}
            subs = {strip(x['idx'])['name'] for bb in body for s2 in list(f.blocks[bb]['stmts']) + ([f.cond_of(bb)[0]] if f.cond_of(bb) else []) for x in nodes(s2, lambda y: y.get('k') == 'index' and strip(y['idx']).get('k') == 'var')}
            zero = {v['name'] for bb, ii, s2 in f.stmts() for d in nodes(s2, lambda y: y.get('k') == 'decl') for v in d['vars'] if v.get('init') is not None and is_lit(strip(v['init']), 0)}
            if stepped & subs & zero:
                walks = True
        res.check(walks or not stateless, 'C06.k', 'data_probe_chunk_length:return-0@%s' % ('|'.join('%s%s%s' % a for a, e in P.facts_at(f, b)[-1:]) or 'top'), 'inside a scan of the line from its first byte',
                  'data_probe_chunk_length answers "not a chunk length" outside any scan of the line (it keeps no state, so it judges the byte at hand alone): a chunk-length line with a chunk extension or anything else after the digits is cut short and chunk data is taken from inside the line', st['loc'])
    res.floor('C06.k', '"not a chunk length" returns of the probe', n, 1)
    # ... and the verdict is about the FIRST significant byte: a scan goes on to the next byte only over a control character
    # (a hex digit ends the scan with "yes"); a scan that walks on over digits lets a later byte - the ';' of a chunk
    # extension - turn the verdict into "no"
    m = 0
    for h, body in lps:
        for atoms, events, end, seq in P.enum_paths_seq(f, (h, -1), max_paths=20000):
            if end[0] != 'loop' or end[1] != h:
                continue
            m += 1
            over_ctl = any(a[0].startswith('is_chunked_ctl_char(') and ((a[1] == '!=' and a[2] == '0') or (a[1] == '==' and a[2] == '1')) for a, e in atoms)
            res.check(over_ctl, 'C06.k', 'data_probe_chunk_length:scan-continues-only-over-control-bytes', 'the scan steps over control characters only',
                      'a scan loop of data_probe_chunk_length goes on to the next byte without having seen a control character (guards: %s): bytes behind the first hex digit still decide, so the \';\' of a chunk extension makes a valid chunk-length line "not a chunk length"' % [a for a, e in atoms][-2:], f.blocks[h]['stmts'][-1]['loc'] if f.blocks[h]['stmts'] else f.loc)
    res.floor('C06.k', 'ways round the scan loops of the probe', m, 2)


def c06l(db, res):
    """Body callbacks can be registered on the configuration and on a single transaction (htp_tx_register_*_body_data). Whether
    body bytes are dispatched must therefore not depend on what the configuration has registered: the hand-over functions do
    not look at hook fields, the hook runners do."""
    res.rule('C06.l', 'body bytes are dispatched whether or not the configuration has a body hook: no branch of htp_tx_req_process_body_data_ex / htp_tx_res_process_body_data_ex reads a hook field')
    n = 0
    for name in ('htp_tx_req_process_body_data_ex', 'htp_tx_res_process_body_data_ex'):
        f = db.get(name)
        bad = None
        for b in sorted(f.blocks):
            c = f.cond_of(b)
            if not c:
                continue
            n += 1
            if any((m.get('field') or '').startswith('hook_') for m in nodes(c[0], lambda y: y.get('k') == 'member')):
                bad = c[0]
        res.check(bad is None, 'C06.l', name + ':dispatch-independent-of-hooks', 'no branch on a hook field',
                  '%s decides on a hook field of the configuration whether the body bytes are handed on: a callback registered on the transaction gets neither the data nor the end-of-body marker, while the entity length still counts the bytes' % name, (bad or {}).get('loc', f.loc))
    res.floor('C06.l', 'branches in the body hand-over functions', n, 6)


def central_accounting(db, proc, fld):
    """does the hand-over function itself add every handed-over byte to the message length, once, in front of the coding
    dispatch?  (the response side always did; the request side does since the D39 repair)"""
    f = db.get(proc)
    w = P.field_writes(f, fld)
    dom = C.dominators(f)
    disp = [b for b in f.blocks if f.blocks[b].get('term', {}).get('kind') == 'SwitchStmt']
    return len(w) == 1 and w[0][2].get('op') == '+=' and P.K(w[0][2]['r']) in ('d.len', 'len') and bool(disp) and all(w[0][0] in dom[b] for b in disp)

def c06f(db, res):
    """message length = body bytes taken from the wire, framing included.  In the body states every direct advance of the
    consume cursor (bytes that will not be seen again) by A is paired, within the same loop iteration, with *_message_len
    advancing by A (or, response side, with the hand-over call that accounts centrally, C06.c)."""
    res.rule('C06.f', 'in every body state, each direct advance of the consume cursor by A is paired with *_message_len advancing by A before the function is left or the cursor advances again (per byte in the line-ending loops, per block in the bulk states)')
    nadv = 0
    central = {'in': central_accounting(db, 'htp_tx_req_process_body_data_ex', 'request_message_len'), 'out': central_accounting(db, 'htp_tx_res_process_body_data_ex', 'response_message_len')}
    for d, side, proc in (('in', 'request', 'htp_tx_req_process_body_data_ex'), ('out', 'response', 'htp_tx_res_process_body_data_ex')):
        cur, acc = d + '_current_consume_offset', side + '_message_len'
        for name in sorted(P.state_functions(db, d)):
            f = db.get(name)
            if not (P.field_writes(f, acc) or any(not is_lit(c['args'][2], 0) for b, i, c in f.calls(proc))):
                continue                                   # not a body state

            def amount(x):
                return '1' if x['k'] == 'un' else (P.K(x['r']) if x.get('op') == '+=' else None)

            def accounted(st):
                out = [amount(w) for w in P.assigns_field(st, acc)]
                if central[d]:                              # this side accounts inside the hand-over (C06.c central-accounting)
                    out += [P.K(c['args'][2]) for c in nodes(st, lambda y: y.get('k') == 'call' and y.get('callee') == proc)]
                return out
            dom = C.dominators(f)
            loops = C.loops(f)
            for b, i, x in P.field_writes(f, cur):
                A = amount(x)
                if A is None:
                    continue                               # plain assignment (rewind / resync): not an advance
                nadv += 1
                got, bad = [], []

                def visit(bb, ii, st):
                    a = accounted(st)
                    if a:
                        got.extend(a)
                        return True
                    if (bb, ii) == (b, i) or any(w is not x and amount(w) is not None for w in P.assigns_field(st, cur)):
                        bad.append(st)
                        return True
                    return False
                ends, ex = C.forward(f, (b, i), visit)
                fwd = not bad and not ex
                # or: the accounting precedes the advance in the same iteration
                inner = [body for h, body in loops if b in body]
                before = [a for bb, ii, st in f.stmts() for a in accounted(st)
                          if ((bb == b and ii < i) or (bb != b and bb in dom[b])) and all(bb in body for body in inner)]
                key = '%s:%s+=%s' % (name, cur, A)
                if (fwd and got and all(a == A for a in got)) or A in before:
                    res.holds('C06.f', key, '%s advances by %s %s' % (acc, A, 'before the function is left or the cursor moves again' if fwd else 'earlier in the same iteration'), x['loc'])
                elif fwd and got:
                    res.unknown('C06.f', key, 'every path accounts, but by %s rather than %s: accounting idiom not recognised' % (sorted(set(got)), A), x['loc'])
                else:
                    res.violated('C06.f', key, '%s consumes %s byte(s) of the %s body from the wire and can leave the function (or consume again) without adding them to %s: message length and wire bytes disagree for some chunkings'
                                 % (name, A, side, acc), x['loc'])
    res.floor('C06.f', 'direct advances of the consume cursor in body states', nadv, 6)
