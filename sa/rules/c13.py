"""C13 — URI splitting (DESIGN.md §4.13). Contiguity/partition of the slices as values is not decided."""
from ..facts import load, S, strip, nodes, is_lit, lit_name, root_of, AnalysisBroken
from ..report import Result
from .. import cfg as C
from .. import pat as P

TECHNIQUE = 'dominance rules on the URI splitter (which component may be stored under which test), store-order rule, source-of-bytes rule (every component is copied from the input buffer), agreement of the two port-range predicates'
ORDER = ['scheme', 'username', 'password', 'hostname', 'port', 'path', 'query', 'fragment']


def run(repo='/repo', tier='quick'):
    res = Result('C13')
    db = load(repo)
    res.rule('C13.a', 'in htp_parse_uri a scheme is stored only under data[0] != \'/\'; user, password, host and port only under scheme != NULL and the "//" test')
    res.rule('C13.b', 'the two port predicates accept exactly 0 < p < 65536 of a base-10 parse and mark everything else invalid with port -1')
    res.rule('C13.c', 'every stored component is a copy (bstr_dup_mem) of bytes of the input buffer: no component is invented')
    f = db.get('htp_parse_uri')
    stores = {}
    for b, i, st in f.stmts():
        for a in nodes(st, lambda y: y.get('k') == 'assign' and y['op'] == '=' and strip(y['l']).get('k') == 'member' and strip(y['l']).get('rec') == 'htp_uri_t'):
            stores.setdefault(strip(a['l'])['field'], []).append((b, i, a))
    for comp in ORDER:
        if comp not in stores:
            res.violated('C13.a', 'store:' + comp, 'htp_parse_uri never stores the %s component' % comp, f.loc)
    for comp, sites in stores.items():
        for b, i, a in sites:
            facts = [x for x, e in P.facts_at(f, b)]
            if comp == 'scheme':
                ok = ('data[0]', '!=', "'/'") in facts or ('data[0]', '!=', '47') in facts
                res.check(ok, 'C13.a', 'scheme:only-without-leading-slash', 'scheme is stored under data[0] != \'/\'', 'a scheme can be stored for a target that starts with \'/\'', a['loc'])
            elif comp in ('username', 'password', 'hostname', 'port'):
                ok = ('*uri->scheme', '!=', '0') in facts
                sl = any(x[0] == 'data[pos]' and x[1] == '==' and x[2] in ("'/'", '47') for x in facts) and any(x[0] == 'data[(pos + 1)]' and x[1] == '==' and x[2] in ("'/'", '47') for x in facts)
                res.check(ok and sl, 'C13.a', '%s:only-with-scheme' % comp, '%s is stored only after a scheme and "//"' % comp,
                          'the %s component can be stored without a scheme / without the "//" authority marker (a target starting with \'/\' could get an authority)' % comp, a['loc'])
    # no write to scheme between its test and the authority stores is implied by order rule below
    # ---- C13.c
    # source of bytes: every stored component is bstr_dup_mem(<pointer derived from data>, ...)
    derived = {'data'}
    ch = True
    while ch:
        ch = False
        for b, i, st in f.stmts():
            for x in nodes(st, lambda y: y.get('k') in ('assign', 'decl')):
                pairs = [(P.K(x['l']), x['r'])] if x['k'] == 'assign' else [(v['name'], v['init']) for v in x['vars'] if 'init' in v]
                for name, r in pairs:
                    if name in derived:
                        continue
                    vs = {v['name'] for v in nodes(r, lambda y: y.get('k') == 'var')}
                    rr = strip(r)
                    ptr = '*' in (rr.get('t') or '')
                    if ptr and vs & derived:
                        derived.add(name)
                        ch = True
    for comp, sites in stores.items():
        for b, i, a in sites:
            r = strip(a['r'])
            ok = r.get('k') == 'call' and r.get('callee') == 'bstr_dup_mem' and bool({v['name'] for v in nodes(r['args'][0], lambda y: y.get('k') == 'var')} & derived)
            res.check(ok, 'C13.c', 'source:%s' % comp, 'copied from the input buffer', 'the %s component is not a copy of bytes of the request target (%s)' % (comp, P.K(r)[:60]), a['loc'])
    # only spaces are trimmed from the end of the target
    trims = [(b, i, x) for b, i, st in f.stmts() for x in nodes(st, lambda y: (y.get('k') == 'un' and y['op'] in ('--', '--post') and P.K(y['e']) == 'len') or (y.get('k') == 'assign' and P.K(y['l']) == 'len' and y['op'] in ('-=', '=')))]
    for b, i, x in trims:
        facts = [a for a, e in P.facts_at(f, b)]
        ok = any(a[0] == 'data[(len - 1)]' and a[1] == '==' and a[2] in ("' '", '32') for a in facts)
        res.check(ok, 'C13.c', 'trim:only-trailing-spaces', 'len is only reduced under data[len - 1] == \' \'', 'htp_parse_uri shortens the target under a test other than data[len - 1] == \' \': bytes other than trailing spaces are silently dropped from the last component (guards: %s)' % facts[-2:], x['loc'])
    # ... and nothing else may move the window: the buffer pointer and the length are not handed to a helper by address
    for b, i, c in f.calls():
        for a in c['args']:
            a0 = strip(a)
            if a0 is not None and a0.get('k') == 'un' and a0['op'] == '&' and P.K(a0['e']) in ('len', 'data'):
                res.violated('C13.c', 'trim:window-by-address:%s' % (c.get('callee') or '?'), 'htp_parse_uri hands &%s to %s(): the window over the request target is changed by a helper (leading bytes or bytes other than trailing spaces can be dropped from the components)' % (P.K(a0['e']), c.get('callee')), c['loc'])
    # the raw components are never modified after the split: the normaliser reads `incomplete` only through const parameters / copies
    nz = db.get('htp_normalize_parsed_uri')
    raw = [p_['name'] for p_ in nz.params if 'htp_uri_t' in p_['t']]
    rawp = raw[0] if raw else 'incomplete'
    nraw = 0
    for b, i, c in nz.calls():
        cal = db.fn.get(c.get('callee') or '')
        for ai, a in enumerate(c['args']):
            if not P.K(a).startswith(rawp + '->') and ('(*' + rawp) not in P.K(a):
                continue
            nraw += 1
            ok = not P.writes_param(db, c.get('callee') or '?', ai)
            res.check(ok, 'C13.c', 'raw-components-read-only:%s(%s)' % (c.get('callee'), (rawp + '->' + P.K(a).split(rawp + '->')[1].split('.')[0].split(')')[0]) if (rawp + '->') in P.K(a) else P.K(a)[:40]), 'the callee does not store through this argument (const parameter, or no store through it or its aliases, transitively)',
                      'htp_normalize_parsed_uri passes the raw component %s to %s(), which takes it as a modifiable object: the raw components are rewritten after the split and no longer re-join to the request target' % (P.K(a), c.get('callee')), c['loc'])
    for b, i, x in nz.find(lambda y: y.get('k') == 'assign' and P.K(y['l']).startswith(rawp + '->')):
        res.violated('C13.c', 'raw-components-read-only:store:%s' % P.K(x['l']), 'htp_normalize_parsed_uri stores into the raw URI (%s)' % S(x)[:60], x['loc'])
    res.floor('C13.c', 'uses of raw components in the normaliser', nraw, 6)
    # ---- C13.b
    for fname, target, inval in (('htp_parse_port', '*port', ('*invalid', '1')), ('htp_normalize_parsed_uri', 'normalized->port_number', ('flag', 'HTP_HOSTU_INVALID'))):
        g = db.get(fname)
        pdefs = [v for b, i, st in g.stmts() for d in nodes(st, lambda y: y.get('k') == 'decl') for v in d['vars'] if v['name'] == 'port_parsed']
        okp = bool(pdefs) and P.call_name_of(pdefs[0].get('init')) == 'htp_parse_positive_integer_whitespace' and is_lit(strip(pdefs[0]['init'])['args'][2], 10)
        res.check(okp, 'C13.b', fname + ':base-10', 'port text is parsed as a base-10 positive integer', 'the port is no longer parsed with htp_parse_positive_integer_whitespace(..., 10)', g.loc)
        nv = 0
        for b, i, st in g.stmts():
            for a in nodes(st, lambda y: y.get('k') == 'assign' and y['op'] == '=' and P.K(y['l']) == target):
                facts = [x for x, e in P.facts_at(g, b)]
                if is_lit(a['r'], -1):
                    # invalid arm: must also mark invalid unless it is the "no port" arm
                    noport = any(x[0].endswith('->port') and x[1] == '==' and x[2] == '0' for x in facts)
                    if noport:
                        continue
                    blk = g.blocks[b]['stmts']
                    if inval[0] == 'flag':
                        marked = any(lit_name(w['r']) == inval[1] for w in nodes(blk, lambda y: y.get('k') == 'assign' and y['op'] == '|='))
                    else:
                        marked = any(P.K(w['l']) == inval[0] and is_lit(w['r'], 1) for w in nodes(blk, lambda y: y.get('k') == 'assign'))
                    arm = 'parse-failed' if ('port_parsed', '<', '0') in facts else 'empty' if ('len', '==', '0') in facts else 'out-of-range'
                    res.check(marked, 'C13.b', '%s:%s:marked-invalid' % (fname, arm), 'port -1 is accompanied by the invalid mark', 'the %s arm sets port -1 without marking the host invalid' % arm, a['loc'])
                else:
                    nv += 1
                    ok = ('port_parsed', '>', '0') in facts and ('port_parsed', '<', '65536') in facts and ('port_parsed', '>=', '0') in facts and P.K(a['r']) == 'port_parsed'
                    res.check(ok, 'C13.b', fname + ':valid-range', 'a port is accepted exactly under 0 < port_parsed < 65536', 'the accepted port range is not 1..65535 (guards: %s)' % [x for x in facts if x[0] == 'port_parsed'], a['loc'])
        res.check(nv == 1, 'C13.b', fname + ':one-accepting-arm', 'one accepting arm', '%d arms store a parsed port' % nv, g.loc)
    c13e(db, res)
    c13d(db, res)
    res.assumptions.append('that the components partition the target (re-joining reproduces it) is a statement about values and is not decided')
    c13f(db, res)
    c13g(db, res)
    c13h(db, res)
    c13i(db, res)
    return res


def c13d(db, res):
    """Partition of the authority: htp_parse_uri splits windows of the target with memchr().  For the components to re-join to
    the target, the bytes in front of the delimiter that memchr() found (or the whole window when it found none) must end up
    in a component: on every path some later bstr_dup_mem() starts at the window's start.  Pointers are evaluated along each
    path as linear forms over the symbols of the function (data, start, the memchr results), so `hostname_start = m + 1`
    moves the window."""
    res.rule('C13.d', 'split completeness: for every window (S, N) that htp_parse_uri searches with memchr, on every path a later component copy starts at S, or starts before S and reaches the delimiter (the whole window when there is none): the bytes in front of the delimiter are not dropped. Pointers and lengths are evaluated along each path as linear forms; a memchr result is at or after the start of its window')
    f = db.get('htp_parse_uri')
    sites = []
    for b, i, st in f.stmts():
        for x in nodes(st, lambda y: y.get('k') in ('assign', 'decl')):
            items = [(P.K(x['l']), x['r'])] if x['k'] == 'assign' and x['op'] == '=' else [(v['name'], v['init']) for v in x.get('vars', []) if 'init' in v] if x['k'] == 'decl' else []
            for L, r in items:
                if P.call_name_of(r) == 'memchr':
                    sites.append((b, i, L, strip(r)))
    res.floor('C13.d', 'memchr splits in htp_parse_uri', len(sites), 4)

    def ev(e, env):
        e = strip(e)
        if e is None:
            return None
        k = e.get('k')
        if k == 'lit':
            return {'': e['v']}
        if k == 'var':
            return dict(env.get(e['name'], {e['name']: 1}))
        if k == 'bin' and e['op'] in ('+', '-'):
            l, r = ev(e['l'], env), ev(e['r'], env)
            if l is None or r is None:
                return None
            out = dict(l)
            for t, c in r.items():
                out[t] = out.get(t, 0) + (c if e['op'] == '+' else -c)
            return {t: c for t, c in out.items() if c != 0}
        return None
    pathstore = lambda st: bool(P.assigns_field(st, 'path'))
    # one enumeration of the paths from the entry to the store of the path component (the authority block lies before it);
    # exits through a failed allocation are left out
    paths = []
    for atoms, events, end, seq in P.enum_paths_seq(f, (f.entry, -1), stop=lambda bb, ii, st: pathstore(st), max_paths=100000):
        if end[0] == 'stop' or (end[0] == 'return' and (lit_name(P.ret_value(end[3])) == 'HTP_OK' or is_lit(P.ret_value(end[3]), 1))):
            paths.append(seq)
    all_verdicts = {(sb, si): {} for sb, si, mvar, call in sites}
    for seq in paths:
        at = {}
        for n_, x in enumerate(seq):
            if x[0] == 'stmt' and (x[1], x[2]) in all_verdicts and (x[1], x[2]) not in at:
                at[(x[1], x[2])] = n_
        if not at:
            continue
        env, fresh = {}, [0]
        open_ = {}                                   # site -> [S_eval, arm, stored, result symbol, N_eval]
        wins = {}                                    # memchr result symbol -> start of the window it was searched in (result >= start)
        dups = []                                    # (position in path, start, length) of every component copy
        mvars = {(sb, si): mvar for sb, si, mvar, call in sites}

        def nonneg(lf):
            """lf >= 0 ?  memchr results are replaced by window start + d with d >= 0"""
            if lf is None:
                return False
            lf = dict(lf)
            for _ in range(6):
                hit = [t for t in lf if t in wins and lf[t] != 0]
                if not hit:
                    break
                t = hit[0]
                c = lf.pop(t)
                for t2, c2 in (wins[t] or {}).items():
                    lf[t2] = lf.get(t2, 0) + c * c2
                lf['d:' + t] = lf.get('d:' + t, 0) + c
            lf = {t: c for t, c in lf.items() if c != 0}
            return all((t == '' or t.startswith('d:')) and c >= 0 for t, c in lf.items())

        def minus(a_, b_):
            if a_ is None or b_ is None:
                return None
            out = dict(a_)
            for t, c in b_.items():
                out[t] = out.get(t, 0) - c
            return {t: c for t, c in out.items() if c != 0}

        def plus(a_, b_):
            return minus(a_, {t: -c for t, c in (b_ or {}).items()}) if b_ is not None else None
        for n_, x in enumerate(seq):
            if x[0] == 'atom':
                for k_, o in open_.items():
                    if o[1] == '?' and x[1][0] == mvars[k_] and x[1][2] == '0' and o[3] == env.get(mvars[k_]):
                        o[1] = 'found' if x[1][1] == '!=' else 'not-found'
                continue
            st = x[3]
            for c in nodes(st, lambda y: y.get('k') == 'call' and y.get('callee') == 'bstr_dup_mem'):
                dups.append((n_, ev(c['args'][0], env), ev(c['args'][1], env)))
            for y in nodes(st, lambda z: z.get('k') in ('assign', 'decl')):
                items = [(strip(y['l']), y['r'])] if y['k'] == 'assign' and y['op'] == '=' else [({'k': 'var', 'name': v['name']}, v['init']) for v in y.get('vars', []) if 'init' in v] if y['k'] == 'decl' else []
                for l, r in items:
                    if l is None or l.get('k') != 'var':
                        continue
                    fresh[0] += 1
                    if P.call_name_of(r) == 'memchr':
                        name = '%s#%d' % (l['name'], fresh[0])
                        sym = {name: 1}
                        wins[name] = ev(strip(r)['args'][0], env)
                        if (x[1], x[2]) in all_verdicts and l['name'] == mvars[(x[1], x[2])]:
                            open_[(x[1], x[2])] = [wins[name], '?', False, sym, ev(strip(r)['args'][2], env), n_]
                        env[l['name']] = sym
                    else:
                        v = ev(r, env)
                        env[l['name']] = v if v is not None else {'%s#%d' % (l['name'], fresh[0]): 1}
        for k_, o in open_.items():
            S_, arm, _, sym, N_, at_ = o
            for n_, A, ln in dups:
                if n_ <= at_ or A is None or S_ is None:
                    continue
                if not nonneg(minus(S_, A)):
                    continue                                  # the copy starts after the window's start
                if arm == 'found':
                    ok = (A == S_) or nonneg(minus(plus(A, ln), sym))   # ... starts with the window (which may be split further), or reaches the delimiter
                else:
                    ok = (A == S_) or nonneg(minus(plus(A, ln), plus(S_, N_)))   # ... starts with the window, or covers all of it
                if ok:
                    o[2] = True
        for k_, o in open_.items():
            all_verdicts[k_].setdefault(o[1], []).append(o[2])
    for sb, si, mvar, call in sites:
        ch = strip(call['args'][1])
        delim = chr(ch['v']) if is_lit(ch) and 32 <= ch['v'] < 127 else S(ch)
        verdicts = all_verdicts[(sb, si)]
        ctx = 'after-bracket:' if any(a[0].endswith('[0]') and a[1] == '==' and a[2] in ('91', "'['") for a, e in P.facts_at(f, sb)) else ''
        wkey = P.K(call['args'][0])
        for arm, vs in sorted(verdicts.items()):
            key = "%smemchr(%s, '%s'):%s" % (ctx, wkey, delim, arm)
            res.check(all(vs), 'C13.d', key, 'on all %d paths a component is copied from the start of the searched window' % len(vs),
                      "htp_parse_uri searches the window starting at %s for '%s' and, when the delimiter is %s, copies nothing that starts at the window's start: %s are dropped, so the raw components no longer re-join to the target"
                      % (wkey, delim, 'found' if arm == 'found' else 'not found', 'the bytes in front of the delimiter' if arm == 'found' else 'all bytes of the window'), call['loc'])
        if not verdicts:
            res.unknown('C13.d', "%smemchr(%s, '%s')" % (ctx, wkey, delim), 'no path from the entry reaches this split within the bound', call['loc'])


def c13e(db, res):
    """(1) The raw components are produced for every request, whoever supplied the normalised URI: the call that splits the
    target into parsed_uri_raw does not depend on tx->parsed_uri.  (2) In htp_parse_hostport the port text that is reported and
    the port text that is converted to a number are the same window in both arms."""
    from .c01j import split_dst, lin, EXPAND
    res.rule('C13.e', 'the raw split does not depend on a supplied normalised URI; in htp_parse_hostport the reported port text (*port = copy(A, n)) and the converted port text (htp_parse_port(A, n)) are the same window, in every arm')
    f = db.get('htp_tx_state_request_line')
    calls = [(b, c) for b, i, c in f.calls('htp_parse_uri')] + [(b, c) for b, i, c in f.calls('htp_parse_uri_hostport')]
    res.floor('C13.e', 'raw split calls in htp_tx_state_request_line', len(calls), 2)
    dep = [c for b, c in calls if any(a[0] == 'tx->parsed_uri' and a[2] == '0' for a, e in P.facts_at(f, b))]
    res.check(not dep, 'C13.e', 'htp_tx_state_request_line:raw-split-unconditional', 'the raw split is made whether or not parsed_uri was supplied',
              'the target is split into parsed_uri_raw only when tx->parsed_uri == NULL: with a URI supplied through htp_tx_req_set_parsed_uri() the raw components stay empty and do not re-join to the target', (dep[0]['loc'] if dep else f.loc))
    g = db.get('htp_parse_hostport')
    convs = g.calls('htp_parse_port')
    res.floor('C13.e', 'port conversions in htp_parse_hostport', len(convs), 2)
    dom = C.dominators(g)
    for b, i, c in convs:
        EXPAND[0] = False
        try:
            wa = (split_dst(g, c['args'][0]), lin(g, c['args'][1]))
            # the copy of the port text that precedes this conversion in the same arm (closest dominating store to *port ... under port != NULL)
            cands = []
            for bb, ii, st in g.stmts():
                for x in nodes(st, lambda y: y.get('k') == 'assign' and y['op'] == '=' and P.K(y['l']) == '*port' and P.call_name_of(y['r']) == 'bstr_dup_mem'):
                    # same arm: the conversion is reachable from the store without passing another conversion
                    if b in C.reachable(g, bb):
                        cands.append((len(dom[bb]), bb, strip(x['r'])))
            if not cands:
                res.violated('C13.e', 'htp_parse_hostport:port-text-not-reported:%s' % P.K(c['args'][0])[:30], 'a port is converted from %s but its text is not reported in *port' % P.K(c['args'][0]), c['loc'])
                continue
            cp = max(cands)[2]
            wb = (split_dst(g, cp['args'][0]), lin(g, cp['args'][1]))
        finally:
            EXPAND[0] = True
        same = wa[0][0] is not None and wb[0][0] is not None and P.K(wa[0][0]) == P.K(wb[0][0]) and wa[0][1] == wb[0][1] and wa[1] == wb[1]
        res.check(same, 'C13.e', 'htp_parse_hostport:same-window:%s' % P.K(c['args'][0])[:30], 'reported and converted port text are the same window',
                  'htp_parse_hostport reports the port text %s but converts %s: the raw port component and the numeric port disagree (a ":" ends up in the reported port, host and port no longer re-join to the authority)' % (S(cp)[:60], S(c)[:60]), c['loc'])


def c13f(db, res):
    """For CONNECT the target is an authority; htp_parse_uri_hostport() reports what htp_parse_hostport() split off. The raw
    components are reported whether or not the authority is valid (validity is an indicator, not a filter): host, port text and
    port number handed out by the splitter all end up in the URI structure on every successful return."""
    res.rule('C13.f', 'what the authority splitter hands out is reported: in htp_parse_uri_hostport each of the hostname / port / port_number out-parameters of htp_parse_hostport is the URI field itself, or a local that is stored into that field on every path to a successful return and never released')
    f = db.get('htp_parse_uri_hostport')
    n = 0
    for b, i, c in f.calls('htp_parse_hostport'):
        for pos, fld in ((1, 'hostname'), (2, 'port'), (3, 'port_number')):
            a = strip(c['args'][pos])
            n += 1
            key = 'htp_parse_uri_hostport:%s' % fld
            if a.get('k') == 'un' and a['op'] == '&' and P.member_field(a['e']) == fld:
                res.holds('C13.f', key, 'the splitter writes uri->%s directly' % fld, c['loc'])
                continue
            if not (a.get('k') == 'un' and a['op'] == '&' and strip(a['e']).get('k') == 'var'):
                res.unknown('C13.f', key, 'out-parameter is neither the URI field nor a local', c['loc'])
                continue
            L = strip(a['e'])['name']
            bad = None
            for atoms, events, end, seq in P.enum_paths_seq(f, (b, i), max_paths=20000):
                if end[0] != 'return' or lit_name(P.ret_value(end[3])) != 'HTP_OK':
                    continue
                stored = any(x[0] == 'stmt' and any(P.K(w['r']) == L for w in P.assigns_field(x[3], fld)) for x in seq)
                freed = any(x[0] == 'stmt' and any(c2.get('callee') in ('bstr_free', 'free') and c2.get('args') and P.K(c2['args'][0]) == L for c2 in nodes(x[3], lambda y: y.get('k') == 'call')) for x in seq)
                if any(a_[0] == L and a_[1] == '==' and a_[2] == '0' for a_, e_ in atoms):
                    continue                               # nothing was handed out on this path
                if freed or not stored:
                    bad = end[3]
            res.check(bad is None, 'C13.f', key, 'stored into uri->%s on every successful path' % fld,
                      'htp_parse_uri_hostport returns HTP_OK on a path where the %s the splitter handed out is dropped instead of stored in uri->%s: a CONNECT target with an invalid authority (port 0, 65536, "80x") loses that component, and the reported components no longer re-join to the target' % (fld, fld), (bad or c).get('loc', f.loc))
    res.floor('C13.f', 'out-parameters of the authority splitter', n, 3)


def c13g(db, res):
    """The hybrid API takes the request target (and the other line components) from the application. "No byte is invented or
    dropped" holds for it only if the setter stores exactly the bytes it was given."""
    res.rule('C13.g', 'hybrid setters store the bytes they are given: every copy_or_wrap_mem(P, N, alloc) in a public setter takes the setter\'s own (pointer, length) parameters, and neither is written in that function')
    n = 0
    for name, f in sorted(db.fn.items()):
        if not f.blocks or name == 'copy_or_wrap_mem':
            continue
        for b, i, c in f.calls('copy_or_wrap_mem'):
            n += 1
            a0, a1 = strip(c['args'][0]), strip(c['args'][1])
            params = [p['name'] for p in f.params]
            ok = a0.get('k') == 'var' and a1.get('k') == 'var' and a0['name'] in params and a1['name'] in params
            written = ok and any(strip(w['l']).get('k') == 'var' and strip(w['l'])['name'] in (a0['name'], a1['name']) for bb, ii, st in f.stmts() for w in nodes(st, lambda y: y.get('k') == 'assign'))
            res.check(ok and not written, 'C13.g', '%s:copy(%s,%s)' % (name, P.K(a0) if ok else '?', P.K(a1) if ok else '?'), 'the parameters are stored as given',
                      '%s stores (%s, %s) instead of the bytes it was given: bytes of the supplied value are dropped before it is reported (a request target such as " /a" or "/a\\t" loses bytes that then belong to no component)' % (name, P.K(a0), P.K(a1)), c['loc'])
    res.floor('C13.g', 'copies in the hybrid setters', n, 8)


URI_WRITERS = {
    'htp_parse_uri': 'the splitter', 'htp_parse_uri_hostport': 'CONNECT authority (through htp_parse_hostport)', 'htp_parse_hostport': 'authority splitter (out-parameters)',
    'htp_normalize_parsed_uri': 'the normaliser fills the normalised copy', 'htp_uri_alloc': 'constructor', 'htp_uri_free': 'destructor',
    'htp_replace_hostname': 'documented: the Host field replaces the hostname of the normalised URI when the target has none',
    'htp_connp_RES_IDLE': 'placeholder URI of a response without a request', 'htp_tx_req_set_parsed_uri': 'hybrid API: the application supplies the structure',
}


def c13h(db, res):
    """The components of the target are what the splitter found in the target. No later stage (header processing, host
    determination) writes a component of the URI structures - the Host field has its own fields (request_hostname,
    request_port_number)."""
    res.rule('C13.h', 'only the URI functions write URI components: every store to a field of htp_uri_t is in the splitter, the normaliser, the constructor / destructor or one of the tabled hand-overs')
    n = 0
    for name, f in sorted(db.fn.items()):
        if not f.blocks:
            continue
        for b, i, st in f.stmts():
            for a in nodes(st, lambda y: y.get('k') == 'assign' and strip(y['l']).get('k') == 'member' and strip(y['l']).get('rec') == 'htp_uri_t'):
                n += 1
                fld = strip(a['l'])['field']
                res.check(name in URI_WRITERS, 'C13.h', '%s:writes:htp_uri_t.%s' % (name, fld), URI_WRITERS.get(name, ''),
                          '%s stores into the %s component of a URI structure: a component that does not come from the request target is reported as part of it (a port taken from the Host field, say, for a target without a port)' % (name, fld), a['loc'])
    res.floor('C13.h', 'stores to URI components', n, 10)


def c13i(db, res):
    """The authority ends at the first "/", "?" or "#" after "//"; its delimiters ("@", ":", "]") are looked for inside it. A
    search for one of them that runs to the end of the target finds an "@" of the path or query and moves the host there:
    `http://evil.example/?next=@www.example.com` is then reported with host www.example.com."""
    res.rule('C13.i', 'authority delimiters are searched inside the authority: in htp_parse_uri no memchr window reaches to the end of the target (its length, as a linear form, does not contain the length parameter)')
    f = db.get('htp_parse_uri')
    lenp = None
    for b, i, c in f.calls('memchr'):
        pass
    # the length of the target: bstr_len(input) bound to a local
    lens = {v['name'] for b, i, st in f.stmts() for d in nodes(st, lambda y: y.get('k') == 'decl') for v in d['vars'] if v.get('init') is not None and 'len' in P.K(v['init']) and 'input' in P.K(v['init'])}
    n = 0
    for b, i, c in f.calls('memchr'):
        n += 1
        used = {strip(v)['name'] for v in nodes(c['args'][2], lambda y: y.get('k') == 'var')}
        bad = used & lens
        res.check(not bad, 'C13.i', 'htp_parse_uri:memchr(%s):window' % P.K(c['args'][1]), 'the window ends inside the authority',
                  'htp_parse_uri searches for %s in a window of length %s, i.e. up to the end of the target: a delimiter character in the path or query is taken for an authority delimiter and the reported host is not the host of the target' % (P.K(c['args'][1]), P.K(c['args'][2])), c['loc'])
    res.floor('C13.i', 'delimiter searches in htp_parse_uri', n, 4)
