"""C13 — URI splitting (DESIGN.md §4.13). Contiguity/partition of the slices as values is not decided."""
from ..facts import load, S, strip, nodes, is_lit, lit_name, root_of, AnalysisBroken
from ..report import Result
from .. import cfg as C
from .. import pat as P

TECHNIQUE = 'dominance rules on the URI splitter (which component may be stored under which test), store-order rule, source-of-bytes rule (every component is copied from the input buffer), agreement of the two port-range predicates'
ORDER = ['scheme', 'username', 'password', 'hostname', 'port', 'path', 'query', 'fragment']


def run(repo='/repo', tier='quick'):
    res = Result('C13')
    db = load(repo)
    res.rule('C13.a', 'in htp_parse_uri a scheme is stored only under data[0] != \'/\'; user, password, host and port only under scheme != NULL and the "//" test')
    res.rule('C13.b', 'the two port predicates accept exactly 0 < p < 65536 of a base-10 parse and mark everything else invalid with port -1')
    res.rule('C13.c', 'every stored component is a copy (bstr_dup_mem) of bytes of the input buffer: no component is invented')
    f = db.get('htp_parse_uri')
    stores = {}
    for b, i, st in f.stmts():
        for a in nodes(st, lambda y: y.get('k') == 'assign' and y['op'] == '=' and strip(y['l']).get('k') == 'member' and strip(y['l']).get('rec') == 'htp_uri_t'):
            stores.setdefault(strip(a['l'])['field'], []).append((b, i, a))
    for comp in ORDER:
        if comp not in stores:
            res.violated('C13.a', 'store:' + comp, 'htp_parse_uri never stores the %s component' % comp, f.loc)
    for comp, sites in stores.items():
        for b, i, a in sites:
            facts = [x for x, e in P.facts_at(f, b)]
            if comp == 'scheme':
                ok = ('data[0]', '!=', "'/'") in facts or ('data[0]', '!=', '47') in facts
                res.check(ok, 'C13.a', 'scheme:only-without-leading-slash', 'scheme is stored under data[0] != \'/\'', 'a scheme can be stored for a target that starts with \'/\'', a['loc'])
            elif comp in ('username', 'password', 'hostname', 'port'):
                ok = ('*uri->scheme', '!=', '0') in facts
                sl = any(x[0] == 'data[pos]' and x[1] == '==' and x[2] in ("'/'", '47') for x in facts) and any(x[0] == 'data[(pos + 1)]' and x[1] == '==' and x[2] in ("'/'", '47') for x in facts)
                res.check(ok and sl, 'C13.a', '%s:only-with-scheme' % comp, '%s is stored only after a scheme and "//"' % comp,
                          'the %s component can be stored without a scheme / without the "//" authority marker (a target starting with \'/\' could get an authority)' % comp, a['loc'])
    # no write to scheme between its test and the authority stores is implied by order rule below
    # ---- C13.c
    # source of bytes: every stored component is bstr_dup_mem(<pointer derived from data>, ...)
    derived = {'data'}
    ch = True
    while ch:
        ch = False
        for b, i, st in f.stmts():
            for x in nodes(st, lambda y: y.get('k') in ('assign', 'decl')):
                pairs = [(P.K(x['l']), x['r'])] if x['k'] == 'assign' else [(v['name'], v['init']) for v in x['vars'] if 'init' in v]
                for name, r in pairs:
                    if name in derived:
                        continue
                    vs = {v['name'] for v in nodes(r, lambda y: y.get('k') == 'var')}
                    rr = strip(r)
                    ptr = '*' in (rr.get('t') or '')
                    if ptr and vs & derived:
                        derived.add(name)
                        ch = True
    for comp, sites in stores.items():
        for b, i, a in sites:
            r = strip(a['r'])
            ok = r.get('k') == 'call' and r.get('callee') == 'bstr_dup_mem' and bool({v['name'] for v in nodes(r['args'][0], lambda y: y.get('k') == 'var')} & derived)
            res.check(ok, 'C13.c', 'source:%s' % comp, 'copied from the input buffer', 'the %s component is not a copy of bytes of the request target (%s)' % (comp, P.K(r)[:60]), a['loc'])
    # only spaces are trimmed from the end of the target
    trims = [(b, i, x) for b, i, st in f.stmts() for x in nodes(st, lambda y: (y.get('k') == 'un' and y['op'] in ('--', '--post') and P.K(y['e']) == 'len') or (y.get('k') == 'assign' and P.K(y['l']) == 'len' and y['op'] in ('-=', '=')))]
    for b, i, x in trims:
        facts = [a for a, e in P.facts_at(f, b)]
        ok = any(a[0] == 'data[(len - 1)]' and a[1] == '==' and a[2] in ("' '", '32') for a in facts)
        res.check(ok, 'C13.c', 'trim:only-trailing-spaces', 'len is only reduced under data[len - 1] == \' \'', 'htp_parse_uri shortens the target under a test other than data[len - 1] == \' \': bytes other than trailing spaces are silently dropped from the last component (guards: %s)' % facts[-2:], x['loc'])
    # ... and nothing else may move the window: the buffer pointer and the length are not handed to a helper by address
    for b, i, c in f.calls():
        for a in c['args']:
            a0 = strip(a)
            if a0 is not None and a0.get('k') == 'un' and a0['op'] == '&' and P.K(a0['e']) in ('len', 'data'):
                res.violated('C13.c', 'trim:window-by-address:%s' % (c.get('callee') or '?'), 'htp_parse_uri hands &%s to %s(): the window over the request target is changed by a helper (leading bytes or bytes other than trailing spaces can be dropped from the components)' % (P.K(a0['e']), c.get('callee')), c['loc'])
    # the raw components are never modified after the split: the normaliser reads `incomplete` only through const parameters / copies
    nz = db.get('htp_normalize_parsed_uri')
    raw = [p_['name'] for p_ in nz.params if 'htp_uri_t' in p_['t']]
    rawp = raw[0] if raw else 'incomplete'
    nraw = 0
    for b, i, c in nz.calls():
        cal = db.fn.get(c.get('callee') or '')
        for ai, a in enumerate(c['args']):
            if not P.K(a).startswith(rawp + '->') and ('(*' + rawp) not in P.K(a):
                continue
            nraw += 1
            ok = not P.writes_param(db, c.get('callee') or '?', ai)
            res.check(ok, 'C13.c', 'raw-components-read-only:%s(%s)' % (c.get('callee'), (rawp + '->' + P.K(a).split(rawp + '->')[1].split('.')[0].split(')')[0]) if (rawp + '->') in P.K(a) else P.K(a)[:40]), 'the callee does not store through this argument (const parameter, or no store through it or its aliases, transitively)',
                      'htp_normalize_parsed_uri passes the raw component %s to %s(), which takes it as a modifiable object: the raw components are rewritten after the split and no longer re-join to the request target' % (P.K(a), c.get('callee')), c['loc'])
    for b, i, x in nz.find(lambda y: y.get('k') == 'assign' and P.K(y['l']).startswith(rawp + '->')):
        res.violated('C13.c', 'raw-components-read-only:store:%s' % P.K(x['l']), 'htp_normalize_parsed_uri stores into the raw URI (%s)' % S(x)[:60], x['loc'])
    res.floor('C13.c', 'uses of raw components in the normaliser', nraw, 6)
    # ---- C13.b
    for fname, target, inval in (('htp_parse_port', '*port', ('*invalid', '1')), ('htp_normalize_parsed_uri', 'normalized->port_number', ('flag', 'HTP_HOSTU_INVALID'))):
        g = db.get(fname)
        pdefs = [v for b, i, st in g.stmts() for d in nodes(st, lambda y: y.get('k') == 'decl') for v in d['vars'] if v['name'] == 'port_parsed']
        okp = bool(pdefs) and P.call_name_of(pdefs[0].get('init')) == 'htp_parse_positive_integer_whitespace' and is_lit(strip(pdefs[0]['init'])['args'][2], 10)
        res.check(okp, 'C13.b', fname + ':base-10', 'port text is parsed as a base-10 positive integer', 'the port is no longer parsed with htp_parse_positive_integer_whitespace(..., 10)', g.loc)
        nv = 0
        for b, i, st in g.stmts():
            for a in nodes(st, lambda y: y.get('k') == 'assign' and y['op'] == '=' and P.K(y['l']) == target):
                facts = [x for x, e in P.facts_at(g, b)]
                if is_lit(a['r'], -1):
                    # invalid arm: must also mark invalid unless it is the "no port" arm
                    noport = any(x[0].endswith('->port') and x[1] == '==' and x[2] == '0' for x in facts)
                    if noport:
                        continue
                    blk = g.blocks[b]['stmts']
                    if inval[0] == 'flag':
                        marked = any(lit_name(w['r']) == inval[1] for w in nodes(blk, lambda y: y.get('k') == 'assign' and y['op'] == '|='))
                    else:
                        marked = any(P.K(w['l']) == inval[0] and is_lit(w['r'], 1) for w in nodes(blk, lambda y: y.get('k') == 'assign'))
                    arm = 'parse-failed' if ('port_parsed', '<', '0') in facts else 'empty' if ('len', '==', '0') in facts else 'out-of-range'
                    res.check(marked, 'C13.b', '%s:%s:marked-invalid' % (fname, arm), 'port -1 is accompanied by the invalid mark', 'the %s arm sets port -1 without marking the host invalid' % arm, a['loc'])
                else:
                    nv += 1
                    ok = ('port_parsed', '>', '0') in facts and ('port_parsed', '<', '65536') in facts and ('port_parsed', '>=', '0') in facts and P.K(a['r']) == 'port_parsed'
                    res.check(ok, 'C13.b', fname + ':valid-range', 'a port is accepted exactly under 0 < port_parsed < 65536', 'the accepted port range is not 1..65535 (guards: %s)' % [x for x in facts if x[0] == 'port_parsed'], a['loc'])
        res.check(nv == 1, 'C13.b', fname + ':one-accepting-arm', 'one accepting arm', '%d arms store a parsed port' % nv, g.loc)
    res.assumptions.append('that the components partition the target (re-joining reproduces it) is a statement about values and is not decided')
    return res
