"""C02 — parse fidelity (DESIGN.md §4.2).  The statement is an equality between what is reported and what was on the wire
and is not decided.  Decided are four structural facts that this equality rests on, each for every path:
 a. provenance: every string the statement lists is stored as a copy of bytes of the message's own line (or is empty/NULL),
    never a literal or bytes of another object (tabled: the placeholder URI of a response that has no request);
 b. slices end at scan positions: in every such copy (data + S, n) the end S + n is a variable of the function - the cursor
    where the scan stopped, or the length - not a constant distance from one (a `- 1` / `+ 1` slip drops or adds a byte);
 c. nothing is skipped unexamined: in the two line splitters every forward step of the cursor is taken inside a loop whose
    condition looks at the byte being stepped over;
 d. repeated fields are combined: on the repetition arm of both header processors the existing value grows by ", " and then
    by the new value, in that order, on every path that is not one of the two documented exceptions."""
from ..facts import load, S, strip, nodes, is_lit, lit_name, AnalysisBroken
from ..report import Result
from .. import cfg as C
from .. import pat as P
from . import c01j

TECHNIQUE = 'static: provenance classification of every store to the wire-derived fields; linear-form rule "a slice ends at a scan position"; loop-structure rule for cursor steps in the line splitters; path rule for the merge of repeated fields'
TXFIELDS = ('request_line', 'request_method', 'request_uri', 'request_protocol', 'response_line', 'response_protocol', 'response_status', 'response_message')
# functions that build the parse result from wire bytes (the hybrid-mode setters take the strings from the application)
LITERAL_OK = {('htp_connp_RES_IDLE', 'request_uri'): 'placeholder URI of the transaction created for a response that has no request (not a well-formed exchange)',
              ('htp_process_request_header_generic', 'name'): None}
SPLITTERS = ('htp_parse_request_line_generic_ex', 'htp_parse_response_line_generic')
HEADER_PARSERS = ('htp_parse_request_header_generic', 'htp_parse_response_header_generic')


def input_roots(f):
    """locals / parameters that point into the message's own line: byte-pointer parameters, and locals initialised from
    bstr_ptr(<a wire field>) or from another root (+ offset)"""
    roots = {p['name'] for p in f.params if 'char *' in p['t'] or 'void *' in p['t']}
    # the consolidated line view: a byte-pointer local filled through an out-parameter next to its length (f(&data, &len))
    for b, i, st in f.stmts():
        for c in nodes(st, lambda y: y.get('k') == 'call'):
            for a1, a2 in zip(c['args'], c['args'][1:]):
                a1, a2 = strip(a1), strip(a2)
                if a1 is not None and a2 is not None and a1.get('k') == 'un' and a2.get('k') == 'un' and a1['op'] == '&' and a2['op'] == '&' and strip(a1['e']).get('k') == 'var' and 'char *' in (strip(a1['e']).get('t') or ''):
                    roots.add(strip(a1['e'])['name'])
    ch = True
    while ch:
        ch = False
        for b, i, st in f.stmts():
            for x in nodes(st, lambda y: y.get('k') in ('decl', 'assign')):
                items = [(v['name'], v.get('init')) for v in x['vars']] if x['k'] == 'decl' else ([(P.K(x['l']), x['r'])] if x['op'] == '=' and strip(x['l']).get('k') == 'var' else [])
                for n, init in items:
                    i0 = strip(init)
                    if n in roots or i0 is None:
                        continue
                    m = i0.get('macro') or (init or {}).get('macro')
                    if m == 'bstr_ptr' or (i0.get('k') == 'cond' and 'realptr' in P.K(i0)):
                        roots.add(n)
                        ch = True
                    else:
                        base, off = c01j.split_dst(f, i0)
                        if base is not None and base.get('k') == 'var' and base['name'] in roots and '*' in (i0.get('t') or '*'):
                            roots.add(n)
                            ch = True
    return roots


def run(repo='/repo', tier='quick'):
    res = Result('C02')
    db = load(repo)
    res.rule('C02.a', 'provenance: every store to a wire-derived string of the transaction (request/response line, method, URI, protocol, status, message) and to a header name/value in the stream parsers is NULL, a copy of bytes of the current line, or a tabled placeholder - never a literal or bytes of another object')
    res.rule('C02.b', 'slices end at scan positions: in every copy (data + S, n) that fills one of those strings, S + n is a single variable of the function (the cursor where the scan stopped, or the length), and the start S is a variable or a variable + 1')
    res.rule('C02.c', 'nothing is skipped unexamined: in the request-line and status-line splitters every increment of the cursor is inside a loop whose condition tests the byte at the cursor')
    res.rule('C02.d', 'repeated fields are combined: on the repetition arm of both header processors every path that is not the duplicate Content-Length arm and not over the repetition budget appends ", " and then the new value to the existing value')
    hybrid = {n for n in db.fn if n.startswith(('htp_tx_req_set_', 'htp_tx_res_set_'))}
    # ---------------- C02.a / C02.b
    nst = 0
    for name, f in sorted(db.fn.items()):
        if not f.blocks or name in hybrid or f.loc.startswith('htp/lzma'):
            continue
        roots = None
        for fld in TXFIELDS + (('name', 'value') if name in HEADER_PARSERS + ('htp_process_request_header_generic', 'htp_process_response_header_generic') else ()):
            for b, i, x in P.field_writes(f, fld):
                l = strip(x['l'])
                if x['k'] != 'assign' or x['op'] != '=' or l.get('rec') not in ('htp_tx_t', 'htp_header_t'):
                    continue
                nst += 1
                r = strip(x['r'])
                key = '%s:%s' % (name, fld)
                if is_lit(r, 0):
                    res.holds('C02.a', key + '=NULL', 'reset', x['loc'])
                    continue
                if roots is None:
                    roots = input_roots(f)
                if r.get('k') == 'call' and r.get('callee') == 'bstr_dup_mem':
                    base, off = c01j.split_dst(f, r['args'][0])
                    ok = base is not None and base.get('k') == 'var' and base['name'] in roots
                    res.check(ok, 'C02.a', key + '=copy(%s)' % P.K(r['args'][0])[:30], 'a copy of bytes of the current line', '%s stores %s from %s, which does not point into the current line' % (name, fld, P.K(r['args'][0])), x['loc'])
                    if ok:
                        c01j.EXPAND[0] = False
                        try:
                            base, off = c01j.split_dst(f, r['args'][0])
                            ln = c01j.lin(f, r['args'][1])
                        finally:
                            c01j.EXPAND[0] = True
                        kb = key + '=copy(%s, %s)' % (P.K(r['args'][0])[:30], P.K(r['args'][1])[:30])
                        if ln is None or off is None:
                            res.unknown('C02.b', kb, 'start or length is not a linear expression', x['loc'])
                        else:
                            E = c01j.add(off, ln)
                            terms = {t: c for t, c in E.items() if t != ''}
                            pure_end = len(terms) == 1 and list(terms.values()) == [1] and E.get('', 0) == 0
                            st_terms = {t: c for t, c in off.items() if t != ''}
                            ok_start = (not st_terms and off.get('', 0) == 0) or (len(st_terms) == 1 and list(st_terms.values()) == [1] and off.get('', 0) in (0, 1))
                            res.check(pure_end and ok_start, 'C02.b', kb, 'ends at %s, starts at %s' % (list(terms)[0] if pure_end else '?', off or 0),
                                      'the copy that fills %s %s: a byte is dropped from or added to the reported string' % (fld, ('ends at %s, a constant distance from a scan position' % E) if not pure_end else ('starts at %s' % off)), x['loc'])
                elif r.get('k') == 'call' and r.get('callee') in ('bstr_dup', 'bstr_dup_ex', 'bstr_dup_lower') and any(t in P.K(r['args'][0]) for t in TXFIELDS):
                    res.holds('C02.a', key + '=copy(%s)' % P.K(r['args'][0])[:40], 'derived from another wire field of the same transaction', x['loc'])
                elif r.get('k') == 'call' and r.get('callee') in ('bstr_dup_c',):
                    lit = strip(r['args'][0])
                    empty = lit.get('k') == 'str' and lit.get('v') == ''
                    why = LITERAL_OK.get((name, fld))
                    if empty:
                        res.holds('C02.a', key + '=""', 'the empty string (a header line without a name)', x['loc'])
                    elif why:
                        res.holds('C02.a', key + '=literal', 'tabled: ' + why, x['loc'])
                    else:
                        res.violated('C02.a', key + '=literal', '%s stores the literal %s into %s: the reported string is invented, not taken from the wire' % (name, S(lit)[:40], fld), x['loc'])
                elif r.get('k') == 'var' and r.get('decl') == 'local' and P.call_name_of(c01j.single_defs(f).get(r['name']) or next((v.get('init') for bb, ii, s2 in f.stmts() for dcl in nodes(s2, lambda y: y.get('k') == 'decl') for v in dcl['vars'] if v['name'] == r['name'] and 'init' in v), None)) == 'bstr_expand':
                    res.holds('C02.a', key + '=grown(' + r['name'] + ')', 'the same string, grown by bstr_expand', x['loc'])
                elif r.get('k') == 'var' and r.get('decl') in ('local', 'param'):
                    res.unknown('C02.a', key + '=' + r['name'], 'stored from a local/parameter whose provenance is not followed', x['loc'])
                else:
                    res.violated('C02.a', key + '=' + P.K(r)[:40], '%s stores %s into %s: not a copy of bytes of the current line' % (name, P.K(r)[:60], fld), x['loc'])
    res.floor('C02.a', 'stores to wire-derived strings in the stream parsers', nst, 20)
    # ---------------- C02.c
    from .. import guards as G
    nsteps = 0
    for sn in SPLITTERS:
        f = db.get(sn)
        lps = C.loops(f)
        dom = C.dominators(f)
        pairs = G.pairs_of(f)
        for b, i, st in f.stmts():
            for u in nodes(st, lambda y: y.get('k') == 'un' and y['op'] in ('++', '++post', '--', '--post') and strip(y['e']).get('k') == 'var'):
                cur = strip(u['e'])['name']
                # the scan cursor: a variable that indexes the line buffer somewhere in the function
                if not any(G.term(ix['idx']) and G.term(ix['idx'])[0] == cur and P.K(ix['base']) in pairs for bb, ii, s2 in f.stmts() for ix in nodes(s2, lambda y: y.get('k') == 'index')):
                    continue
                inner = [(h, body) for h, body in lps if b in body]
                if not inner:
                    continue                                   # a single step after a test (handled by the slice rules)
                nsteps += 1
                offs = set()
                for h, body in inner[:1] if len(inner) == 1 else [min(inner, key=lambda hb: len(hb[1]))]:
                    for cb in body:
                        c = f.cond_of(cb)
                        if c and cb in dom[b]:
                            for ix in nodes(c[0], lambda y: y.get('k') == 'index' and P.K(y['base']) in pairs):
                                t = G.term(ix['idx'])
                                if t and t[0] == cur:
                                    offs.add(t[1])
                key = '%s:%s%s' % (sn, cur, '++' if '+' in u['op'] else '--')
                res.check(0 in offs, 'C02.c', key, 'the condition of the enclosing loop examines the byte at the cursor',
                          '%s moves %s in a loop whose condition examines %s instead of the byte at the cursor: the scan stops one byte away from the delimiter, so the delimiter ends up inside the reported component (or a byte of the component outside it)'
                          % (sn, cur, ('data[%s%+d]' % (cur, sorted(offs)[0])) if offs else 'no byte of the line'), u['loc'])
    res.floor('C02.c', 'cursor steps inside loops of the line splitters', nsteps, 8)
    # ---------------- C02.e
    res.rule('C02.e', 'fields are split at the first occurrence of their delimiter: the parsers of the request/response line, headers, Host, credentials and cookies contain no reverse search (bstr_rchr / memrchr / strrchr); positive control: bstr_rchr exists')
    pf = ('htp/htp_request_generic.c', 'htp/htp_response_generic.c', 'htp/htp_parsers.c', 'htp/htp_cookies.c', 'htp/htp_transaction.c', 'htp/htp_request.c', 'htp/htp_response.c', 'htp/htp_util.c')
    rev = [(n, c) for n, f in sorted(db.fn.items()) if f.loc.startswith(pf) for b, i, c in f.calls() if c.get('callee') in ('bstr_rchr', 'memrchr', 'strrchr')]
    for n, c in rev:
        res.violated('C02.e', '%s:%s' % (n, c['callee']), '%s splits a wire field with the reverse search %s(): a field that contains its delimiter more than once (a password with a colon) is split at the last occurrence, not the first' % (n, c['callee']), c['loc'])
    if not rev:
        res.holds('C02.e', 'no-reverse-search', 'no reverse search in %d parser functions' % sum(1 for n, f in db.fn.items() if f.loc.startswith(pf)), '')
    if 'bstr_rchr' not in db.fn:
        raise AnalysisBroken('C02.e: positive control bstr_rchr() not found')
    # ---------------- C02.d
    for pn, tbl in (('htp_process_request_header_generic', 'request_headers'), ('htp_process_response_header_generic', 'response_headers')):
        f = db.get(pn)
        ex = P.local_init_from(f, lambda e: e is not None and e.get('k') == 'call' and e.get('callee') == 'htp_table_get')
        if not ex:
            raise AnalysisBroken('C02.d: the lookup of the existing header was not found in %s' % pn)
        tests = [b for b in f.blocks if f.cond_of(b) and P.canon(f.cond_of(b)[0]) == (ex, '!=', '0')]
        if len(tests) != 1:
            raise AnalysisBroken('C02.d: expected one `%s != NULL` test in %s' % (ex, pn))
        npth, bad = 0, None
        badroom = None
        for atoms, events, end, seq in P.enum_paths_seq(f, (f.blocks[tests[0]]['succs'][0], -1), max_paths=50000):
            if end[0] not in ('return', 'exit'):
                continue
            facts = [a for a, bb in atoms]
            if end[0] == 'return' and lit_name(P.ret_value(end[3])) == 'HTP_ERROR':
                continue                                       # allocation failure
            over_budget = any(('repetitions' in a[0] or 'repetitions' in a[2]) and a[1] in ('>=', '>', '<', '<=') for a in facts) and not any(
                x[0] == 'stmt' and any(c.get('callee') in ('bstr_expand',) for c in nodes(x[3], lambda y: y.get('k') == 'call')) for x in seq)
            is_cl = any(a[0].startswith('bstr_cmp_c_nocase(') and 'content-length' in a[0].lower() and a[1] == '==' and a[2] == '0' for a in facts)
            if is_cl or over_budget:
                continue
            npth += 1
            adds = []
            for x in seq:
                if x[0] != 'stmt':
                    continue
                for c in nodes(x[3], lambda y: y.get('k') == 'call' and (y.get('callee') or '').startswith('bstr_add')):
                    a1 = strip(c['args'][1])
                    adds.append('SEP' if a1.get('k') == 'str' and a1.get('v') == ', ' else 'VALUE' if P.K(a1).endswith('->value') else 'OTHER')
            if adds[:2] != ['SEP', 'VALUE'] or len(adds) != 2:
                bad = (adds, facts[-3:])
            # the room made for the merge is the old value, the separator and the new value (the appends that follow are the
            # no-expand kind: they silently copy only what fits)
            for x in seq:
                if x[0] != 'stmt':
                    continue
                for c in nodes(x[3], lambda y: y.get('k') == 'call' and y.get('callee') == 'bstr_expand'):
                    from . import c01j as _c01j
                    L = _c01j.lin(f, c['args'][1])
                    terms = {k_: v_ for k_, v_ in (L or {}).items() if k_ != ''}
                    okroom = L is not None and L.get('', 0) == 2 and len(terms) == 2 and all(v_ == 1 for v_ in terms.values()) and any(ex in k_ for k_ in terms) and any(ex not in k_ for k_ in terms)
                    if not okroom:
                        badroom = (P.K(c['args'][1]), c['loc'])
        res.check(bad is None and npth > 0, 'C02.d', pn + ':repetition-merge', 'all %d merge paths append ", " and then the new value' % npth,
                  'a repeated header field is not combined as <existing>, <new> on a path (appends %s, guards %s): the reported value loses or garbles a field that was on the wire' % (bad or ('', ''))[:2], f.loc)
        res.check(badroom is None, 'C02.d', pn + ':room-for-the-merge', 'bstr_expand makes room for the old value, 2 separator bytes and the new value',
                  'the room made for the merged value is `%s`, not len(old) + 2 + len(new): the no-expand appends that follow copy only what fits, so the merged value silently loses its last bytes (`Transfer-Encoding: gzip` + `chunked` becomes `gzip, chunk`)' % (badroom or ('',))[0], (badroom or ('', f.loc))[1])
    res.assumptions += ['equality of the reported strings with the wire is a statement about values and is not decided', 'the personality-specific request line parser (apache_2_2) shares the generic splitter',
                        'hybrid-mode setters (htp_tx_req_set_* / htp_tx_res_set_*) take the strings from the application and are outside the rule']
    from . import mirror
    mirror.run(db, res, 'C02.f', [('htp_tx_req_set_header', 'htp_tx_res_set_header', None), ('htp_tx_req_set_headers_clear', 'htp_tx_res_set_headers_clear', None),
                                  ('htp_tx_req_set_protocol_number', 'htp_tx_res_set_protocol_number', None)])
    from . import coupdate
    slots = ('parse_request_line', 'process_request_header', 'parse_response_line', 'process_response_header')
    coupdate.run(db, res, 'C02.g', [('htp_cfg_t', a, b, 5, 'every personality fills all four parser slots') for a in slots for b in slots if a != b] + [('htp_base64_decoder', 'step', 'plainchar', 4, 'the base64 decoder moves to its next step with the carry bits of that step'), ('htp_base64_decoder', 'plainchar', 'step', 4, 'the base64 decoder moves to its next step with the carry bits of that step')],
                  'fields that change together: every server personality sets all four parser slots (request line, request header, response line, response header); a personality that leaves one unset keeps the previous personality\'s parser for that part')
    from . import lockstep
    lockstep.run(db, res, 'C02.h')
    lockstep.run_single_step(db, res, 'C02.i', ['htp_parse_request_header_generic', 'htp_parse_response_header_generic', 'htp_parse_request_line_generic_ex', 'htp_parse_response_line_generic', 'htp_process_request_header_generic', 'htp_process_response_header_generic', 'htp_parse_ct_header', 'htp_parse_cookies_v0', 'htp_parse_single_cookie_v0', 'htp_parse_authorization_digest', 'htp_parse_authorization_basic', 'htp_parse_authorization', 'htp_extract_quoted_string_as_bstr', 'htp_parse_content_length', 'htp_parse_chunked_length', 'htp_parse_positive_integer_whitespace'])
    c02j(db, res)
    c02k(db, res)
    return res


def _cursor_delta(seq, v):
    d = 0
    for x in seq:
        if x[0] != 'stmt':
            continue
        for u in nodes(x[3], lambda y: y.get('k') == 'un' and y['op'] in ('++', '++post', '--', '--post') and strip(y['e']).get('k') == 'var' and strip(y['e'])['name'] == v):
            d += 1 if '+' in u['op'] else -1
        for a in nodes(x[3], lambda y: y.get('k') == 'assign' and y['op'] in ('+=', '-=') and strip(y['l']).get('k') == 'var' and strip(y['l'])['name'] == v):
            k = strip(a['r'])
            if k.get('k') == 'lit':
                d += k['v'] if a['op'] == '+=' else -k['v']
            else:
                return None
    return d


def c02j(db, res):
    """Quoted strings are extracted in two passes over the same bytes: one measures (finds the closing quote, counts the
    escapes), one copies. They must step over an escape the same way - a measuring pass that walks byte by byte while the
    copying pass takes backslash + octet as a pair disagree as soon as the escaped octet is itself a backslash, and the
    reported string is cut short or padded with whatever the allocation held."""
    res.rule('C02.j', 'the passes over a quoted string agree on escapes: in a function with several loops that test the byte at one cursor against a backslash, every such loop has the same set of (escape seen?, cursor advance) over its iteration paths')
    n = 0
    for name, f in sorted(db.fn.items()):
        if not f.blocks:
            continue
        found = {}
        lps = C.loops(f)
        for h, body in lps:
            tests = []
            for bb in sorted(body):
                c = f.cond_of(bb)
                if not c:
                    continue
                e = strip(c[0])
                if e.get('k') == 'bin' and e['op'] in ('==', '!=') and is_lit(strip(e['r']), 92) and strip(e['l']).get('k') == 'index' and strip(strip(e['l'])['idx']).get('k') == 'var':
                    tests.append((bb, P.K(strip(e['l'])['base']), strip(strip(e['l'])['idx'])['name']))
            if len(tests) != 1 or any(b2 < body and tests[0][0] in b2 for h2, b2 in lps):
                continue
            bb, arr, v = tests[0]
            sig = set()
            try:
                paths = P.enum_paths_seq(f, (h, -1), max_paths=20000)
            except AnalysisBroken:
                continue
            for atoms, events, end, seq in paths:
                if end[0] != 'loop' or end[1] != h:
                    continue
                esc = any(a[0] == '%s[%s]' % (arr, v) and a[1] == '==' and a[2] in ('92', "'\\\\'") for a, e_ in atoms)
                sig.add((esc, _cursor_delta(seq, v)))
            found.setdefault((arr, v), []).append((h, sig, c[0].get('loc', f.loc) if c else f.loc))
        for (arr, v), ls in found.items():
            if len(ls) < 2:
                continue
            n += 1
            ref = ls[0][1]
            same = all(sg == ref for h, sg, loc in ls)
            res.check(same, 'C02.j', '%s:%s[%s]:escape-steps' % (name, arr, v), 'all %d passes advance the cursor the same way: %s' % (len(ls), sorted(ref, key=str)),
                      '%s scans %s[%s] in %d passes that disagree on how far an escape advances the cursor (%s): the measured length and the copied bytes no longer belong together when the escaped octet is a backslash' % (name, arr, v, len(ls), ' vs '.join(str(sorted(sg, key=str)) for h, sg, loc in ls)), ls[-1][2])
    res.floor('C02.j', 'functions with two escape-aware passes over one buffer', n, 1)


def c02k(db, res):
    """A header line is parked in in_header / out_header while the parser waits to see whether the next line continues it.
    Whoever leaves the header state has to process (or knowingly discard) the parked line first: otherwise the field is
    missing from its own message and is prepended to the first header of the next one."""
    res.rule('C02.k', 'the parked header line is dealt with before the header state is left: in htp_connp_REQ_HEADERS / htp_connp_RES_HEADERS every path to a return that changed the state (a store to the state slot, or the call that does it) passes a test of the parked line against NULL or its processing')
    n = 0
    for name, d, hdr in (('htp_connp_REQ_HEADERS', 'in', 'in_header'), ('htp_connp_RES_HEADERS', 'out', 'out_header')):
        f = db.get(name)
        # functions that change the state slot themselves (directly, or through a helper: closed over direct calls)
        movers = {n_ for n_, g in db.fn.items() if g.blocks and P.field_writes(g, '%s_state' % d)}
        grew = True
        while grew:
            grew = False
            for n_, g in db.fn.items():
                if n_ not in movers and g.blocks and n_ != name and any((c2.get('callee') in movers) for b_, i_, c2 in g.calls()):
                    movers.add(n_)
                    grew = True
        movers.discard(name)
        for b, i, st in f.returns() or []:
            rv = P.ret_value(st)
            if rv is None or lit_name(rv) in ('HTP_ERROR', 'HTP_DATA', 'HTP_DATA_BUFFER'):
                continue
            bad = None
            k = 0
            for atoms, events, end, seq in P.enum_paths_seq(f, (f.entry, -1), stop=lambda bb, ii, s_: (bb, ii) == (b, i), max_paths=100000):
                if not (end[0] == 'return' and tuple(end[1:3]) == (b, i)):
                    continue
                leaves = any(x[0] == 'stmt' and (P.assigns_field(x[3], '%s_state' % d) or any((c2.get('callee') or '') in movers for c2 in nodes(x[3], lambda y: y.get('k') == 'call'))) for x in seq)
                if not leaves:
                    continue
                k += 1
                dealt = any(a[0] == 'connp->' + hdr and a[1] in ('==', '!=') and a[2] == '0' for a, e_ in atoms)
                if not dealt:
                    bad = [a for a, e_ in atoms][-2:]
            if k:
                n += 1
                res.check(bad is None, 'C02.k', '%s:leaves-state@%s' % (name, '|'.join('%s%s%s' % a for a, e_ in P.facts_at(f, b)[-1:]) or 'top'), 'every path tests (and processes) the parked header line first',
                          '%s leaves the header state on a path that never looks at the parked header line connp->%s (guards: %s): a field that was waiting for a possible continuation line is missing from this message and turns up at the head of the next one' % (name, hdr, bad), st['loc'])
    res.floor('C02.k', 'state-changing returns of the header states', n, 3)
