"""Shared rule: fields that change together.  On the pinned tree some record fields are written in the same basic block (or in
two control-equivalent blocks) at every single site (mined once over all units, then frozen here with the property that owns each pair).  A site that updates
one without the other - an update dropped on one branch, a statement moved away - breaks the invariant the pair encodes."""
from ..facts import S, strip, nodes
from .. import cfg as C


def written_fields(blk, ops=None):
    w = {}
    for st in blk['stmts']:
        for x in nodes(st, lambda y: y.get('k') == 'assign' or (y.get('k') == 'un' and y['op'] in ('++', '--', '++post', '--post'))):
            l = strip(x.get('l') if x['k'] == 'assign' else x['e'])
            if ops and x['op'].replace('post', '') not in ops:
                continue
            if l is not None and l.get('k') == 'member' and l.get('rec'):
                w.setdefault((l['rec'], l['field']), x)
    return w


def run(db, res, rule, pairs, text):
    """pairs: (record, field A, field B, floor, why[, ops]): wherever A is written (with one of the operators in ops, when given), B is written
    in the same basic block"""
    res.rule(rule, text)
    for rec, A, B, floor, why, *opt in pairs:
        ops = opt[0] if opt else None
        n = 0
        for name, f in sorted(db.fn.items()):
            if not f.blocks or f.loc.startswith('htp/lzma'):
                continue
            dom = pdom = None
            for b, blk in f.blocks.items():
                w = written_fields(blk)
                wa = written_fields(blk, ops) if ops else w
                if (rec, A) not in wa:
                    continue
                n += 1
                together = (rec, B) in w
                if not together:
                    # not in the same basic block: still one step when the two blocks are control equivalent (each runs exactly
                    # when the other does - a conditional expression between the two stores splits the block, nothing more)
                    dom = dom or C.dominators(f)
                    pdom = pdom or C.postdominators(f)
                    for b2, blk2 in f.blocks.items():
                        if b2 != b and (rec, B) in written_fields(blk2) and ((b in dom[b2] and b2 in pdom[b]) or (b2 in dom[b] and b in pdom[b2])):
                            together = True
                res.check(together, rule, '%s:%s.%s=>%s' % (name, rec, A, B), 'updated together (%s)' % why,
                          '%s updates %s.%s without %s in the same step (%s): everywhere else the two change together' % (name, rec, A, B, why), wa[(rec, A)]['loc'])
        res.floor(rule, 'sites that update %s.%s' % (rec, A), n, floor)
