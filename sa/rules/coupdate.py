"""Shared rule: fields that change together.  On the pinned tree some record fields are written in the same basic block at
every single site (mined once over all units, then frozen here with the property that owns each pair).  A site that updates
one without the other - an update dropped on one branch, a statement moved away - breaks the invariant the pair encodes."""
from ..facts import S, strip, nodes


def written_fields(blk, ops=None):
    w = {}
    for st in blk['stmts']:
        for x in nodes(st, lambda y: y.get('k') == 'assign' or (y.get('k') == 'un' and y['op'] in ('++', '--', '++post', '--post'))):
            l = strip(x.get('l') if x['k'] == 'assign' else x['e'])
            if ops and x['op'].replace('post', '') not in ops:
                continue
            if l is not None and l.get('k') == 'member' and l.get('rec'):
                w.setdefault((l['rec'], l['field']), x)
    return w


def run(db, res, rule, pairs, text):
    """pairs: (record, field A, field B, floor, why[, ops]): wherever A is written (with one of the operators in ops, when given), B is written
    in the same basic block"""
    res.rule(rule, text)
    for rec, A, B, floor, why, *opt in pairs:
        ops = opt[0] if opt else None
        n = 0
        for name, f in sorted(db.fn.items()):
            if not f.blocks or f.loc.startswith('htp/lzma'):
                continue
            for b, blk in f.blocks.items():
                w = written_fields(blk)
                wa = written_fields(blk, ops) if ops else w
                if (rec, A) not in wa:
                    continue
                n += 1
                res.check((rec, B) in w, rule, '%s:%s.%s=>%s' % (name, rec, A, B), 'updated together (%s)' % why,
                          '%s updates %s.%s without %s in the same step (%s): everywhere else the two change together' % (name, rec, A, B, why), wa[(rec, A)]['loc'])
        res.floor(rule, 'sites that update %s.%s' % (rec, A), n, floor)
