"""C01.n - use before test (Engler's belief contradiction): a pointer that the code tests against NULL is believed to be
possibly NULL at that point; a dereference of the same pointer that reaches the test with no assignment in between
contradicts the belief - either the test is dead or the dereference can crash.  Zero instances on the pinned tree."""
import collections
from ..facts import S, strip, nodes
from .. import cfg as C
from .. import pat as P


def run(db, res, rule='C01.n'):
    res.rule(rule, 'use before NULL test: no pointer is dereferenced (->, *, []) at a point from which, with no assignment to it in between, control reaches a test of that same pointer against NULL (a moved or late NULL check)')
    ntests = 0
    for n, f in sorted(db.fn.items()):
        if not f.blocks or f.loc.startswith('htp/lzma'):
            continue
        derefs = collections.defaultdict(list)
        for b, i, st in f.stmts():
            for x in nodes(st, lambda y: (y.get('k') == 'member' and y.get('arrow')) or (y.get('k') == 'un' and y.get('op') == '*') or y.get('k') == 'index'):
                base = x.get('base') if x['k'] in ('member', 'index') else x.get('e')
                if ((strip(base) or {}).get('t') or '').endswith(']'):
                    continue
                derefs[P.K(base)].append((b, i, x['loc']))
        for b in f.blocks:
            co = f.cond_of(b)
            if not co:
                continue
            a = P.canon(co[0])
            if not a or a[2] != '0' or a[1] not in ('==', '!='):
                continue
            t0 = strip(co[0])
            V = a[0]
            ntests += 1
            if V not in derefs:
                continue
            ci = len(f.blocks[b]['stmts']) - 1
            hit = None
            nonnull = None

            def writes(s2):
                return any(P.K(w.get('l') if w['k'] == 'assign' else w['e']) == V for w in nodes(s2, lambda y: y.get('k') == 'assign' or (y.get('k') == 'un' and y.get('op') in ('++', '--', '++post', '--post')))) \
                    or any((strip(a_) or {}).get('k') == 'un' and (strip(a_) or {}).get('op') == '&' and P.K(strip(a_)['e']) == V for c in nodes(s2, lambda y: y.get('k') == 'call') for a_ in c.get('args', [])) \
                    or any(v['name'] == V for d in nodes(s2, lambda y: y.get('k') == 'decl') for v in d['vars'])
            for (db_, di, loc) in derefs[V]:
                if db_ == b and di >= ci:
                    continue
                if any(a_[0] == V and a_[1] == '!=' and a_[2] == '0' for a_, d in P.facts_at(f, db_)):
                    continue        # dereferenced under its own NULL guard; a later re-test is redundant, not contradictory
                if writes(f.blocks[db_]['stmts'][di]):
                    continue        # V = g(V->x): the dereference belongs to the old value
                if nonnull is None:
                    def gen_edge(pb, j):
                        c2 = f.cond_of(pb)
                        if not c2:
                            return False
                        a2 = P.canon(c2[0], j == 0)
                        return bool(a2) and a2[0] == V and a2[1] == '!=' and a2[2] == '0'
                    nonnull = C.must_hold(f, gen_edge, writes)
                if nonnull(db_, di):
                    continue        # known non-NULL on every path to the dereference (tested, or assigned and tested)
                reached = []

                def visit(bb, ii, s2):
                    if bb == b and ii == ci:
                        reached.append(1)
                        return True
                    return writes(s2)
                C.forward(f, (db_, di), visit)
                if reached:
                    hit = loc
                    break
            key = '%s:%s' % (n, V)
            if hit:
                res.violated(rule, key, '%s dereferences %s (at %s) and then, with no assignment in between, tests it against NULL: if it can be NULL the dereference crashes first (a NULL check moved below a use)' % (n, V, hit), co[0]['loc'])
            else:
                res.holds(rule, key, 'every dereference that reaches this NULL test is separated from it by an assignment', co[0]['loc'])
    res.floor(rule, 'NULL tests examined', ntests, 300)


def run_strncpy(db, res, rule='C01.o'):
    """strncpy(D, S, N) leaves D without a terminating NUL when S has N or more characters.  Before D is handed to anything
    that reads a C string (any later call that takes D) a NUL must have been stored into D on every path, or D was cleared
    before the copy."""
    res.rule(rule, 'strncpy does not terminate: after strncpy(D, S, N) into a local array, every path to the next call that takes D stores a NUL into D first (D[k] = 0), unless D was zero-filled before the copy')
    n = 0
    for name, f in sorted(db.fn.items()):
        if not f.blocks or f.loc.startswith('htp/lzma'):
            continue
        for b, i, c in f.calls('strncpy'):
            d0 = strip(c['args'][0])
            if d0 is None or d0.get('k') != 'var':
                continue
            D = d0['name']
            n += 1
            cleared = any(c2.get('callee') == 'memset' and P.K(c2['args'][0]) == D and P.K(c2['args'][1]) == '0' for b2, i2, c2 in f.calls('memset'))
            bad = []

            def visit(bb, ii, st):
                if any(w.get('k') == 'assign' and (strip(w['l']) or {}).get('k') == 'index' and P.K(strip(w['l'])['base']) == D and P.K(w['r']) in ('0', "'\\0'") for w in nodes(st, lambda y: y.get('k') == 'assign')):
                    return True
                for c2 in nodes(st, lambda y: y.get('k') == 'call'):
                    if c2 is not c and any(any(v.get('name') == D for v in nodes(a, lambda y: y.get('k') == 'var')) for a in c2.get('args', [])):
                        bad.append(c2)
                        return True
                return False
            C.forward(f, (b, i), visit)
            # the statement of the copy itself may nest another use; ignore
            key = '%s:strncpy(%s)' % (name, D)
            res.check(cleared or not bad, rule, key, 'terminated before it is read as a string',
                      '%s copies with strncpy into %s and hands it to %s() with no NUL stored in between: when the source has at least as many characters as the count the array is not terminated, and %s reads (or appends) past its end' % (name, D, bad[0].get('callee') if bad else '', bad[0].get('callee') if bad else ''), (bad[0] if bad else c)['loc'])
    res.floor(rule, 'strncpy sites', n, 1)
