"""C01.n - use before test (Engler's belief contradiction): a pointer that the code tests against NULL is believed to be
possibly NULL at that point; a dereference of the same pointer that reaches the test with no assignment in between
contradicts the belief - either the test is dead or the dereference can crash.  Zero instances on the pinned tree."""
import collections
from ..facts import S, strip, nodes
from .. import cfg as C
from .. import pat as P


def run(db, res, rule='C01.n'):
    res.rule(rule, 'use before NULL test: no pointer is dereferenced (->, *, []) at a point from which, with no assignment to it in between, control reaches a test of that same pointer against NULL (a moved or late NULL check)')
    ntests = 0
    for n, f in sorted(db.fn.items()):
        if not f.blocks or f.loc.startswith('htp/lzma'):
            continue
        derefs = collections.defaultdict(list)
        for b, i, st in f.stmts():
            for x in nodes(st, lambda y: (y.get('k') == 'member' and y.get('arrow')) or (y.get('k') == 'un' and y.get('op') == '*') or y.get('k') == 'index'):
                base = x.get('base') if x['k'] in ('member', 'index') else x.get('e')
                if ((strip(base) or {}).get('t') or '').endswith(']'):
                    continue
                derefs[P.K(base)].append((b, i, x['loc']))
        for b in f.blocks:
            co = f.cond_of(b)
            if not co:
                continue
            a = P.canon(co[0])
            if not a or a[2] != '0' or a[1] not in ('==', '!='):
                continue
            t0 = strip(co[0])
            V = a[0]
            ntests += 1
            if V not in derefs:
                continue
            ci = len(f.blocks[b]['stmts']) - 1
            hit = None
            nonnull = None

            def writes(s2):
                return any(P.K(w.get('l') if w['k'] == 'assign' else w['e']) == V for w in nodes(s2, lambda y: y.get('k') == 'assign' or (y.get('k') == 'un' and y.get('op') in ('++', '--', '++post', '--post')))) \
                    or any((strip(a_) or {}).get('k') == 'un' and (strip(a_) or {}).get('op') == '&' and P.K(strip(a_)['e']) == V for c in nodes(s2, lambda y: y.get('k') == 'call') for a_ in c.get('args', [])) \
                    or any(v['name'] == V for d in nodes(s2, lambda y: y.get('k') == 'decl') for v in d['vars'])
            for (db_, di, loc) in derefs[V]:
                if db_ == b and di >= ci:
                    continue
                if any(a_[0] == V and a_[1] == '!=' and a_[2] == '0' for a_, d in P.facts_at(f, db_)):
                    continue        # dereferenced under its own NULL guard; a later re-test is redundant, not contradictory
                if writes(f.blocks[db_]['stmts'][di]):
                    continue        # V = g(V->x): the dereference belongs to the old value
                if nonnull is None:
                    def gen_edge(pb, j):
                        c2 = f.cond_of(pb)
                        if not c2:
                            return False
                        a2 = P.canon(c2[0], j == 0)
                        return bool(a2) and a2[0] == V and a2[1] == '!=' and a2[2] == '0'
                    nonnull = C.must_hold(f, gen_edge, writes)
                if nonnull(db_, di):
                    continue        # known non-NULL on every path to the dereference (tested, or assigned and tested)
                reached = []

                def visit(bb, ii, s2):
                    if bb == b and ii == ci:
                        reached.append(1)
                        return True
                    return writes(s2)
                C.forward(f, (db_, di), visit)
                if reached:
                    hit = loc
                    break
            key = '%s:%s' % (n, V)
            if hit:
                res.violated(rule, key, '%s dereferences %s (at %s) and then, with no assignment in between, tests it against NULL: if it can be NULL the dereference crashes first (a NULL check moved below a use)' % (n, V, hit), co[0]['loc'])
            else:
                res.holds(rule, key, 'every dereference that reaches this NULL test is separated from it by an assignment', co[0]['loc'])
    res.floor(rule, 'NULL tests examined', ntests, 300)
