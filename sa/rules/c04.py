"""C04 — request/response pairing under pipelining (DESIGN.md §4.4)."""
from ..facts import load, S, strip, nodes, is_lit, lit_name, AnalysisBroken
from ..report import Result
from .. import cfg as C
from .. import pat as P

TECHNIQUE = 'single-writer (who-may-write) rules for the pairing counter and the transaction list, path rules on RES_IDLE and the tx constructor'
MUTATORS = {'htp_list_array_push', 'htp_list_array_pop', 'htp_list_array_shift', 'htp_list_array_replace', 'htp_list_array_clear', 'htp_list_array_destroy',
            'htp_list_array_release', 'htp_list_array_init'}


def on_transactions(c):
    return bool(c['args']) and P.member_field(c['args'][0]) == 'transactions'


def run(repo='/repo', tier='quick'):
    res = Result('C04')
    db = load(repo)
    res.rule('C04.a', 'conn->transactions is appended to only by the tx constructor (index = size before the append); slots are only NULLed or shifted off the front by the recycling call')
    res.rule('C04.b', 'out_next_tx_index: one ++ on every path of RES_IDLE that starts a response, one -- per htp_list_shift in htp_connp_tx_freed, no other writer')
    res.rule('C04.c', 'the response transaction is transactions[out_next_tx_index], read before the ++; out_tx is bound nowhere else')
    res.rule('C04.d', 'HTP_CONN_PIPELINED is raised exactly under size(transactions) > out_next_tx_index, evaluated before the new transaction is appended')
    # ---------------- C04.a
    muts = []
    for n, f in sorted(db.fn.items()):
        for b, i, c in f.calls():
            if c.get('callee') in MUTATORS and on_transactions(c):
                muts.append((f, b, i, c))
    res.analysed['mutating calls on conn->transactions'] = ['%s:%s' % (f.name, c['callee']) for f, b, i, c in muts]
    for f, b, i, c in muts:
        cal = c['callee']
        key = '%s:%s' % (f.name, cal)
        if cal == 'htp_list_array_push':
            ok = f.name == 'htp_tx_create' or False
            # semantic form: the pushed element is the object whose ->index was assigned size(transactions) earlier on every path
            el = P.K(c['args'][1])
            idxw = [(bb, ii, x) for bb, ii, x in P.field_writes(f, 'index') if P.K(x['l']) == el + '->index']
            good = bool(idxw) and all(x['k'] == 'assign' and P.call_name_of(x['r']) == 'htp_list_array_size' and on_transactions(strip(x['r'])) for bb, ii, x in idxw)
            # no list mutation between the index assignment and the push
            between = False
            if good:
                ib, ii, ix = idxw[0]

                def visit(bb, jj, st):
                    nonlocal between
                    if (bb, jj) == (b, i):
                        return True
                    for cc in nodes(st, lambda y: y.get('k') == 'call' and y.get('callee') in MUTATORS and on_transactions(y)):
                        between = True
                    return False
                C.forward(f, (ib, ii), visit)
                dom = C.dominators(f)
                good = ib in dom[b]
            res.check(good and not between, 'C04.a', key, 'the appended transaction got index = size(transactions) first, with no list mutation in between',
                      'a transaction is appended to conn->transactions without index = size(transactions) assigned just before: list position and tx->index (hence response pairing) can disagree', c['loc'])
        elif cal == 'htp_list_array_replace':
            res.check(is_lit(c['args'][2], 0), 'C04.a', key, 'slot is replaced by NULL only', 'a transaction slot is overwritten with a non-NULL element', c['loc'])
        elif cal == 'htp_list_array_shift':
            # only front NULLs may be shifted: dominated by element-at-0 == NULL
            facts = [a for a, e in P.facts_at(f, b)]
            ok = any(a[1] == '==' and a[2] == '0' for a in facts) or any(a[1] == '!=' and a[2] == '0' for a in facts)
            nullfront = False
            for a, e in P.facts_at(f, b):
                if a[2] == '0' and a[1] == '==':
                    # the tested variable is defined as htp_list_get(transactions, 0)
                    for bb, ii, st in f.stmts():
                        for d in nodes(st, lambda y: y.get('k') == 'decl'):
                            for v in d['vars']:
                                if v['name'] == a[0] and 'init' in v and P.call_name_of(v['init']) == 'htp_list_array_get' and on_transactions(strip(v['init'])) and is_lit(strip(v['init'])['args'][1], 0):
                                    nullfront = True
            res.check(nullfront, 'C04.a', key, 'only a NULL front slot is shifted off', 'htp_list_shift on conn->transactions is not guarded by "front element is NULL": a live transaction would be dropped and indices shift', c['loc'])
        elif cal in ('htp_list_array_destroy',):
            res.check(f.name == 'htp_conn_destroy' or any(a[0].endswith('transactions') for a, e in P.facts_at(f, b)), 'C04.a', key, 'list destroyed by the connection destructor', 'transaction list destroyed outside the connection destructor', c['loc'])
        else:
            res.violated('C04.a', key, '%s on conn->transactions in %s: the list may only be appended by the constructor, NULLed by remove_tx and shifted by tx_freed' % (cal, f.name), c['loc'])
    if not any(c['callee'] == 'htp_list_array_push' for f, b, i, c in muts):
        res.violated('C04.a', 'no-append', 'nothing appends to conn->transactions')
    # other writers of tx->index
    for n, f in sorted(db.fn.items()):
        for b, i, x in P.field_writes(f, 'index'):
            if strip(x['l']).get('rec') == 'htp_tx_t' and not (x['k'] == 'assign' and P.call_name_of(x['r']) == 'htp_list_array_size'):
                res.violated('C04.a', f.name + ':writes-tx-index', 'tx->index is written other than from the list size: ' + S(x), x['loc'])

    # ---------------- C04.b / C04.c
    writers = [(f, b, i, x) for f in db.fn.values() for b, i, x in P.field_writes(f, 'out_next_tx_index')]
    res.analysed['writers of out_next_tx_index'] = sorted({'%s:%s' % (f.name, x.get('op')) for f, b, i, x in writers})
    idle = db.get('htp_connp_RES_IDLE')
    for f, b, i, x in writers:
        op = x.get('op', '')
        if op.startswith('++') and f is idle:
            continue
        if op.startswith('--'):
            # must be in the same block as a shift on transactions
            sh = [c for c in nodes(f.blocks[b]['stmts'], lambda y: y.get('k') == 'call' and y.get('callee') == 'htp_list_array_shift' and on_transactions(y))]
            dec = [w for st in f.blocks[b]['stmts'] for w in P.assigns_field(st, 'out_next_tx_index')]
            res.check(len(sh) == 1 and len(dec) == 1, 'C04.b', f.name + ':--:paired-with-shift', 'one -- per shifted slot', 'out_next_tx_index-- is not paired one-to-one with htp_list_shift(transactions)', x['loc'])
            continue
        res.violated('C04.b', '%s:%s' % (f.name, op), 'out_next_tx_index is written outside the two documented sites: ' + S(x), x['loc'])
    # every shift needs its --
    for f, b, i, c in muts:
        if c['callee'] == 'htp_list_array_shift':
            dec = [w for st in f.blocks[b]['stmts'] for w in P.assigns_field(st, 'out_next_tx_index') if w.get('op', '').startswith('--')]
            res.check(len(dec) == 1, 'C04.b', f.name + ':shift:paired-with--', 'each shifted slot decrements the pairing counter once',
                      'htp_list_shift(transactions) without exactly one out_next_tx_index-- in the same step: every later response pairs with the wrong request', c['loc'])
    # RES_IDLE paths
    starts = {(b, i) for b, i, c in idle.calls('htp_tx_state_response_start')}
    if not starts:
        res.violated('C04.b', 'htp_connp_RES_IDLE:starts-response', 'RES_IDLE no longer calls htp_tx_state_response_start', idle.loc)
    np_ = 0
    for atoms, events, end, seq in P.enum_paths_seq(idle, (idle.entry, -1), stop=lambda b, i, s: (b, i) in starts):
        if end[0] != 'stop':
            continue
        np_ += 1
        incs, gets, binds = 0, [], []
        order = []
        for x in seq:
            if x[0] != 'stmt':
                continue
            st = x[3]
            for w in P.assigns_field(st, 'out_next_tx_index'):
                incs += 1 if w.get('op', '').startswith('++') else 100
                order.append('inc')
            for a in nodes(st, lambda y: y.get('k') == 'assign' and P.member_field(y['l']) == 'out_tx'):
                r = strip(a['r'])
                order.append('bind:' + (r.get('callee') or '?'))
                if r.get('callee') == 'htp_list_array_get':
                    okget = on_transactions(r) and P.member_field(r['args'][1]) == 'out_next_tx_index'
                    order.append('get-ok' if okget else 'get-bad')
        facts = [a for a, bb in atoms]
        arm = 'unmatched-response' if ('connp->out_tx', '==', '0') in facts else 'matched'
        res.check(incs == 1, 'C04.b', 'htp_connp_RES_IDLE:%s:one-increment' % arm, 'exactly one ++ before the response starts',
                  'the %s arm of RES_IDLE reaches htp_tx_state_response_start with %s increments of out_next_tx_index: later responses pair with the wrong request' % (arm, incs if incs < 100 else 'a non-++ write'), end[3]['loc'])
        ok = 'get-ok' in order and 'inc' in order and order.index('get-ok') < order.index('inc') and 'get-bad' not in order
        res.check(ok, 'C04.c', 'htp_connp_RES_IDLE:%s:get-before-increment' % arm, 'out_tx = transactions[out_next_tx_index] is read before the ++',
                  'the response transaction is not transactions[out_next_tx_index] read before the increment (%s)' % order, end[3]['loc'])
        # the transaction handed to response_start is out_tx
        arg = P.K(strip([c for c in nodes(end[3], lambda y: y.get('k') == 'call' and y.get('callee') == 'htp_tx_state_response_start')][0])['args'][0])
        res.check(arg == 'connp->out_tx', 'C04.c', 'htp_connp_RES_IDLE:%s:starts-out_tx' % arm, 'the response is started on connp->out_tx', 'response started on %s, not on connp->out_tx' % arg, end[3]['loc'])
    res.floor('C04.b', 'RES_IDLE paths to response_start', np_, 2)
    # out_tx binders
    for f in db.fn.values():
        for b, i, st in f.stmts():
            for a in nodes(st, lambda y: y.get('k') == 'assign' and P.member_field(y['l']) == 'out_tx' and strip(y['l']).get('rec') == 'htp_connp_t'):
                r = strip(a['r'])
                if is_lit(r, 0):
                    continue
                ok = f.name == 'htp_connp_RES_IDLE' or (f.name == 'htp_tx_state_response_start' and P.K(r) == f.params[0]['name'])
                res.check(ok, 'C04.c', '%s:binds-out_tx' % f.name, 'out_tx bound by RES_IDLE / response_start(tx)', 'connp->out_tx is bound to a transaction outside RES_IDLE / htp_tx_state_response_start: ' + S(a), a['loc'])

    # ---------------- C04.d
    raises = []
    for f in db.fn.values():
        for b, i, st in f.stmts():
            for a in nodes(st, lambda y: y.get('k') == 'assign' and y['op'] == '|=' and lit_name(y['r']) == 'HTP_CONN_PIPELINED'):
                raises.append((f, b, i, a))
    if not raises:
        res.violated('C04.d', 'HTP_CONN_PIPELINED:raise-site', 'the pipelining indicator is never raised')
    for f, b, i, a in raises:
        facts = [x for x, e in P.facts_at(f, b)]
        ok = ('htp_list_array_size(connp->conn->transactions)', '>', 'connp->out_next_tx_index') in facts
        res.check(ok, 'C04.d', f.name + ':PIPELINED:condition', 'raised under size(transactions) > out_next_tx_index',
                  'HTP_CONN_PIPELINED is raised under a different condition: %s' % facts, a['loc'])
        # evaluated before the append: no call that can append between function entry and the test
        creates = [cb for cb, ci, c in f.calls('htp_tx_create')]
        dom = C.dominators(f)
        ok2 = bool(creates) and all(b in dom[cb] or any(e[0] in dom[cb] for x, e in P.facts_at(f, b)) for cb in creates) and not any(cb in dom[b] for cb in creates)
        res.check(ok2, 'C04.d', f.name + ':PIPELINED:before-append', 'the test precedes the creation of the new transaction',
                  'the pipelining test is evaluated after the new transaction has been appended (it would always be true)', a['loc'])
    # converse: the function that creates transactions for the request side contains the raise on the true edge (the condition is not skipped on some path)
    tc = db.get('htp_connp_tx_create')
    conds = [b for b in tc.blocks if tc.cond_of(b) and P.canon(tc.cond_of(b)[0]) == ('htp_list_array_size(connp->conn->transactions)', '>', 'connp->out_next_tx_index')]
    okc = False
    for cb in conds:
        tb = tc.blocks[cb]['succs'][0]
        if any(rb == tb for rf, rb, ri, ra in raises if rf is tc):
            dom = C.dominators(tc)
            creates = [xb for xb, xi, c in tc.calls('htp_tx_create')]
            okc = all(cb in dom[xb] for xb in creates)
    res.check(okc, 'C04.d', 'htp_connp_tx_create:PIPELINED:on-every-creation', 'every creation passes the pipelining test first', 'a transaction can be created without passing the pipelining test', tc.loc)
    c04e(db, res)
    c04f(db, res)
    c04g(db, res)
    res.assumptions.append('values (ids inside request i and response i) are not tracked; only the counter/list discipline that pairing rests on')
    c04g2(db, res)
    return res


def c04e(db, res):
    """An interim 100 (no Transfer-Encoding, no positive Content-Length) never ends the transaction: the next response
    must still pair with the same request, so every such path goes back to the status-line state."""
    res.rule('C04.e', 'interim 100: in RES_BODY_DETERMINE every feasible path with status == 100, no Transfer-Encoding and no positive Content-Length stores the status-line state into out_state and returns (the transaction stays open for the final response)')
    f = db.get('htp_connp_RES_BODY_DETERMINE')
    te, cl = P.table_lookup_local(f, 'transfer-encoding'), P.table_lookup_local(f, 'content-length')
    if not te or not cl:
        raise AnalysisBroken('C04.e: the transfer-encoding / content-length lookups of htp_connp_RES_BODY_DETERMINE were not found')
    start = db.get('htp_tx_state_response_start')
    line_states = {S(x['r']) for b, i, x in P.field_writes(start, 'out_state') if x['k'] == 'assign'}
    # the interim test: a block testing te == NULL whose own facts include status == 100; B = its true successor, J = where the false edge goes
    tests = [b for b in f.blocks if f.cond_of(b) and P.canon(f.cond_of(b)[0]) == (te, '==', '0')
             and any(a[0].endswith('response_status_number') and a[1] == '==' and a[2] == '100' for a, e in P.facts_at(f, b))]
    if len(tests) != 1:
        raise AnalysisBroken('C04.e: expected one `status == 100 && %s == NULL` test in htp_connp_RES_BODY_DETERMINE, found %d' % (te, len(tests)))
    B, J = f.blocks[tests[0]]['succs'][0], f.blocks[tests[0]]['succs'][1]
    n, nrestart, bad = 0, 0, None
    for atoms, events, end, seq in P.enum_paths_seq(f, (B, -1), stop=lambda bb, ii, st: bb == J, max_paths=50000):
        facts = [a for a, bb in atoms]
        nocl = (cl, '==', '0') in facts or any(a[0].startswith('htp_parse_content_length(') and a[1] == '<=' and a[2] == '0' for a in facts)
        if not nocl or not P.feasible(f, facts) or not P.flag_feasible(f, seq):
            continue
        n += 1
        restart = any(x[0] == 'stmt' and any(w['k'] == 'assign' and S(w['r']) in line_states for w in P.assigns_field(x[3], 'out_state')) for x in seq)
        if restart and end[0] == 'return':
            nrestart += 1
        elif end[0] != 'loop':
            bad = end
    res.check(bad is None and nrestart > 0, 'C04.e', 'htp_connp_RES_BODY_DETERMINE:interim-100-restarts', 'all %d feasible interim-100 paths go back to the status-line state (%d through the restart return)' % (n, nrestart),
              'a path with status 100, no Transfer-Encoding and no positive Content-Length goes on to the body decision instead of back to the status line: the interim response would complete the transaction and the final response would be paired with the next request', (bad[3]['loc'] if bad and len(bad) > 3 else f.loc))


def linform(e):
    """linear form {term: coef, '': const} of an integer expression built from + - and literals; None otherwise"""
    e = strip(e)
    if e is None:
        return None
    k = e.get('k')
    if k == 'lit':
        return {'': e['v']}
    if k in ('var', 'member'):
        return {P.K(e): 1}
    if k == 'bin' and e['op'] in ('+', '-'):
        l, r = linform(e['l']), linform(e['r'])
        if l is None or r is None:
            return None
        out = dict(l)
        for t, c in r.items():
            out[t] = out.get(t, 0) + (c if e['op'] == '+' else -c)
        return {t: c for t, c in out.items() if c != 0}
    return None


def c04f(db, res):
    """The transaction list is a ring over max_size slots: htp_list_array_get(l, idx), which is how the response side finds
    transactions[out_next_tx_index], must address slot (first + idx) mod max_size."""
    res.rule('C04.f', 'ring addressing of the transaction list: in htp_list_array_get the arm taken under A < max_size reads elements[A] and the other arm reads elements[A - max_size], with A = first + idx; htp_list_array_replace uses (first + idx) % max_size')
    f = db.get('htp_list_array_get')
    want = {'l->first': 1, 'idx': 1}
    n = 0
    for b, i, st in f.stmts():
        for x in nodes(st, lambda y: y.get('k') == 'index' and P.member_field(y['base']) == 'elements'):
            n += 1
            lf = linform(x['idx'])
            facts = [a for a, e in P.facts_at(f, b)]
            g = [a for a in facts if 'max_size' in a[0] or 'max_size' in a[2]]
            lo = any(a == ('(l->first + idx)', '<', 'l->max_size') for a in facts)
            hi = any(a == ('(l->first + idx)', '>=', 'l->max_size') for a in facts)
            ok = (lo and lf == want) or (hi and lf == dict(want, **{'l->max_size': -1}))
            res.check(ok, 'C04.f', 'htp_list_array_get:elements[%s]' % ('A' if lo else 'A-max_size' if hi else '?'), 'slot agrees with the guard (%s)' % (g[-1:] or '?'),
                      'htp_list_array_get reads elements[%s] under %s: that is not slot (first + idx) mod max_size, so once the list has wrapped (transactions recycled with htp_connp_tx_freed) a response is attached to the wrong transaction' % (S(x['idx']), g[-1:] or 'no guard on first + idx'), x['loc'])
    res.floor('C04.f', 'element reads in htp_list_array_get', n, 2)
    r = db.get('htp_list_array_replace')
    for b, i, st in r.stmts():
        for x in nodes(st, lambda y: y.get('k') == 'index' and P.member_field(y['base']) == 'elements'):
            e = strip(x['idx'])
            ok = e is not None and e.get('k') == 'bin' and e['op'] == '%' and linform(e['l']) == want and P.K(e['r']) == 'l->max_size'
            res.check(ok, 'C04.f', 'htp_list_array_replace:elements[(first+idx)%max_size]', 'slot is (first + idx) % max_size',
                      'htp_list_array_replace writes elements[%s]: not slot (first + idx) mod max_size (htp_conn_remove_tx would NULL the wrong transaction slot)' % S(x['idx']), x['loc'])


def c04g(db, res):
    """tx->index is the ordinal a transaction got when it was created.  Positions in conn->transactions move when
    htp_connp_tx_freed() shifts finished transactions off the front, and out_next_tx_index is moved with them - tx->index is
    not.  Addressing the list with it finds another transaction's slot (or none) as soon as the list has been shifted."""
    res.rule('C04.g', 'tx->index is an ordinal, not a position: no call addresses conn->transactions (htp_list get / replace) with an index computed from a transaction\'s `index` field; positive controls: the field has one writer (the constructor) and the list is shifted somewhere')
    writers = [(n, x) for n, f in sorted(db.fn.items()) for b, i, x in P.field_writes(f, 'index') if strip(x['l']).get('rec') == 'htp_tx_t']
    shifts = [n for n, f in db.fn.items() for b, i, c in f.calls('htp_list_array_shift') if on_transactions(c)]
    if not writers or not shifts:
        raise AnalysisBroken('C04.g: positive controls vanished (writers of htp_tx_t.index: %d, shifts of the transaction list: %d)' % (len(writers), len(shifts)))
    bad = []
    nuse = 0
    def is_ordinal(e, tainted):
        return any(m.get('field') == 'index' and m.get('rec') == 'htp_tx_t' for m in nodes(e, lambda y: y.get('k') == 'member')) or \
            any(v.get('name') in tainted for v in nodes(e, lambda y: y.get('k') == 'var' and y.get('decl') == 'local'))
    for n, f in sorted(db.fn.items()):
        sites = [(b, i, c) for b, i, c in f.calls() if c.get('callee') in ('htp_list_array_get', 'htp_list_array_replace') and on_transactions(c)]
        if not sites:
            continue
        # locals that carry the ordinal (a loop that starts at tx->index, a copy of it): flow-insensitive closure
        tainted = set()
        ch = True
        while ch:
            ch = False
            for b, i, st in f.stmts():
                for x in nodes(st, lambda y: y.get('k') in ('decl', 'assign')):
                    if x['k'] == 'decl':
                        for v in x['vars']:
                            if v.get('init') is not None and v['name'] not in tainted and is_ordinal(v['init'], tainted):
                                tainted.add(v['name'])
                                ch = True
                    elif x.get('op') == '=' and (strip(x['l']) or {}).get('k') == 'var' and strip(x['l']).get('decl') == 'local' and strip(x['l'])['name'] not in tainted and is_ordinal(x['r'], tainted):
                        tainted.add(strip(x['l'])['name'])
                        ch = True
        for b, i, c in sites:
            nuse += 1
            if is_ordinal(c['args'][1], tainted):
                bad.append((n, c))
    for n, c in bad:
        res.violated('C04.g', '%s:%s(transactions, tx->index)' % (n, c['callee']), '%s addresses the transaction list with tx->index: after htp_connp_tx_freed() has shifted the list that is another slot, so the finished transaction is not unlinked (the list keeps a dangling entry and never shrinks again)' % n, c['loc'])
    if not bad:
        res.holds('C04.g', 'transactions-not-addressed-by-ordinal', '%d indexed accesses to the transaction list, none through tx->index' % nuse, '')


def c04g2(db, res):
    """... and an ordinal is not compared with a position either: `out_next_tx_index > tx->index` is true or false by accident
    once htp_connp_tx_freed() has shifted the list."""
    n = 0
    for name, f in sorted(db.fn.items()):
        if not f.blocks:
            continue
        for b in sorted(f.blocks):
            c = f.cond_of(b)
            if not c:
                continue
            for e in nodes(c[0], lambda y: y.get('k') == 'bin' and y['op'] in ('<', '<=', '>', '>=', '==', '!=')):
                sides = (S(e['l']), S(e['r']))
                ordn = [x for x in (e['l'], e['r']) if any(m.get('field') == 'index' and m.get('rec') == 'htp_tx_t' for m in nodes(x, lambda y: y.get('k') == 'member'))]
                posn = [x for x in (e['l'], e['r']) if 'next_tx_index' in S(x) or 'htp_list_array_size' in S(x) or 'htp_list_size' in S(x)]
                if ordn and posn:
                    n += 1
                    res.violated('C04.g', '%s:compares-ordinal-with-position' % name, '%s compares a transaction\'s creation ordinal (%s) with a position in the transaction list (%s): after htp_connp_tx_freed() has shifted the list the two are unrelated, and whatever the comparison guards happens for the wrong transactions' % (name, S(ordn[0]), S(posn[0])), c[0].get('loc', f.loc))
    if n == 0:
        res.holds('C04.g', 'ordinal-never-compared-with-a-position', 'no condition compares htp_tx_t.index with the response cursor or the list size', '')
