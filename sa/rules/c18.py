"""C18 — allocation failure anywhere is survived without memory unsafety (DESIGN.md §4.18)."""
import collections
from ..facts import load, S, strip, nodes, is_lit, lit_name, root_of, AnalysisBroken
from ..report import Result
from .. import cfg as C
from .. import pat as P
from ..nullness import Nullness, FREEISH

TECHNIQUE = 'interprocedural nullness dataflow for every may-fail allocation result (summaries: may-return-NULL, dereferences-parameter-before-test); dangling-owner rule (free of a long-lived field / out-parameter with an exit path that neither reassigns it nor frees its owner); must-analysis for shallow-copy aliasing; hand-over atomicity rule for element moves between two owners'

LONG = {'htp_tx_t', 'htp_connp_t', 'htp_conn_t', 'htp_cfg_t', 'htp_mpartp_t', 'htp_multipart_part_t', 'htp_urlenp_t', 'htp_uri_t', 'htp_multipart_t', 'htp_file_t', 'htp_header_t', 'htp_param_t',
        'htp_decompressor_gzip_t', 'htp_decompressor_t', 'htp_hook_t', 'htp_table_t', 'htp_list_array_t', 'bstr_builder_t'}
# reported by the dangling-owner rule but infeasible; suppressed by name with the reason (DESIGN.md §4.18)
INFEASIBLE = {
    ('htp_hook_register', '*hook'): 'free(*hook) is reached only if htp_list_array_push fails on the list htp_hook_create() just made; its capacity is >= 1 and it is empty, so the push cannot allocate and cannot fail',
    ('htp_ch_urlencoded_callback_request_line', 'tx->request_urlenp_query'): 'htp_urlenp_parse_complete can only fail through the unreachable default: arm of the parser state switch (_state is only ever KEY or VALUE)',
}

# premise of a suppression, re-checked on every run: every path to the suppressed free passes the failure edge of this call
INFEASIBLE_PREMISE = {('htp_hook_register', '*hook'): 'htp_list_array_push'}


def c18a(db, res, nl):
    res.rule('C18.a', 'every result of a may-fail allocation is NULL-tested before it is dereferenced, subscripted or passed to a parameter that is dereferenced before being tested')
    res.analysed['may-fail functions (can return the NULL of a failed allocation)'] = len(nl.mayfail)
    res.analysed['(function, parameter) pairs dereferenced before tested'] = len(nl.unsafe)
    FU = None
    nsites = 0
    for name, f in sorted(db.fn.items()):
        for b, i, V, call, l in nl.tracked_sites(f):
            nsites += 1
            escapes = []

            def on_return(bb, ii, st, isnull):
                if not isnull:
                    escapes.append(st)
            viol = nl.scan(f, (b, i), V, on_return=on_return)
            key = '%s:%s=%s()' % (name, V, call['callee'])
            if viol:
                kind, node, extra = viol[0]
                what = 'dereferenced (%s)' % P.K(node)[:50] if kind == 'deref' else 'passed to %s (argument %d is dereferenced there before any test)' % extra
                res.violated('C18.a', key, 'the result of %s() stored in %s can be NULL (allocation failure) and is %s on a path without a NULL test' % (call['callee'], V, what), node['loc'], allocated_at=call['loc'])
                continue
            # constructor escape: stored into a field of the object under construction, untested at a success return, while other code believes the field is never NULL
            root = root_of(l)
            isctor = l.get('k') == 'member' and '*' in f.ret and root is not None and root.get('k') == 'var' and root.get('decl') == 'local' and nl.from_alloc(root, f)
            if isctor and escapes:
                if FU is None:
                    FU = nl.unguarded_field_uses()
                users = FU.get((l.get('rec'), l['field']), [])
                users = [(fn2, n2) for fn2, n2 in users if fn2 != name]
                if users:
                    res.violated('C18.a', key, 'the constructor %s can return an object whose %s is NULL (unchecked %s()), and %s dereferences that field without a test' % (name, V, call['callee'], users[0][0]), users[0][1]['loc'], allocated_at=call['loc'])
                    continue
            res.holds('C18.a', key, 'tested before use (or only stored / returned / released)', call['loc'])
    res.floor('C18.a', 'tracked allocation results', nsites, 150)


def c18b(db, res):
    res.rule('C18.b', 'no owner field / out-parameter is left pointing at freed memory: after free(P) every path to an exit reassigns P or frees the object that holds it')
    nsites = 0
    for name, f in sorted(db.fn.items()):
        if not f.blocks:
            continue
        pn = {p['name']: p['t'] for p in f.params}
        for b, i, st in f.stmts():
            for c in nodes(st, lambda y: y.get('k') == 'call' and y.get('callee') and FREEISH(y['callee']) and y['args']):
                a = strip(c['args'][0])
                kind = None
                if a.get('k') == 'member' and a.get('rec') in LONG:
                    r = root_of(a)
                    if r is not None and r.get('k') == 'var' and r.get('decl') == 'param':
                        kind = 'field'
                    elif r is not None and r.get('k') == 'var' and r.get('decl') == 'local':
                        # a local that is only ever an alias of a long-lived object reached from a parameter (`tx = connp->in_tx;`)
                        defs_ = [strip(v['init']) for bb, ii, s2 in f.stmts() for d in nodes(s2, lambda y: y.get('k') == 'decl') for v in d['vars'] if v['name'] == r['name'] and v.get('init') is not None]
                        defs_ += [strip(w['r']) for bb, ii, s2 in f.stmts() for w in nodes(s2, lambda y: y.get('k') == 'assign' and y['op'] == '=' and strip(y['l']).get('k') == 'var' and strip(y['l'])['name'] == r['name'])]
                        if defs_ and all(d_ is not None and d_.get('k') == 'member' and (root_of(d_) or {}).get('decl') == 'param' for d_ in defs_):
                            kind = 'field'
                elif a.get('k') == 'un' and a['op'] == '*' and strip(a['e']).get('k') == 'var' and strip(a['e'])['name'] in pn and pn[strip(a['e'])['name']].count('*') >= 2:
                    kind = 'outparam'
                if not kind:
                    continue
                nsites += 1
                Pk = P.K(a)
                owners = set()
                e = a
                while e is not None and e.get('k') in ('member', 'index'):
                    e = strip(e['base'])
                    if e is not None:
                        owners.add(P.K(e))
                dang = [None]

                def visit(bb, ii, s2):
                    for x in nodes(s2, lambda y: y.get('k') == 'assign' and P.K(y['l']) == Pk):
                        return True
                    for x in nodes(s2, lambda y: y.get('k') == 'assign' and P.K(y['l']) in owners):
                        return True                      # the owner pointer itself is re-bound
                    for c2 in nodes(s2, lambda y: y.get('k') == 'call' and y.get('callee') and FREEISH(y['callee']) and y['args']):
                        if P.K(c2['args'][0]) in owners:
                            return True
                    if s2.get('k') == 'return':
                        dang[0] = s2
                        return True
                    return False
                known = {(a_[0], a_[2]): a_[1] for a_, e_ in P.facts_at(f, b) if a_[1] in ('==', '!=')}

                def edge_feasible(bb, j):
                    # an edge that contradicts what is known where the free happens (`if (l == NULL) return;` in front of it) is not a way out
                    c_ = f.cond_of(bb)
                    if not c_:
                        return True
                    a_ = P.canon(c_[0], j == 0)
                    if a_ and a_[1] in ('==', '!=') and (a_[0], a_[2]) in known and known[(a_[0], a_[2])] != a_[1] and a_[0] not in {P.K(w_['l']) for b3, i3, s3 in f.stmts() for w_ in nodes(s3, lambda y: y.get('k') == 'assign')}:
                        return False
                    return True
                ends, ex = C.forward(f, (b, i), visit, edge_feasible)
                if ex and dang[0] is None:
                    dang[0] = {'loc': f.end or f.loc}
                key = '%s:free(%s)' % (name, Pk)
                if dang[0] is None:
                    res.holds('C18.b', key, 'reassigned or owner released on every path after the free', c['loc'])
                    continue
                if kind == 'field' and callers_release_owner(db, f, a):
                    res.holds('C18.b', key, 'the object holding the field is released by every caller right after (on the failure edge)', c['loc'])
                    continue
                reason = INFEASIBLE.get((name, Pk))
                if reason and (name, Pk) in INFEASIBLE_PREMISE:
                    # the suppression stands only while its premise does: every way to this free is the failure of the named call
                    need = INFEASIBLE_PREMISE[(name, Pk)]
                    for atoms_, ev_, end_, seq_ in P.enum_paths_seq(f, (f.entry, -1), stop=lambda bb, ii, s2, b=b, i=i: (bb, ii) == (b, i), max_paths=20000):
                        if end_[0] == 'stop' and not any(a_[0].startswith(need + '(') and ((a_[1] == '!=' and a_[2] == 'HTP_OK') or (a_[1] == '==' and a_[2] != 'HTP_OK')) for a_, e_ in atoms_):
                            reason = None
                            break
                if reason:
                    res.info('C18.b', key, 'reported by the rule, infeasible: ' + reason, c['loc'])
                    continue
                if kind == 'outparam':
                    # verdict completed at the call sites: is the actual a long-lived field?
                    pi = f.param_index(strip(a['e'])['name'])
                    longlived = []
                    seen = set()
                    work = [(f.name, pi)]
                    while work:
                        fn_, pi_ = work.pop()
                        if (fn_, pi_) in seen:
                            continue
                        seen.add((fn_, pi_))
                        for cf, cb, ci, cc in db.callers(fn_):
                            if pi_ >= len(cc['args']):
                                continue
                            act = strip(cc['args'][pi_])
                            if act.get('k') == 'un' and act['op'] == '&':
                                tgt = strip(act['e'])
                                r = root_of(tgt)
                                if tgt.get('k') == 'member' and r is not None and r.get('k') == 'var' and r.get('decl') == 'param':
                                    longlived.append((cf.name, P.K(tgt)))
                            elif act.get('k') == 'var' and act.get('decl') == 'param':
                                work.append((cf.name, cf.param_index(act['name'])))
                    if not longlived:
                        res.holds('C18.b', key, 'out-parameter is only ever bound to caller locals', c['loc'])
                        continue
                    res.violated('C18.b', key + ':via:' + longlived[0][0], '%s frees %s and returns with it still set; %s passes &%s for it, so that field keeps pointing at freed memory and its destructor frees it again' % (
                        name, Pk, longlived[0][0], longlived[0][1]), c['loc'])
                else:
                    res.violated('C18.b', key, '%s frees %s and can return (error path) with the field still pointing at the freed block: the destructor of the owning object frees or dereferences it again' % (name, Pk), c['loc'], exit_at=dang[0].get('loc'))
    res.floor('C18.b', 'free sites on long-lived fields / out-parameters', nsites, 25)
    # ---- aliases: free(V) of a local that shares its value with a long-lived field
    nal = 0
    for name, f in sorted(db.fn.items()):
        if not f.blocks:
            continue
        for b, i, st in f.stmts():
            for c in nodes(st, lambda y: y.get('k') == 'call' and y.get('callee') and FREEISH(y['callee']) and y['args']):
                a = strip(c['args'][0])
                if a.get('k') != 'var' or a.get('decl') != 'local':
                    continue
                V = a['name']
                # alias-creating statements: M = V  or  V = M   (M a field reached from a parameter, record long-lived)
                cands = []
                for bb, ii, s2 in f.stmts():
                    for x in nodes(s2, lambda y: y.get('k') in ('assign', 'decl')):
                        pairs = [(x['l'], x['r'])] if x['k'] == 'assign' and x['op'] == '=' else [({'k': 'var', 'name': v['name'], 'decl': 'local'}, v['init']) for v in x.get('vars', []) if 'init' in v]
                        for l, r in pairs:
                            l0, r0 = strip(l), strip(r)
                            if l0 is None or r0 is None:
                                continue
                            for m, v in ((l0, r0), (r0, l0)):
                                if m.get('k') == 'member' and m.get('rec') in LONG and v.get('k') == 'var' and v.get('name') == V:
                                    rt = root_of(m)
                                    if rt is not None and rt.get('k') == 'var' and rt.get('decl') == 'param':
                                        cands.append((bb, ii, m))
                for bb, ii, m in cands:
                    Mk = P.K(m)
                    # does the alias survive until the free?
                    hit = [False]

                    def visit(b2, i2, s3, Mk=Mk, V=V):
                        if (b2, i2) == (b, i):
                            hit[0] = True
                            return True
                        if any(P.K(x['l']) in (Mk, V) for x in nodes(s3, lambda y: y.get('k') == 'assign')) and (b2, i2) != (bb, ii):
                            return True
                        return False
                    if (bb, ii) == (b, i):
                        continue
                    C.forward(f, (bb, ii), visit)
                    if not hit[0]:
                        continue
                    nal += 1
                    owners = set()
                    e = m
                    while e is not None and e.get('k') in ('member', 'index'):
                        e = strip(e['base'])
                        if e is not None:
                            owners.add(P.K(e))
                    dang = [None]

                    def visit2(b2, i2, s3, Mk=Mk):
                        if any(P.K(x['l']) == Mk or P.K(x['l']) in owners for x in nodes(s3, lambda y: y.get('k') == 'assign')):
                            return True
                        if any(P.K(c2['args'][0]) in owners for c2 in nodes(s3, lambda y: y.get('k') == 'call' and y.get('callee') and FREEISH(y['callee']) and y['args'])):
                            return True
                        if s3.get('k') == 'return':
                            dang[0] = s3
                            return True
                        return False
                    ends, ex = C.forward(f, (b, i), visit2)
                    if ex and dang[0] is None:
                        dang[0] = {'loc': f.end or f.loc}
                    key = '%s:free(%s)-aliases-%s' % (name, V, Mk)
                    if dang[0] is None:
                        res.holds('C18.b', key, 'the field is reassigned (or its owner released) after the free', c['loc'])
                    elif callers_release_owner(db, f, m):
                        res.holds('C18.b', key, 'owner released by every caller', c['loc'])
                    else:
                        res.violated('C18.b', key, '%s frees %s while %s still holds the same pointer and can return without clearing it: the field dangles (use-after-free / double free when it is next read or destroyed)' % (name, V, Mk), c['loc'], exit_at=dang[0].get('loc'))
    res.analysed['C18.b local/field alias pairs reaching a free'] = nal


def callers_release_owner(db, f, a):
    """Is the record that holds the freed field (reached through a parameter of f) released by every internal
    caller after the call - on the edge where the call reports failure when the result is tested, otherwise on
    every path? (The callee is then the first half of a two-step teardown.)"""
    r = root_of(a)
    pi = f.param_index(r['name'])
    if pi is None:
        return False
    # the freed path must be a direct field of the parameter object: P->field
    if not (strip(a['base']).get('k') == 'var'):
        return False
    callers = db.callers(f.name)
    if not callers:
        return False
    for cf, cb, ci, cc in callers:
        if pi >= len(cc['args']):
            return False
        act = strip(cc['args'][pi])
        owner_keys = {P.K(act)}
        if act.get('k') == 'un' and act['op'] == '&':
            e = strip(act['e'])
            while e is not None and e.get('k') in ('member', 'index'):
                e = strip(e['base'])
                if e is not None:
                    owner_keys.add(P.K(e))
        st = cf.blocks[cb]['stmts'][ci]
        start_edges = None
        cnd = cf.cond_of(cb)
        if cnd and cf.blocks[cb]['stmts'][-1] is st:
            aa = P.canon(st)
            if aa and aa[2] == 'HTP_OK' and aa[1] in ('!=', '=='):
                start_edges = [cf.blocks[cb]['succs'][0 if aa[1] == '!=' else 1]]
        escaped = [False]

        def visit(bb, ii, s2):
            for c2 in nodes(s2, lambda y: y.get('k') == 'call' and y.get('callee') and FREEISH(y['callee']) and y['args']):
                if P.K(c2['args'][0]) in owner_keys:
                    return True
            if s2.get('k') == 'return':
                escaped[0] = True
                return True
            return False
        if start_edges is not None:
            for sb in start_edges:
                e_, ex = C.forward(cf, (sb, -1), visit)
                escaped[0] = escaped[0] or ex
        else:
            e_, ex = C.forward(cf, (cb, ci), visit)
            escaped[0] = escaped[0] or ex
        if escaped[0]:
            return False
    return True


def c18c(db, res):
    res.rule('C18.c', 'a shallow copy (memcpy of a record with owning pointers) is never handed to the record\'s destructor before every owning pointer of the copy has been replaced or is NULL')
    f = db.get('htp_config_copy')
    rec = db.records.get('htp_cfg_t')
    hooks = {x['name'] for x in rec['fields'] if 'htp_hook_t' in x['t']}
    mc = [(b, i, c) for b, i, c in f.calls('memcpy') if 'htp_cfg_t' in (strip(c['args'][0]).get('t') or '')]
    if not mc:
        res.info('C18.c', 'htp_config_copy:no-shallow-copy', 'htp_config_copy no longer starts from a memcpy of the whole structure', f.loc)
        return
    copyvar = P.K(mc[0][2]['args'][0])
    live = C.reachable(f, f.entry)
    IN = {b: set(hooks) for b in live}
    IN[mc[0][0]] = set()

    def block_out(b, s):
        s = set(s)
        for st in f.blocks[b]['stmts']:
            for a in nodes(st, lambda y: y.get('k') == 'assign' and y['op'] == '=' and strip(y['l']).get('k') == 'member' and P.K(strip(y['l'])['base']) == copyvar):
                s.add(strip(a['l'])['field'])
        return s
    ch = True
    while ch:
        ch = False
        for b in live:
            if b == mc[0][0]:
                continue
            acc = None
            for p in f.preds.get(b, []):
                if p not in live:
                    continue
                o = block_out(p, IN[p])
                c = f.cond_of(p)
                if c:
                    j = f.blocks[p]['succs'].index(b) if b in f.blocks[p]['succs'] else None
                    a = P.canon(c[0], j == 0)
                    if a and a[1] == '==' and a[2] == '0' and '->' in a[0] and a[0].split('->')[-1] in hooks:
                        o = o | {a[0].split('->')[-1]}
                acc = o if acc is None else acc & o
            acc = acc if acc is not None else set()
            if acc != IN[b]:
                IN[b] = acc
                ch = True
    worst = None
    nd = 0
    for b, i, c in f.calls('htp_config_destroy'):
        if P.K(c['args'][0]) != copyvar:
            continue
        nd += 1
        s = set(IN[b])
        for st in f.blocks[b]['stmts'][:i]:
            for a in nodes(st, lambda y: y.get('k') == 'assign' and y['op'] == '=' and strip(y['l']).get('k') == 'member' and P.K(strip(y['l'])['base']) == copyvar):
                s.add(strip(a['l'])['field'])
        missing = hooks - s
        if missing and (worst is None or len(missing) > len(worst[0])):
            worst = (missing, c)
    if worst:
        res.violated('C18.c', 'htp_config_copy:destroy-of-partial-copy', 'when a hook copy fails, htp_config_destroy(%s) runs while %d hook pointers of the copy (e.g. %s) still alias the original\'s hooks: the original configuration\'s hooks are freed' % (
            copyvar, len(worst[0]), sorted(worst[0])[0]), worst[1]['loc'])
    else:
        res.holds('C18.c', 'htp_config_copy:destroy-of-partial-copy', '%d destructor calls on the copy all happen with every hook pointer replaced or NULL' % nd, f.loc)


def c18d(db, res):
    res.rule('C18.d', 'hand-over of elements between two owners is atomic: in a function that marks "ownership has moved" (htp_table_destroy_ex / gave_up_data), no exit lies inside the loop that moves the elements')
    n = 0
    for name, f in sorted(db.fn.items()):
        markers = [(b, i) for b, i, c in f.calls('htp_table_destroy_ex')] + [(b, i) for b, i, x in P.field_writes(f, 'gave_up_data') if x['k'] == 'assign' and is_lit(x['r'], 1)]
        if not markers:
            continue
        movers = [(b, i, c) for b, i, c in f.calls() if c.get('callee') in ('htp_tx_req_add_param', 'htp_table_add', 'htp_table_addn', 'htp_table_addk')]
        for h, body in C.loops(f):
            inloop = [(b, i, c) for b, i, c in movers if b in body]
            if not inloop:
                continue
            if not any(mb in C.reachable(f, h) and mb not in body for mb, mi in markers):
                continue
            n += 1
            # exits inside the loop: return statements in blocks reachable from the header without passing a marker, that lie before the marker
            exits = []
            for b in C.reachable(f, h, avoid={mb for mb, mi in markers}):
                for st in f.blocks[b]['stmts']:
                    if st.get('k') == 'return' and (b in body or any(p in body for p in f.preds.get(b, []))):
                        exits.append(st)
            key = '%s:hand-over-loop' % name
            if exits:
                res.violated('C18.d', key, '%s moves elements into their new owner inside a loop and can return from inside it (%d exit(s), e.g. when calloc fails) before the "ownership moved" marker: elements already moved are then owned by both containers and freed twice at teardown' % (name, len(exits)), exits[0]['loc'])
            else:
                res.holds('C18.d', key, 'no exit between the first moved element and the ownership marker', f.blocks[h]['stmts'][-1]['loc'] if f.blocks[h]['stmts'] else f.loc)
    res.floor('C18.d', 'hand-over loops', n, 2)


def run(repo='/repo', tier='quick'):
    res = Result('C18')
    db = load(repo)
    nl = Nullness(db)
    c18a(db, res, nl)
    c18b(db, res)
    c18c(db, res)
    c18d(db, res)
    c18e(db, res)
    c18f(db, res)
    c18g(db, res)
    c18h(db, res, nl)
    res.assumptions += ['"later calls keep honouring the API contract" after a failed allocation is not decided', 'leaks on failure paths are not C18 violations (the statement does not ask for leak freedom under failure)',
                        'callees outside the library (libc, zlib) are trusted to tolerate what the code passes them']
    return res


def c18e(db, res):
    """Ownership across a failed call.  Where a caller releases an argument after the callee reported failure, the callee
    must not have released it on the way out (and the other way round): each side is locally plausible, together they free
    the object twice.  Summaries: RELEASES(h, j) - h passes parameter j to free or to a function that releases it;
    RELEASES-ON-FAILURE(g, j) - such a release in g is followed by a return of NULL / HTP_ERROR."""
    res.rule('C18.e', 'a failed call leaves its arguments to the caller: wherever a caller releases an argument on the failure branch of a call (result NULL / not HTP_OK), the callee releases that parameter on no path that returns failure (interprocedural release summaries)')
    releases = {('free', 0)}
    fns = [(n, f) for n, f in sorted(db.fn.items()) if f.blocks and not f.loc.startswith('htp/lzma')]

    def arg_param(f, a):
        a = strip(a)
        if a is not None and a.get('k') == 'var' and a.get('decl') == 'param':
            for k, p in enumerate(f.params):
                if p['name'] == a['name']:
                    return k
        return None
    changed = True
    while changed:
        changed = False
        for n, f in fns:
            for b, i, c in f.calls(None):
                for j, a in enumerate(c.get('args', [])):
                    if (c.get('callee'), j) in releases:
                        k = arg_param(f, a)
                        if k is not None and (n, k) not in releases:
                            releases.add((n, k))
                            changed = True

    def is_failure(st):
        e = strip(st.get('e')) if st.get('k') == 'return' else None
        if e is None:
            return False
        return P.K(e) in ('0', 'HTP_ERROR', '-1') and (P.K(e) != '0' or (e.get('name') == 'NULL' or (e.get('t') or '').endswith('*') or e.get('macro') == 'NULL'))

    on_failure = {}
    for n, f in fns:
        if (f.ret or '') == 'void':
            continue
        for b, i, c in f.calls(None):
            for j, a in enumerate(c.get('args', [])):
                if (c.get('callee'), j) not in releases:
                    continue
                k = arg_param(f, a)
                if k is None:
                    continue
                hit = []

                def visit(bb, ii, st, hit=hit):
                    for r in nodes(st, lambda y: y.get('k') == 'return'):
                        if is_failure(r):
                            hit.append(r)
                        return True
                    return False
                C.forward(f, (b, i), visit)
                if hit:
                    on_failure.setdefault((n, k), (c['loc'], hit[0]['loc']))
    n_sites = 0
    for n, f in fns:
        for b, i, c in f.calls(None):
            g = c.get('callee')
            if g not in db.fn or not db.fn[g].blocks or (g, 0) in releases and len(c.get('args', [])) == 1:
                continue
            # the l-value that receives the result (or the call itself when it is tested in place)
            st = f.blocks[b]['stmts'][i] if i < len(f.blocks[b]['stmts']) else None
            keys = {P.K(c)}
            if st is not None:
                for x in nodes(st, lambda y: y.get('k') in ('assign', 'decl')):
                    if x['k'] == 'assign' and strip(x['r']) is c:
                        keys.add(P.K(x['l']))
                    if x['k'] == 'decl':
                        for v in x['vars']:
                            if v.get('init') is not None and strip(v['init']) is c:
                                keys.add(v['name'])
            for j, a in enumerate(c.get('args', [])):
                a0 = strip(a)
                if a0 is None or a0.get('k') not in ('var', 'member') or not (a0.get('t') or '').endswith('*'):
                    continue
                ak = P.K(a0)
                # releases of the same argument on a branch where the call is known to have failed
                for b2, i2, c2 in f.calls(None):
                    if not any((c2.get('callee'), j2) in releases and P.K(a2) == ak for j2, a2 in enumerate(c2.get('args', []))):
                        continue
                    failed = [a_ for a_, d in P.facts_at(f, b2) if a_[0] in keys and ((a_[1] == '==' and a_[2] in ('0', 'HTP_ERROR')) or (a_[1] == '!=' and a_[2] == 'HTP_OK') or (a_[1] == '<' and a_[2] == '0'))]
                    if not failed or not C.reachable(f, b).__contains__(b2):
                        continue
                    n_sites += 1
                    key = '%s:%s(%s)' % (n, g, ak)
                    of = on_failure.get((g, j))
                    res.check(of is None, 'C18.e', key, 'the callee does not release this parameter on a failing path; the caller does',
                              '%s releases %s after %s reported failure (%s), and %s itself releases that parameter (at %s) on a path that returns failure (at %s): the object is freed twice' % (n, ak, g, c2['loc'], g, of and of[0], of and of[1]), c2['loc'])
    res.analysed['C18.e'] = dict(release_summaries=len(releases), release_on_failure_summaries=len(on_failure), caller_sites=n_sites)
    res.floor('C18.e', 'caller sites that release an argument after a failed call', n_sites, 10)
    res.floor('C18.e', 'functions that release a parameter (summaries)', len(releases), 15)


def c18f(db, res):
    """Growing a buffer: the recorded capacity may change only once the reallocation has succeeded.  When the new size is
    written into the owner's size field first and realloc then fails, the function leaves with a size that describes a
    block it does not have; whoever uses the object next writes past the old block."""
    res.rule('C18.f', 'the recorded capacity of a buffer changes only after the reallocation succeeded: at every realloc(P, E) whose failure leads to a return, no field of the object that owns P that E reads has been written earlier on a path to the call (or the failure branch writes it back); vendored LZMA decoder included')
    n = 0
    for name, f in sorted(db.fn.items()):
        if not f.blocks:
            continue
        for b, i, c in f.calls('realloc'):
            if len(c.get('args', [])) != 2:
                continue
            n += 1
            P0 = strip(c['args'][0])
            owner = P.K(P0['base']) if P0 is not None and P0.get('k') == 'member' else None
            fields = [x for x in nodes(c['args'][1], lambda y: y.get('k') == 'member') if owner is not None and P.K(x['base']) == owner]
            key = '%s:realloc(%s)' % (name, P.K(c['args'][0]))
            if not fields:
                res.holds('C18.f', key, 'the new size is not read from the owner (a local carries it until the reallocation has succeeded)', c['loc'])
                continue
            bad = None
            back = C.backward_blocks(f, b)
            rkeys = {P.K(c)}
            for x in nodes(f.blocks[b]['stmts'][i], lambda y: y.get('k') in ('assign', 'decl')):
                if x['k'] == 'assign' and strip(x['r']) is c:
                    rkeys.add(P.K(x['l']))
                if x['k'] == 'decl':
                    rkeys |= {v['name'] for v in x['vars'] if v.get('init') is not None and strip(v['init']) is c}
            for fx in fields:
                fk = P.K(fx)
                for b2, i2, st in f.stmts():
                    if (b2 not in back and b2 != b) or (b2 == b and i2 >= i):
                        continue
                    ws = [w for w in nodes(st, lambda y: y.get('k') == 'assign' or (y.get('k') == 'un' and y.get('op') in ('++', '--', '++post', '--post'))) if P.K(w.get('l') if w['k'] == 'assign' else w['e']) == fk]
                    if not ws:
                        continue
                    # written before the call: is it written back on the failure branch?
                    restored = False
                    for b3, i3, st3 in f.stmts():
                        if any(a_[0] in rkeys and a_[1] == '==' and a_[2] == '0' for a_, d in P.facts_at(f, b3)) and b3 in C.reachable(f, b) and b3 != b:
                            if any(P.K(w.get('l')) == fk for w in nodes(st3, lambda y: y.get('k') == 'assign')):
                                restored = True
                    if not restored:
                        bad = (fk, ws[0]['loc'])
            res.check(bad is None, 'C18.f', key, 'the size field is written only after the reallocation succeeded',
                      '%s writes the new size into %s (at %s) before realloc and does not write it back when realloc fails: after a failed reallocation the object claims a capacity its block does not have, and the next use writes past the end of the old block' % (name, bad and bad[0], bad and bad[1]), c['loc'])
    res.floor('C18.f', 'realloc sites', n, 5)


def c18g(db, res):
    """The LZMA decoder is allocated lazily, once its 13-byte header is complete, and the allocation is retried on the next
    call when it fails (the step marker header_len stays at the header size).  Whatever marks the step as done, or touches
    the decoder tables, has to come after the success test of LzmaDec_Allocate."""
    res.rule('C18.g', 'lazy allocation of the LZMA decoder: in htp_gzip_decompressor_decompress every write that moves header_len past the header size, and every LzmaDec_Init, is dominated by the success edge of LzmaDec_Allocate (a failed allocation leaves the step to be retried and the decoder tables untouched)')
    f = db.get('htp_gzip_decompressor_decompress')
    allocs = f.calls('LzmaDec_Allocate')
    res.floor('C18.g', 'LzmaDec_Allocate calls in htp_gzip_decompressor_decompress', len(allocs), 1)
    if not allocs:
        return
    dom = C.dominators(f)
    ab, ai, ac = allocs[0]
    rkeys = set()
    for x in nodes(f.blocks[ab]['stmts'][ai], lambda y: y.get('k') == 'assign'):
        if strip(x['r']) is ac:
            rkeys.add(P.K(x['l']))

    def after_success(b, i):
        if not ((ab in dom[b] and ab != b) or (ab == b and ai < i)):
            return False
        return any(a_[0] in rkeys and ((a_[1] == '==' and a_[2] in ('SZ_OK', '0')) or (a_[1] == '!=' and a_[2] not in ('SZ_OK', '0'))) for a_, d in P.facts_at(f, b)) if ab != b else False
    n = 0
    for b, i, st in f.stmts():
        for w in nodes(st, lambda y: y.get('k') == 'un' and y.get('op', '').startswith('++') and P.K(y['e']).endswith('header_len')):
            n += 1
            res.check(after_success(b, i), 'C18.g', 'htp_gzip_decompressor_decompress:step-marker', 'the step is marked done only after LzmaDec_Allocate succeeded',
                      'header_len is moved past the header size on a path that has not passed the success test of LzmaDec_Allocate: when the allocation fails the decoder is marked ready with its tables NULL, and the next chunk is decoded through them', w['loc'])
        for c in nodes(st, lambda y: y.get('k') == 'call' and y.get('callee') == 'LzmaDec_Init'):
            n += 1
            res.check(after_success(b, i), 'C18.g', 'htp_gzip_decompressor_decompress:LzmaDec_Init', 'the decoder is initialised only after LzmaDec_Allocate succeeded',
                      'LzmaDec_Init runs on a path that has not passed the success test of LzmaDec_Allocate', c['loc'])
    res.floor('C18.g', 'step marker / LzmaDec_Init sites', n, 2)


def c18h(db, res, nl):
    """Every consumer of a header / parameter record that sits in a table reads its name and value without a NULL test. A
    record that is already in its table therefore never has the result of a may-fail call stored straight into one of those
    fields: the string is grown into a temporary, the temporary is tested, and only then the field is updated (so a failed
    allocation leaves the old, valid value in place)."""
    res.rule('C18.h', 'a record that is already in its table keeps a valid name and value: no field of a header / parameter record obtained from a table or list lookup is assigned the result of a may-fail call directly (it goes through a tested temporary)')
    # may-fail, closed over wrappers that hand a failure on as an explicit NULL (bstr_add* -> bstr_expand -> realloc)
    mayfail = set(nl.mayfail)
    grew = True
    while grew:
        grew = False
        for n_, g in db.fn.items():
            if n_ in mayfail or not g.blocks:
                continue
            if any(c.get('callee') in mayfail for b_, i_, c in g.calls()) and any(P.ret_value(st_) is not None and (is_lit(P.ret_value(st_), 0) or lit_name(P.ret_value(st_)) == 'NULL' or (P.ret_value(st_).get('k') == 'call' and P.ret_value(st_).get('callee') in mayfail)) for b_, i_, st_ in (g.returns() or [])) \
                    and '*' in (g.ret if isinstance(getattr(g, 'ret', ''), str) else '*'):
                mayfail.add(n_)
                grew = True
    n = 0
    lookups = ('htp_table_get', 'htp_table_get_c', 'htp_table_get_mem', 'htp_table_get_index', 'htp_list_get', 'htp_list_array_get')
    for name, f in sorted(db.fn.items()):
        if not f.blocks:
            continue
        resident = set()
        for b, i, st in f.stmts():
            for d in nodes(st, lambda y: y.get('k') == 'decl'):
                for v in d['vars']:
                    ini = strip(v['init']) if v.get('init') is not None else None
                    if ini is not None and ini.get('k') == 'call' and ini.get('callee') in lookups:
                        resident.add(v['name'])
            for a in nodes(st, lambda y: y.get('k') == 'assign' and y['op'] == '=' and strip(y['l']).get('k') == 'var'):
                r = strip(a['r'])
                if r is not None and r.get('k') == 'call' and r.get('callee') in lookups:
                    resident.add(strip(a['l'])['name'])
        if not resident:
            continue
        for b, i, st in f.stmts():
            for a in nodes(st, lambda y: y.get('k') == 'assign' and y['op'] == '=' and strip(y['l']).get('k') == 'member'):
                l = strip(a['l'])
                if l.get('rec') not in ('htp_header_t', 'htp_param_t') or l.get('field') not in ('name', 'value'):
                    continue
                base = strip(l.get('base') or l.get('e') or {})
                if base.get('k') != 'var' or base['name'] not in resident:
                    continue
                n += 1
                r = strip(a['r'])
                direct = r is not None and r.get('k') == 'call' and r.get('callee') in mayfail
                res.check(not direct, 'C18.h', '%s:%s->%s' % (name, base['name'], l['field']), 'updated from a tested temporary',
                          '%s stores the result of %s() straight into %s->%s of a record that is already in its table: when the allocation fails the record stays in the table with a NULL %s, and every consumer reads it without a test' % (name, (r or {}).get('callee'), base['name'], l['field'], l['field']), a['loc'])
    res.floor('C18.h', 'updates of resident header / parameter records', n, 3)
