"""C15 — urlencoded parameters (DESIGN.md §4.15, thin). Equality with the reference split/decoding is the whole
behavioural content and is not decided; the carry of a half-built field across calls is."""
from ..facts import load, S, strip, nodes, is_lit, lit_name, AnalysisBroken
from ..report import Result
from .. import cfg as C
from .. import pat as P

TECHNIQUE = 'path rules on the streaming key/value scanner: end-of-chunk stores the piece and emits nothing, finalisation flushes, delimiters per state, builder pairing'


def run(repo='/repo', tier='quick'):
    res = Result('C15')
    db = load(repo)
    res.rule('C15.a', 'scanner: in the KEY state a field ends at \'=\', the separator or end of input; in the VALUE state only at the separator or end of input (split at the first \'=\'); each end hands [startpos, pos) to the field assembler and restarts at pos + 1')
    res.rule('C15.b', 'assembler: at end of a chunk (c == -1 and not complete) the piece is stored in the builder and no pair is emitted; otherwise the stored pieces are combined (to_str then clear) and exactly one pair is added')
    res.rule('C15.c', 'finalisation sets _complete before the flushing call; decoding is applied to name and value when enabled')
    f = db.get('htp_urlenp_parse_partial')
    st_enum = {}
    for fn_ in (db.get('htp_urlenp_parse_partial'), db.get('htp_urlenp_add_field_piece')):
        for b_, i_, st_ in fn_.stmts():
            for l_ in nodes(st_, lambda y: y.get('k') == 'lit' and y.get('name') in ('HTP_URLENP_STATE_KEY', 'HTP_URLENP_STATE_VALUE')):
                st_enum[l_['name']] = str(l_['v'])
    for b_ in f.blocks.values():
        if b_.get('label', {}).get('kind') == 'CaseStmt':
            pass
    calls = f.calls('htp_urlenp_add_field_piece')
    res.floor('C15.a', 'field-end sites in the scanner', len(calls), 2)
    for b, i, c in calls:
        facts = [a for a, e in P.facts_at(f, b)]
        state = 'KEY' if ('urlenp->_state', '==', st_enum.get('HTP_URLENP_STATE_KEY')) in facts else 'VALUE' if ('urlenp->_state', '==', st_enum.get('HTP_URLENP_STATE_VALUE')) in facts else '?'
        okargs = [P.K(a) for a in c['args']] == ['urlenp', 'data', 'startpos', 'pos', 'c']
        res.check(okargs, 'C15.a', 'scanner:%s:hands-span' % state, 'hands (data, startpos, pos, c) to the assembler', 'the field span handed over is not [startpos, pos) with the delimiter c', c['loc'])
        # which delimiters lead here: collect the conditions of the predecessor chain (|| chain)
        delims = set()
        w = [b]
        seen = set()
        while w:
            x = w.pop()
            for p in f.preds.get(x, []):
                cnd = f.cond_of(p)
                if cnd and p not in seen:
                    a = P.canon(cnd[0])
                    if a and a[0] == 'c' and a[1] == '==':
                        seen.add(p)
                        delims.add(a[2])
                        w.append(p)
        want = {"'='", 'urlenp->argument_separator', '-1'} if state == 'KEY' else {'urlenp->argument_separator', '-1'}
        norm = {("'='" if d in ('61', "'='") else d) for d in delims}
        res.check(norm == want, 'C15.a', 'scanner:%s:delimiters' % state, 'field ends at %s' % sorted(want), 'in the %s state a field ends at %s, expected %s' % (state, sorted(norm), sorted(want)), c['loc'])
    sp = [(b, i, a) for b, i, st in f.stmts() for a in nodes(st, lambda y: y.get('k') == 'assign' and P.K(y['l']) == 'startpos')]
    res.check(len(sp) >= 2 and all(P.K(a['r']) == '(pos + 1)' and any(x == ('c', '!=', '-1') for x, e in P.facts_at(f, b)) for b, i, a in sp), 'C15.a', 'scanner:restart-after-delimiter', 'the next field starts at pos + 1 (only when a delimiter was seen)',
              'the next field does not start right after the delimiter', f.loc)
    trans = {}
    for b, i, w in P.field_writes(f, '_state'):
        facts = [a for a, e in P.facts_at(f, b)]
        frm = 'KEY' if ('urlenp->_state', '==', st_enum.get('HTP_URLENP_STATE_KEY')) in facts else 'VALUE'
        onsep = any(a == ('c', '==', 'urlenp->argument_separator') for a in facts)
        notsep = any(a == ('c', '!=', 'urlenp->argument_separator') for a in facts)
        trans[(frm, 'sep' if onsep else 'eq' if notsep else 'sep')] = lit_name(w['r'])
    want = {('KEY', 'sep'): 'HTP_URLENP_STATE_KEY', ('KEY', 'eq'): 'HTP_URLENP_STATE_VALUE', ('VALUE', 'sep'): 'HTP_URLENP_STATE_KEY'}
    res.check(trans == want, 'C15.a', 'scanner:state-transitions', 'KEY -=-> VALUE, KEY -&-> KEY, VALUE -&-> KEY', 'state transitions are %s' % trans, f.loc)
    # ---------------- C15.b
    g = db.get('htp_urlenp_add_field_piece')
    n = 0
    bad_emit = bad_store = None
    for atoms, events, end, seq in P.enum_paths_seq(g, (g.entry, -1), max_paths=50000):
        if end[0] not in ('return', 'exit'):
            continue
        facts = [a for a, bb in atoms]
        if not P.feasible(g, facts):
            continue
        n += 1
        adds = sum(1 for x in seq if x[0] == 'stmt' for c in nodes(x[3], lambda y: y.get('k') == 'call' and y.get('callee') in ('htp_table_addn', 'htp_table_add', 'htp_table_addk')))
        stores = sum(1 for x in seq if x[0] == 'stmt' for c in nodes(x[3], lambda y: y.get('k') == 'call' and y.get('callee') == 'bstr_builder_append_mem'))
        carry = ('last_char', '==', '-1') in facts and ('urlenp->_complete', '==', '0') in facts
        if carry:
            if adds:
                bad_emit = end
            hasdata = ('data', '!=', '0') in facts and any(a[0] == '(endpos - startpos)' and a[1] == '>' for a in facts)
            if hasdata and stores != 1:
                bad_store = end
        elif adds > 1:
            bad_emit = end
    res.check(bad_emit is None and n > 0, 'C15.b', 'assembler:no-pair-at-chunk-end', 'on all %d paths: no pair is emitted for a field cut by the end of a chunk, and never more than one per call' % n,
              'a pair is emitted for a field that is only cut by the end of the chunk (c == -1, not complete), or two pairs in one call', g.loc)
    res.check(bad_store is None, 'C15.b', 'assembler:piece-stored-at-chunk-end', 'the cut piece is stored in the builder', 'a non-empty piece cut by the end of the chunk is not stored (exactly once) in the builder', g.loc)
    # key kept for later when followed by '='
    keep = [a for b, i, st in g.stmts() for a in nodes(st, lambda y: y.get('k') == 'assign' and P.K(y['l']) == 'urlenp->_name' and P.K(y['r']) == 'field')]
    res.check(len(keep) == 1, 'C15.b', 'assembler:key-kept-for-value', 'a key followed by = is kept in _name', 'the key of a key=value pair is no longer kept for the value', g.loc)
    # ---------------- C15.c
    h = db.get('htp_urlenp_finalize')
    w = P.field_writes(h, '_complete')
    calls = h.calls('htp_urlenp_parse_partial')
    ok = len(w) == 1 and is_lit(w[0][2]['r'], 1) and len(calls) == 1 and ((w[0][0] == calls[0][0] and w[0][1] < calls[0][1]) or (w[0][0] != calls[0][0] and w[0][0] in C.dominators(h)[calls[0][0]]))
    res.check(ok, 'C15.c', 'finalize:complete-before-flush', '_complete = 1 precedes the flushing call', 'finalisation does not set _complete before flushing: the last field would be stored, not emitted', h.loc)
    dec = [c for b, i, c in g.calls('htp_tx_urldecode_params_inplace')]
    args = sorted(P.K(c['args'][1]) for c in dec)
    under = all(any(a == ('urlenp->decode_url_encoding', '!=', '0') for a, e in P.facts_at(g, b)) for b, i, c in g.calls('htp_tx_urldecode_params_inplace'))
    res.check(args == ['name', 'name', 'value'] and under, 'C15.c', 'assembler:decodes-name-and-value', 'name (both arms) and value are decoded when decoding is enabled', 'decoding is not applied to name and value under decode_url_encoding (%s)' % args, g.loc)
    res.assumptions.append('equality with the reference split / decoding is a statement about values and is not decided: the claim is thin')
    from . import sentinel
    sentinel.run(db, res, 'C15.d', lambda f: f.loc.startswith('htp/htp_urlencoded.c'), 1)
    from . import coupdate
    coupdate.run(db, res, 'C15.e', [('htp_param_t', 'value', b, 3, 'a parameter record is filled completely where it is made') for b in ('name', 'source', 'parser_id')],
                 'fields that change together: wherever a parameter record gets its value it also gets its name, its source and the id of the parser that made it (query string, urlencoded body, multipart)')
    # ---- C15.f a decoder that is told its context uses it
    res.rule('C15.f', 'a decoder that is told its context uses it: in every function with a parameter of type enum htp_decoder_ctx_t, each subscript of decoder_cfgs[] is that parameter (never a constant context copied from the path twin); the setters\' defaults loop, which walks all contexts with its own index, is the one other accepted form')
    nctx = 0
    for n_, f_ in sorted(db.fn.items()):
        if not f_.blocks:
            continue
        cps = [p_['name'] for p_ in f_.params if 'htp_decoder_ctx_t' in (p_.get('t') or '')]
        if not cps:
            continue
        for b_, i_, st_ in f_.stmts():
            for x_ in nodes(st_, lambda y: y.get('k') == 'index' and P.member_field(y.get('base')) == 'decoder_cfgs'):
                nctx += 1
                ix = strip(x_['idx'])
                ok = ix is not None and ix.get('k') == 'var' and (ix['name'] in cps or ix.get('decl') == 'local')
                res.check(ok, 'C15.f', '%s:decoder_cfgs[%s]' % (n_, P.K(x_['idx'])), 'subscripted with the context parameter (or the defaults loop index)',
                          '%s is given its decoder context as a parameter but reads decoder_cfgs[%s]: the options of another context (the path decoder\'s) are applied to this one' % (n_, P.K(x_['idx'])), x_['loc'])
    res.floor('C15.f', 'decoder_cfgs subscripts in functions that are given a context', nctx, 30)
    c15g(db, res)
    c15h(db, res)
    return res


def c15g(db, res):
    """Decoding of names and values (percent, plus, and - in the same pass - raw and encoded NUL handling) is part of the
    reference rule "per configuration": which decoding happens is decided by the transaction's decoder configuration, not by a
    look at the input. The parser's own on/off switch is set once, by its constructor."""
    res.rule('C15.g', 'decoding is not switched off by looking at the input: the decode switch of the urlencoded parser (decode_url_encoding) is written only by the parser\'s constructor / its setter, never by the library code that feeds it')
    writers = []
    for name, f in sorted(db.fn.items()):
        if not f.blocks:
            continue
        for b, i, x in P.field_writes(f, 'decode_url_encoding'):
            writers.append((name, x))
    for name, f in sorted(db.fn.items()):
        if f.blocks:
            for b, i, c in f.calls('htp_urlenp_set_decode_url_encoding'):
                writers.append((name, c))
    n = len(writers)
    for name, x in writers:
        ok = name in ('htp_urlenp_create', 'htp_urlenp_set_decode_url_encoding')
        res.check(ok, 'C15.g', '%s:writes:decode_url_encoding' % name, 'the constructor / setter',
                  '%s switches the decoding of a urlencoded parser on or off (%s): the skipped pass is also where NUL bytes terminate a field and invalid encodings are handled, so the reported names and values no longer follow the configured decoding for some inputs' % (name, S(x)[:60]), x['loc'])
    res.floor('C15.g', 'writers of the decode switch', n, 1)


def c15h(db, res):
    """Whether a request body is parsed as urlencoded parameters is decided by its Content-Type alone ("for every ... urlencoded
    body"): not by the method, not by what else the library does with the body (PUT file hooks)."""
    res.rule('C15.h', 'the urlencoded body parser is set up for every urlencoded body: in htp_ch_urlencoded_callback_request_headers no branch reads anything of the connection parser or the method - only the Content-Type header and allocation results decide')
    f = db.get('htp_ch_urlencoded_callback_request_headers')
    n = 0
    bad = None
    for b in sorted(f.blocks):
        c = f.cond_of(b)
        if not c:
            continue
        n += 1
        for m in nodes(c[0], lambda y: y.get('k') == 'member'):
            if m.get('rec') == 'htp_connp_t' or m.get('field') in ('request_method_number', 'request_method', 'put_file'):
                bad = (c[0], m.get('field'))
    res.check(bad is None, 'C15.h', 'htp_ch_urlencoded_callback_request_headers:content-type-only', 'only the content type decides',
              'htp_ch_urlencoded_callback_request_headers declines depending on %s: a urlencoded body of such a request yields no body parameters at all' % (bad[1] if bad else ''), (bad[0] if bad else {}).get('loc', f.loc))
    res.floor('C15.h', 'branches in the urlencoded request-headers callback', n, 2)
