"""C01.b — scan loops and in-place decoders: every subscript on an (array, length) pair is classified
PROVED / REFUTED / UNKNOWN by the guard analysis (sa/guards.py). Only REFUTED alarms."""
from ..facts import S, strip, nodes, is_lit
from .. import pat as P
from .. import guards as G


def run(db, res):
    res.rule('C01.b', 'guarded subscripts: for every array paired with its length (adjacent parameters, or bstr_ptr/bstr_len of one string) each index v + c is classified from the dominating guards: PROVED (v + c < len follows), REFUTED (the strongest guard admits v + c == len: off by one; or an unsigned `len - k` index with a guard that admits len == k - 1), UNKNOWN (not an alarm)')
    tot = proved = refuted = unknown = 0
    for name, f in sorted(db.fn.items()):
        if not f.blocks:
            continue
        pairs = G.pairs_of(f)
        if not pairs:
            continue
        seen = {}

        def on_index(x, fs, b, i):
            A = P.K(x['base'])
            if A not in pairs:
                return
            L = pairs[A]
            t = G.term(x['idx'])
            key = '%s:%s[%s]' % (name, A, P.K(x['idx']))
            if not t:
                # mirror index  (L + c) - v : in bounds iff c <= -1 (below L) and v <= L + c (not below 0)
                i0 = strip(x['idx'])
                tl, tv = (G.term(i0['l']), G.term(i0['r'])) if (i0 is not None and i0.get('k') == 'bin' and i0['op'] == '-') else (None, None)
                if tl and tv and tl[0] == L and tv[0] not in ('0', L):
                    c = tl[1] - tv[1]
                    bnd = fs.b.get((tv[0], L))
                    if c <= -1 and bnd is not None and bnd <= c:
                        seen.setdefault((key, x['loc']), ('PROVED', '%s <= %s + %d known (index counted from the end)' % (tv[0], L, c)))
                        return
                seen.setdefault((key, x['loc']), ('UNKNOWN', 'index is not of the form v + c'))
                return
            v, c = t
            if (v, '#wrap') in fs:
                verdict, why = 'REFUTED', 'the unsigned index %s was computed as `x - k` on a path with no guard x >= k: for x < k it wraps to a huge value (read far outside the buffer)' % v
            elif v == L:
                # len - k : needs len >= k, i.e. 0 + (k - 1) < len
                need = -c - 1
                k = fs.get(('0', L), -G.INF)
                verdict = 'PROVED' if (c < 0 and k >= need) else 'REFUTED' if (c < 0 and k == need - 1 and k > -G.INF) else 'UNKNOWN'
                why = '%s > %d known' % (L, k) if k > -G.INF else 'no lower bound on %s' % L
            elif v == '0':
                k = fs.get(('0', L), -G.INF)
                verdict = 'PROVED' if k >= c else 'UNKNOWN'
                why = 'constant index'
            else:
                k = fs.get((v, L), -G.INF)
                verdict = 'PROVED' if k >= c else 'REFUTED' if (k == c - 1) else 'UNKNOWN'
                why = ('%s + %d < %s known' % (v, k, L)) if k > -G.INF else 'no guard relates %s and %s' % (v, L)
            prev = seen.get((key, x['loc']))
            rank = {'PROVED': 0, 'UNKNOWN': 1, 'REFUTED': 2}
            if prev is None or rank[verdict] > rank[prev[0]]:
                seen[(key, x['loc'])] = (verdict, why)
        try:
            G.analyse(f, on_index)
        except RecursionError:
            continue
        for (key, loc), (verdict, why) in sorted(seen.items()):
            tot += 1
            if verdict == 'PROVED':
                proved += 1
                res.holds('C01.b', key, why, loc)
            elif verdict == 'REFUTED':
                refuted += 1
                res.violated('C01.b', key, ('the guard that protects this subscript is off by one: %s, so the index can equal the length (one byte past the buffer)' % why) if 'wraps' not in why else why, loc)
            else:
                unknown += 1
                res.unknown('C01.b', key, why, loc)
    res.analysed['C01.b subscripts on paired arrays'] = dict(total=tot, proved=proved, refuted=refuted, unknown=unknown)
    res.floor('C01.b', 'PROVED subscripts', proved, 150)
