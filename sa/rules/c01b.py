"""C01.b — scan loops and in-place decoders: every subscript on an (array, length) pair is classified
PROVED / REFUTED / UNKNOWN by the guard analysis (sa/guards.py). Only REFUTED alarms."""
import re
from ..facts import S, strip, nodes, is_lit
from .. import pat as P
from .. import guards as G


def run(db, res):
    res.rule('C01.b', 'guarded subscripts: for every array paired with its length (adjacent parameters, or bstr_ptr/bstr_len of one string) each index v + c is classified from the dominating guards: PROVED (v + c < len follows), REFUTED (the strongest guard admits v + c == len: off by one; or an unsigned `len - k` index with a guard that admits len == k - 1), UNKNOWN (not an alarm)')
    tot = proved = refuted = unknown = 0
    for name, f in sorted(db.fn.items()):
        if not f.blocks:
            continue
        pairs = G.pairs_of(f)
        uns_terms = G.unsigned_terms(f)
        seen = {}

        def fixed_size(x, fs, A):
            """subscript on an object whose type is an array of constant size N (tables, record members, local buffers)"""
            bt = (strip(x['base']) or {}).get('t') or ''
            m = re.search(r'\[(\d+)\]$', bt)
            if not m:
                return
            N = int(m.group(1))
            t = G.term(x['idx'])
            key = '%s:%s[%s]' % (name, A, P.K(x['idx']))
            if not t:
                verdict, why = 'UNKNOWN', 'index into %s[%d] is not of the form v + c' % (A, N)
            elif t[0] == '0':
                verdict, why = ('PROVED', 'constant index %d < %d' % (t[1], N)) if 0 <= t[1] < N else ('REFUTED', 'constant index %d is outside %s[%d]' % (t[1], A, N))
            else:
                v, c = t
                hi, lo = fs.b.get((v, '0')), fs.b.get(('0', v))
                signed = not G._uns(x['idx']) and v not in uns_terms and not ((strip(x['idx']) or {}).get('t') or '').startswith('enum ')
                if hi is not None and hi + c <= N - 1 and (not signed or (lo is not None and -lo + c >= 0)):
                    verdict, why = 'PROVED', '%s <= %d known, array size %d' % (v, hi, N)
                elif hi is not None and hi + c == N:
                    verdict, why = 'REFUTED', 'the strongest bound is %s <= %d: index %s + %d can equal the array size %d' % (v, hi, v, c, N)
                else:
                    verdict, why = 'UNKNOWN', 'no bound on %s against the array size %d%s' % (v, N, ' (or no lower bound on a signed index)' if hi is not None else '')
            prev = seen.get((key, x['loc']))
            rank = {'PROVED': 0, 'UNKNOWN': 1, 'REFUTED': 2}
            if prev is None or rank[verdict] > rank[prev[0]]:
                seen[(key, x['loc'])] = (verdict, why)

        def on_index(x, fs, b, i):
            A = P.K(x['base'])
            if A not in pairs:
                fixed_size(x, fs, A)
                return
            L = pairs[A]
            t = G.term(x['idx'])
            key = '%s:%s[%s]' % (name, A, P.K(x['idx']))
            if not t:
                # mirror index  (L + c) - v : in bounds iff c <= -1 (below L) and v <= L + c (not below 0)
                i0 = strip(x['idx'])
                tl, tv = (G.term(i0['l']), G.term(i0['r'])) if (i0 is not None and i0.get('k') == 'bin' and i0['op'] == '-') else (None, None)
                if tl and tv and tl[0] == L and tv[0] not in ('0', L):
                    c = tl[1] - tv[1]
                    bnd = fs.b.get((tv[0], L))
                    if c <= -1 and bnd is not None and bnd <= c:
                        seen.setdefault((key, x['loc']), ('PROVED', '%s <= %s + %d known (index counted from the end)' % (tv[0], L, c)))
                        return
                    if c <= -1 and bnd is not None and bnd == c + 1:
                        seen[(key, x['loc'])] = ('REFUTED', 'index counted from the end: only %s <= %s + %d is known, so %s can wrap below 0' % (tv[0], L, bnd, S(x['idx'])))
                        return
                seen.setdefault((key, x['loc']), ('UNKNOWN', 'index is not of the form v + c'))
                return
            v, c = t
            if (v, '#wrap') in fs:
                verdict, why = 'REFUTED', 'the unsigned index %s was computed as `x - k` on a path with no guard x >= k: for x < k it wraps to a huge value (read far outside the buffer)' % v
            elif v == L:
                # len - k : needs len >= k, i.e. 0 + (k - 1) < len
                need = -c - 1
                k = fs.get(('0', L), -G.INF)
                verdict = 'PROVED' if (c < 0 and k >= need) else 'REFUTED' if (c < 0 and k == need - 1 and k > -G.INF) else 'UNKNOWN'
                why = '%s > %d known' % (L, k) if k > -G.INF else 'no lower bound on %s' % L
            elif v == '0':
                k = fs.get(('0', L), -G.INF)
                verdict = 'PROVED' if k >= c else 'UNKNOWN'
                why = 'constant index'
            else:
                k = fs.get((v, L), -G.INF)
                verdict = 'PROVED' if k >= c else 'REFUTED' if (k == c - 1) else 'UNKNOWN'
                why = ('%s + %d < %s known' % (v, k, L)) if k > -G.INF else 'no guard relates %s and %s' % (v, L)
            prev = seen.get((key, x['loc']))
            rank = {'PROVED': 0, 'UNKNOWN': 1, 'REFUTED': 2}
            if prev is None or rank[verdict] > rank[prev[0]]:
                seen[(key, x['loc'])] = (verdict, why)
        try:
            G.analyse(f, on_index, db)
        except RecursionError:
            continue
        for (key, loc), (verdict, why) in sorted(seen.items()):
            tot += 1
            if verdict == 'PROVED':
                proved += 1
                res.holds('C01.b', key, why, loc)
            elif verdict == 'REFUTED':
                refuted += 1
                res.violated('C01.b', key, ('the guard that protects this subscript is off by one: %s, so the index can equal the length (one byte past the buffer)' % why) if 'wraps' not in why else why, loc)
            else:
                unknown += 1
                res.unknown('C01.b', key, why, loc)
    res.analysed['C01.b subscripts on paired arrays'] = dict(total=tot, proved=proved, refuted=refuted, unknown=unknown)
    res.floor('C01.b', 'PROVED subscripts', proved, 150)
