"""C16 — CONNECT / upgrade / tunnel handling (DESIGN.md §4.16)."""
from ..facts import load, S, strip, nodes, is_lit, lit_name, AnalysisBroken
from ..report import Result
from .. import cfg as C
from .. import pat as P
from .c09 import DRIVERS, dispatch_sites

TECHNIQUE = 'edge-dominance and must-pass-through rules on the drivers and the CONNECT states; exactness row (guard-chain table) for the DATA_OTHER hand-over'
CURSOR = ('current_read_offset', 'current_consume_offset', 'current_receiver_offset', 'stream_offset', 'current_len', 'current_data')


def run(repo='/repo', tier='quick'):
    res = Result('C16')
    db = load(repo)
    res.rule('C16.a', 'tunnel short-circuit: status == TUNNEL returns TUNNEL before any dispatch, and again after every OK state return before the state-change handler (which runs hooks)')
    res.rule('C16.b', 'TUNNEL is only entered under the documented conditions and always for both directions together')
    res.rule('C16.c', 'the CONNECT suspension paths do not move the cursor; the tunnel probe accumulates without consuming')
    res.rule('C16.d', 'the response side yields DATA_OTHER at transaction end exactly when the request side waits on it or a refused CONNECT asked for it; the flag has one documented setter')
    for d, dn in DRIVERS.items():
        fn = db.get(dn)
        skey = 'connp->%s_status' % d
        # --- C16.a (1): a TUNNEL test whose true edge returns TUNNEL dominates every dispatch
        sites = dispatch_sites(db, fn, d)
        complete = 'htp_tx_state_request_complete' if d == 'in' else 'htp_tx_state_response_complete_ex'
        sites += [(b, i, fn.blocks[b]['stmts'][i]) for b, i, c in fn.calls(complete)]
        res.floor('C16.a', 'dispatch sites in ' + dn, len(sites), 3)
        for b, i, st in sites:
            ok = any(a == (skey, '!=', 'HTP_STREAM_TUNNEL') for a, e in P.facts_at(fn, b))
            res.check(ok, 'C16.a', '%s:dispatch:%s' % (dn, P.K(st)[:50]), 'dispatch is on the false edge of (%s == TUNNEL)' % skey,
                      'a state function is run without a dominating %s != HTP_STREAM_TUNNEL test: tunnelled bytes would be parsed' % skey, st['loc'])
        guards = [b for b in fn.blocks if fn.cond_of(b) and P.canon(fn.cond_of(b)[0]) == (skey, '==', 'HTP_STREAM_TUNNEL')]
        for g in guards:
            for atoms, events, end in P.enum_paths(fn, (fn.blocks[g]['succs'][0], -1)):
                okr = end[0] == 'return' and lit_name(P.ret_value(end[3])) == 'HTP_STREAM_TUNNEL' and all(ev[2] is end[3] or P.call_name_of(ev[2]) in ('fprintf', 'fprint_raw_data', 'fprint_raw_data_ex') for ev in events)      # (trace output of the debug configuration is not an action)
                res.check(okr, 'C16.a', '%s:tunnel-arm-returns-TUNNEL' % dn, 'the TUNNEL arm returns HTP_STREAM_TUNNEL and does nothing else',
                          'the TUNNEL arm does something other than return HTP_STREAM_TUNNEL', fn.blocks[g]['stmts'][-1]['loc'])
        # --- C16.a (2): between an OK state return and the state-change handler the TUNNEL test is repeated
        handler = 'htp_req_handle_state_change' if d == 'in' else 'htp_res_handle_state_change'
        hcalls = fn.calls(handler)
        res.floor('C16.a', 'state-change handler calls in ' + dn, len(hcalls), 1)
        hset = {(b, i) for b, i, c in hcalls}
        bad = None
        n = 0
        for sb, si, sst in sites:
            for atoms, events, end, seq in P.enum_paths_seq(fn, (sb, si), stop=lambda b_, i_, s_: (b_, i_) in hset):
                if end[0] != 'stop':
                    continue
                n += 1
                facts = [x[1] for x in seq if x[0] == 'atom']
                if (skey, '!=', 'HTP_STREAM_TUNNEL') not in facts or ('rc', '==', 'HTP_OK') not in facts:
                    bad = end[3]
        if bad is not None:
            res.violated('C16.a', dn + ':post-dispatch-tunnel-test', 'the state-change handler (which runs data-receiver hooks) is reached after a state function without re-testing %s != TUNNEL' % skey, bad['loc'])
        else:
            res.holds('C16.a', dn + ':post-dispatch-tunnel-test', '%d paths from a dispatch to %s all pass rc == HTP_OK and %s != TUNNEL' % (n, handler, skey), hcalls[0][2]['loc'])

    # --- C16.b writers of TUNNEL
    writers = []
    for n, f in sorted(db.fn.items()):
        for fld in ('in_status', 'out_status'):
            for b, i, x in P.field_writes(f, fld):
                if x['k'] == 'assign' and lit_name(x['r']) == 'HTP_STREAM_TUNNEL':
                    writers.append((f, fld, b, i, x))
    res.floor('C16.b', 'assignments of HTP_STREAM_TUNNEL', len(writers), 1)
    for f, fld, b, i, x in writers:
        facts = [a for a, e in P.facts_at(f, b)]
        mi = P.local_init_from(f, lambda e: e is not None and e.get('k') == 'call' and e.get('callee') == 'htp_convert_method_to_number') or 'methodi'
        probe = (mi, '==', 'HTP_M_UNKNOWN') in facts
        t_, c_ = P.table_lookup_local(f, 'transfer-encoding'), P.table_lookup_local(f, 'content-length')
        sw = any(a[0].endswith('response_status_number') and a[1] == '==' and a[2] == '101' for a in facts) and (t_, '==', '0') in facts and (c_, '==', '0') in facts
        key = '%s:%s=TUNNEL' % (f.name, fld)
        if probe or sw:
            res.holds('C16.b', key, 'guarded by ' + ('the tunnel probe finding a non-HTTP method' if probe else 'status 101 without T-E and C-L'), x['loc'])
        else:
            res.violated('C16.b', key, 'tunnel mode is entered outside the documented conditions (2xx CONNECT + non-HTTP bytes, or 101 without body headers); guards here: %s' % facts[-4:], x['loc'])
    def reach(f, start, avoid, skip_edges):
        seen, w = set(), [start]
        while w:
            c = w.pop()
            if c in seen or c in avoid:
                continue
            seen.add(c)
            for j_, s_ in enumerate(f.blocks[c]['succs']):
                if s_ is not None and (c, j_) not in skip_edges:
                    w.append(s_)
        return seen

    def final_guard_edges(f, fld):
        """false edges of the tests `connp-><fld> != HTP_STREAM_ERROR` / `!= HTP_STREAM_STOP`: taken only when that direction is in a final state, which is kept"""
        out = set()
        for bb in f.blocks:
            c = f.cond_of(bb)
            a = P.canon(c[0]) if c else None
            if a and a[0] == 'connp->' + fld and a[2] in ('HTP_STREAM_ERROR', 'HTP_STREAM_STOP'):
                if a[1] == '!=':
                    out.add((bb, 1))
                elif a[1] == '==':
                    out.add((bb, 0))
        return out
    for f in {w[0].name: w[0] for w in writers}.values():
        outs = [(b, i, x) for ff, fld, b, i, x in writers if ff is f and fld == 'out_status']
        ins = [(b, i, x) for ff, fld, b, i, x in writers if ff is f and fld == 'in_status']
        for b, i, x in outs:
            # every path to the out write passes an in write, unless the request side is in a final state (ERROR / STOP), which is kept
            avoid = {ib for ib, ii, ix in ins}
            same_block_before = any(ib == b and ii < i for ib, ii, ix in ins)
            ok = same_block_before or (b not in reach(f, f.entry, avoid - {b}, final_guard_edges(f, 'in_status')))
            res.check(ok, 'C16.b', f.name + ':out=TUNNEL-implies-in=TUNNEL', 'every path that puts the response side into tunnel mode also does so for the request side (unless that side is in ERROR or STOP)',
                      'a path sets out_status = TUNNEL without in_status = TUNNEL: the request direction would keep parsing tunnelled bytes', x['loc'])
        for b, i, x in ins:
            # from the in write every path to the exit passes an out write, unless the response side is in a final state
            same_block_after = any(ob == b and oi > i for ob, oi, ox in outs)
            avoid = {ob for ob, oi, ox in outs}
            ok = same_block_after or (f.exit not in reach(f, b, avoid - {b}, final_guard_edges(f, 'out_status')))
            res.check(ok, 'C16.b', f.name + ':in=TUNNEL-implies-out=TUNNEL', 'every path that sets in_status = TUNNEL goes on to set out_status = TUNNEL (unless that side is in ERROR or STOP)',
                      'a path sets in_status = TUNNEL without out_status = TUNNEL', x['loc'])

    # --- C16.e the response side releases a suspended request side only for a refused CONNECT
    res.rule('C16.e', 'only the refused-CONNECT arms of the response side may put the request side back to DATA; a 2xx answer leaves it suspended until the tunnel probe decides')
    in_side = set(P.state_functions(db, 'in')) | {'htp_connp_req_data', 'htp_connp_create', 'htp_connp_open', 'htp_connp_close', 'htp_connp_req_close'}
    nrel = 0
    for n, f in sorted(db.fn.items()):
        if n in in_side:
            continue
        for b, i, x in P.field_writes(f, 'in_status'):
            if x['k'] != 'assign' or lit_name(x['r']) == 'HTP_STREAM_TUNNEL':
                continue
            nrel += 1
            val = lit_name(x['r'])
            npth, bad = 0, None
            for atoms, events, end, seq in P.enum_paths_seq(f, (f.entry, -1), stop=lambda bb, ii, st: (bb, ii) == (b, i), max_paths=5000, must_reach=b):
                if end[0] != 'stop':
                    continue
                npth += 1
                facts = [a for a, bb in atoms]
                connect = any(a[0].endswith('request_method_number') and a[1] == '==' and a[2] == 'HTP_M_CONNECT' for a in facts)
                not2xx = any(a[0].endswith('response_status_number') and ((a[1] == '<' and a[2] == '200') or (a[1] == '>' and a[2] == '299')) for a in facts)
                if not (val == 'HTP_STREAM_DATA' and connect and not2xx):
                    bad = facts
            key = '%s:in_status=%s' % (n, val)
            res.check(bad is None and npth > 0, 'C16.e', key, 'all %d paths to this write are in a refused-CONNECT arm (method CONNECT, status outside 200..299)' % npth,
                      '%s sets in_status = %s on a path that is not a refused-CONNECT arm: after a 2xx answer the request side would resume before the tunnel probe (or a stopped/failed request side would be revived)' % (n, val), x['loc'])
    res.floor('C16.e', 'cross-direction writes of in_status', nrel, 1)

    # --- C16.c
    for name in ('htp_connp_REQ_CONNECT_CHECK', 'htp_connp_REQ_CONNECT_WAIT_RESPONSE'):
        f = db.get(name)
        w = [(b, i, x) for fld in CURSOR for b, i, x in P.field_writes(f, 'in_' + fld)]
        calls = [c for b, i, c in f.calls() if c.get('callee') not in ('htp_log',)]
        res.check(not w and not calls, 'C16.c', name + ':no-cursor-write', 'suspension state writes no cursor field and calls nothing',
                  'the CONNECT suspension state moves the cursor or calls out: %s' % (S(w[0][2]) if w else calls[0].get('callee') if calls else ''), (w[0][2]['loc'] if w else (calls[0]['loc'] if calls else f.loc)))
        rets = [lit_name(P.ret_value(st)) for b, i, st in f.returns()]
        res.check('HTP_DATA_OTHER' in rets, 'C16.c', name + ':yields', 'can yield with HTP_DATA_OTHER', 'no longer yields to the response side with HTP_DATA_OTHER', f.loc)
    f = db.get('htp_connp_REQ_CONNECT_CHECK')
    for b, i, st in f.returns():
        if lit_name(P.ret_value(st)) == 'HTP_DATA_OTHER':
            facts = [a for a, e in P.facts_at(f, b)]
            ok = any(a[0].endswith('request_method_number') and a[1] == '==' and a[2] == 'HTP_M_CONNECT' for a in facts)
            sets = [x for x in nodes(f.blocks[b]['stmts'], lambda y: y.get('k') == 'assign' and P.member_field(y['l']) == 'in_state')]
            ok2 = any(P.K(x['r']) == 'htp_connp_REQ_CONNECT_WAIT_RESPONSE' for x in sets)
            res.check(ok and ok2, 'C16.c', 'htp_connp_REQ_CONNECT_CHECK:CONNECT-suspends', 'CONNECT suspends the request side in the wait state',
                      'the suspension is not tied to the CONNECT method / wait state', st['loc'])
    # the non-CONNECT arm must not suspend
    f = db.get('htp_connp_REQ_CONNECT_WAIT_RESPONSE')
    for b, i, st in f.returns():
        if lit_name(P.ret_value(st)) == 'HTP_DATA_OTHER':
            facts = [a for a, e in P.facts_at(f, b)]
            ok = any(a[0].endswith('response_progress') and a[1] == '<=' and a[2] == 'HTP_RESPONSE_LINE' for a in facts)
            res.check(ok, 'C16.c', f.name + ':waits-until-response-line', 'keeps waiting exactly while the response line has not been seen',
                      'the wait condition is no longer response_progress <= HTP_RESPONSE_LINE', st['loc'])
    for b, i, x in P.field_writes(f, 'in_state'):
        facts = [a for a, e in P.facts_at(f, b)]
        tgt = P.K(x['r'])
        in2xx = any(a[0].endswith('response_status_number') and a[1] == '>=' and a[2] == '200' for a in facts) and any(a[0].endswith('response_status_number') and a[1] == '<=' and a[2] == '299' for a in facts)
        if tgt == 'htp_connp_REQ_CONNECT_PROBE_DATA':
            res.check(in2xx, 'C16.c', f.name + ':2xx-probes', '2xx goes on to probe the tunnel', 'the tunnel probe is entered outside 200..299', x['loc'])
        elif tgt == 'htp_connp_REQ_FINALIZE':
            res.check(not in2xx, 'C16.c', f.name + ':refused-resumes', 'a refused CONNECT resumes normal parsing', 'normal parsing resumes on a 2xx CONNECT', x['loc'])
        else:
            res.violated('C16.c', f.name + ':next-state:' + tgt, 'unexpected next state after CONNECT wait: ' + tgt, x['loc'])
    f = db.get('htp_connp_REQ_CONNECT_PROBE_DATA')
    w = P.field_writes(f, 'in_current_consume_offset')
    cb = f.calls('htp_connp_req_clear_buffer')
    res.check(not w and not cb, 'C16.c', f.name + ':does-not-consume', 'the probe never advances the consume offset nor clears the buffer (bytes stay available to REQ_LINE / stay unparsed in the tunnel)',
              'the tunnel probe consumes bytes: a resumed HTTP request would lose them', (w[0][2]['loc'] if w else cb[0][2]['loc'] if cb else f.loc))

    # --- C16.d exactness on htp_tx_state_response_complete_ex
    f = db.get('htp_tx_state_response_complete_ex')
    A = ('tx->connp->in_status', '==', 'HTP_STREAM_DATA_OTHER')
    B = ('tx->connp->in_tx', '==', 'tx->connp->out_tx')
    Fl = ('tx->connp->out_data_other_at_tx_end', '!=', '0')
    H = ('hybrid_mode', '==', '0')
    npaths = 0
    for atoms, events, end, seq in P.enum_paths_seq(f, (f.entry, -1)):
        if end[0] != 'return':
            continue
        if not P.flag_feasible(f, seq):
            continue                        # a branch on a constant-valued local (`yield`) contradicts what the path stored in it
        npaths += 1
        facts = [a for a, b in atoms]
        ret = lit_name(P.ret_value(end[3]))
        neg = lambda a: (a[0], P.NEG[a[1]], a[2])
        rv0 = strip(P.ret_value(end[3]))
        if ret is None and rv0 is not None and rv0.get('k') == 'cond':
            # return flag ? X : Y - the arm is decided by the branch the path took on the flag
            ca = P.canon(rv0['c'])
            if ca in facts:
                ret = lit_name(rv0['a'])
            elif ca and neg(ca) in facts:
                ret = lit_name(rv0['b'])
        trig_true = H in facts and ((A in facts and B in facts) or Fl in facts)
        trig_false = neg(H) in facts or ((neg(A) in facts or neg(B) in facts) and neg(Fl) in facts)
        if ret == 'HTP_DATA_OTHER':
            if not trig_true:
                res.violated('C16.d', f.name + ':yields-only-when-documented', 'returns HTP_DATA_OTHER on a path where neither (request side waiting on this tx) nor the refused-CONNECT flag is established', end[3]['loc'])
            if Fl in facts and not (A in facts and B in facts):
                cleared = any(x[0] == 'stmt' and any(is_lit(w['r'], 0) for w in P.assigns_field(x[3], 'out_data_other_at_tx_end')) for x in seq)
                res.check(cleared, 'C16.d', f.name + ':flag-cleared-on-yield', 'the one-shot flag is cleared when it is honoured', 'out_data_other_at_tx_end is not cleared when honoured: every later transaction would yield too', end[3]['loc'])
        elif trig_true and any(a[1] == '!=' and a[2] == 'HTP_OK' and a[0] == P.K(P.ret_value(end[3])) for a in facts):
            pass                            # a callback of the finalisation failed: its status is returned instead (an error or a stop outranks the yield)
        elif trig_true:
            res.violated('C16.d', f.name + ':yields-when-documented', 'the hand-over condition holds but the function does not return HTP_DATA_OTHER', end[3]['loc'])
    if not any(o['rule'] == 'C16.d' and o['status'] == 'VIOLATED' for o in res.obs):
        res.holds('C16.d', f.name + ':exactness', '%d paths: HTP_DATA_OTHER is returned iff !hybrid && ((in_status == DATA_OTHER && in_tx == out_tx) || out_data_other_at_tx_end)' % npaths, f.loc)
    res.floor('C16.d', 'paths of ' + f.name, npaths, 8)
    setters = [(ff, b, i, x) for ff in db.fn.values() for b, i, x in P.field_writes(ff, 'out_data_other_at_tx_end') if not (x['k'] == 'assign' and is_lit(x['r'], 0))]
    res.floor('C16.d', 'setters of out_data_other_at_tx_end', len(setters), 1)
    for ff, b, i, x in setters:
        facts = [a for a, e in P.facts_at(ff, b)]
        ok = any(a[0].endswith('request_method_number') and a[1] == '==' and a[2] == 'HTP_M_CONNECT' for a in facts) and \
            any(a[0].endswith('response_status_number') and a[2] == '407' and a[1] == '!=' for a in facts) and \
            not (any(a[0].endswith('response_status_number') and a[1] == '>=' and a[2] == '200' for a in facts) and any(a[0].endswith('response_status_number') and a[1] == '<=' and a[2] == '299' for a in facts))
        res.check(ok, 'C16.d', ff.name + ':sets-flag-only-for-refused-CONNECT', 'set only for a CONNECT answered with neither 2xx nor 407',
                  'the yield-at-end flag is set outside the refused-CONNECT arm', x['loc'])
    c16g(db, res)
    c16h(db, res)
    c16j(db, res)
    c16k(db, res)
    c16l(db, res)
    c16m(db, res)
    c16n(db, res)
    c16i(db, res)
    res.assumptions.append('"no request byte skipped or parsed twice" is decided only as: the suspension/probe paths do not move the cursor; values are not tracked')
    if tier == 'thorough':
        from .. import typestate
        typestate.check_sticky(db, res, 'C16.f')
    return res


def c16g(db, res):
    """The suspended request side is released by the gate in REQ_CONNECT_WAIT_RESPONSE, which reads the transaction's response
    progress against a phase constant L ("the final status line has been seen").  The response side can return to the
    status-line state for the same transaction (interim 1xx); every such return must put the progress back to L, or the
    interim response releases the gate and the CONNECT is judged on status 100."""
    res.rule('C16.g', 'the CONNECT wait gate reads response_progress against a phase L; every store of out_state = (status-line state) resets response_progress to L in the same function on every path')
    gate = db.get('htp_connp_REQ_CONNECT_WAIT_RESPONSE')
    L = None
    for b in gate.blocks:
        c = gate.cond_of(b)
        if c:
            a = P.canon(c[0])
            if a and a[0].endswith('response_progress') and a[1] in ('<=', '>', '<', '>='):
                L = a[2]
    if L is None:
        # the gate is there but keyed on something else: that is a violation, not a vanished anchor - the response side
        # advances response_progress on every way a response can begin (status line, or a first line taken as body), which
        # is what lets the suspended request side move again; no other field has that guarantee
        dother = [(b, i, st) for b, i, st in (gate.returns() or []) if lit_name(P.ret_value(st)) == 'HTP_DATA_OTHER']
        if not dother:
            raise AnalysisBroken('C16.g: htp_connp_REQ_CONNECT_WAIT_RESPONSE no longer returns HTP_DATA_OTHER')
        res.violated('C16.g', 'htp_connp_REQ_CONNECT_WAIT_RESPONSE:gate-reads-response_progress',
                     'the CONNECT wait gate no longer compares response_progress with a phase (guards of its HTP_DATA_OTHER return: %s): response_progress is the one field the response side moves past LINE on every way an answer can begin - also when the first line is not a status line and is taken as body; a gate keyed on anything else can keep the request side suspended for ever (DATA_OTHER with nothing consumed on every call)'
                     % [a for a, e in P.facts_at(gate, dother[0][0])], dother[0][2]['loc'])
        L = 'HTP_RESPONSE_LINE'
    else:
        res.holds('C16.g', 'htp_connp_REQ_CONNECT_WAIT_RESPONSE:gate-reads-response_progress', 'the wait gate compares response_progress with %s' % L, gate.loc)
    # the status-line state: the out_state stored together with the first store of progress = L when a response starts
    start = db.get('htp_tx_state_response_start')
    line_states = {S(x['r']) for b, i, x in P.field_writes(start, 'out_state') if x['k'] == 'assign'
                   and any(lit_name(y['r']) == L for b2, i2, y in P.field_writes(start, 'response_progress') if b2 == b)}
    if not line_states:
        raise AnalysisBroken('C16.g: htp_tx_state_response_start no longer stores the status-line state next to response_progress = %s' % L)
    n = 0
    for name, f in sorted(db.fn.items()):
        for b, i, x in P.field_writes(f, 'out_state'):
            if x['k'] != 'assign' or S(x['r']) not in line_states:
                continue
            n += 1
            isreset = lambda st: any(y['k'] == 'assign' and lit_name(y['r']) == L for y in P.assigns_field(st, 'response_progress'))
            before = any(isreset(st) for b2, i2, st in f.stmts() if (b2 == b and i2 < i) or (b2 != b and b2 in C.dominators(f).get(b, ())))
            ok, why = C.every_path_passes(f, (b, i), None, isreset)
            res.check(before or ok, 'C16.g', '%s:out_state=%s:resets-progress' % (name, S(x['r'])),
                      'response_progress = %s on every path through this store' % L,
                      'the response parser goes back to the status-line state without response_progress = %s: the gate (progress <= %s) in REQ_CONNECT_WAIT_RESPONSE is released by an interim response' % (L, L), x['loc'])
    res.floor('C16.g', 'stores of the status-line state into out_state', n, 2)


def c16j(db, res):
    """What follows a complete message in the same chunk decides what happens next (next message, stray body bytes, or - after a
    2xx answer to CONNECT - tunnel payload that the request side has to classify first). Both FINALIZE states therefore look
    at the stream before they wrap the transaction up: the completion call is reached only through the closed-stream edge or
    after the look-ahead was taken."""
    res.rule('C16.j', 'the FINALIZE states look before they complete: in htp_connp_REQ_FINALIZE / htp_connp_RES_FINALIZE every path from the entry to a completion call (htp_tx_state_*_complete*) passes the true edge of <status> == HTP_STREAM_CLOSED or a look-ahead (a store to *_next_byte)')
    n = 0
    for name, d in (('htp_connp_REQ_FINALIZE', 'in'), ('htp_connp_RES_FINALIZE', 'out')):
        f = db.get(name)
        comps = [(b, i, c) for b, i, c in f.calls() if (c.get('callee') or '').startswith('htp_tx_state_re') and '_complete' in (c.get('callee') or '')]
        for b, i, c in comps:
            n += 1
            ok = True
            witness = None
            for atoms, events, end, seq in P.enum_paths_seq(f, (f.entry, -1), stop=lambda bb, ii, st: (bb, ii) == (b, i), max_paths=50000):
                if not (end[0] == 'stop' or (end[0] == 'return' and tuple(end[1:3]) == (b, i))):
                    continue
                closed = any(a[0].endswith('%s_status' % d) and a[1] == '==' and a[2] in ('HTP_STREAM_CLOSED', '2') for a, e in atoms) or \
                    any(a[0].endswith('%s_status' % d) and a[1] == '==' and 'CLOSED' in str(a[2]) for a, e in atoms)
                peeked = any(x[0] == 'stmt' and P.assigns_field(x[3], '%s_next_byte' % d) for x in seq)
                if not (closed or peeked):
                    ok = False
                    witness = [a for a, e in atoms][-3:]
            res.check(ok, 'C16.j', '%s:%s:after-look-ahead' % (name, c.get('callee')), 'reached only on a closed stream or after the look-ahead',
                      '%s completes the transaction on a path that has not looked at what follows in the chunk (guards: %s): bytes that follow the message in the same call - after a 2xx answer to CONNECT, the first tunnel bytes - are handed to the next state as if a new message began' % (name, witness), c['loc'])
    res.floor('C16.j', 'completion calls in the FINALIZE states', n, 4)


def c16k(db, res):
    """Between a 2xx answer to CONNECT and the probe's decision the connection is neither HTTP nor tunnel: the request side
    is parked in its CONNECT states and looks at the first client bytes. The response side must not treat server bytes that
    arrive in that window as the start of a new, request-less transaction (creating one re-points in_tx and forces the request
    state machine into REQ_FINALIZE underneath the parked parser)."""
    res.rule('C16.k', 'no transaction is invented while a CONNECT is undecided: every creation of a transaction by the response side (the unmatched-response arm) is under a test that the request side is not parked in a CONNECT state (in_state against htp_connp_REQ_CONNECT_*)')
    n = 0
    for name in P.state_functions(db, 'out'):
        f = db.get(name)
        for b, i, c in f.calls('htp_connp_tx_create'):
            n += 1
            facts = [a for a, e in P.facts_at(f, b)]
            ok = any(a[0] == 'connp->in_state' and 'CONNECT' in str(a[2]) for a in facts)
            res.check(ok, 'C16.k', '%s:creates-tx:connect-undecided' % name, 'guarded by the request side\'s CONNECT states',
                      '%s creates a request-less transaction for bytes it cannot match without asking whether the request side is parked on a CONNECT (guards: %s): when the server speaks first after a 2xx answer to CONNECT its bytes start new transactions, in_tx is re-pointed under the waiting request parser and tunnel mode is never entered' % (name, facts[-2:]), c['loc'])
    res.floor('C16.k', 'transaction creations on the response side', n, 1)


SUSPENDERS = {'htp_connp_REQ_CONNECT_CHECK': 'suspends the request side after a CONNECT head', 'htp_connp_REQ_CONNECT_WAIT_RESPONSE': 'keeps it suspended until the answer is known',
              'htp_tx_state_response_complete_ex': 'the response side yields at the end of the transaction the request side waits on (C16.d)'}


def c16l(db, res):
    """The CONNECT protocol of the two state machines has exactly two suspension points on the request side and one yield on
    the response side; every request reaches the body decision THROUGH the CONNECT check (a CONNECT that announces a body is
    still a CONNECT). Two who-may rules keep it that way."""
    res.rule('C16.l', 'every request passes the CONNECT check and only the CONNECT states suspend: htp_connp_REQ_BODY_DETERMINE is stored into in_state only by htp_connp_REQ_CONNECT_CHECK; HTP_DATA_OTHER is returned only by the tabled suspension / yield points')
    n = 0
    for name, f in sorted(db.fn.items()):
        if not f.blocks:
            continue
        for b, i, w in P.field_writes(f, 'in_state'):
            if w.get('k') == 'assign' and S(w['r']).endswith('htp_connp_REQ_BODY_DETERMINE'):
                n += 1
                res.check(name == 'htp_connp_REQ_CONNECT_CHECK', 'C16.l', '%s:in_state=REQ_BODY_DETERMINE' % name, 'entered from the CONNECT check',
                          '%s sends the request side to REQ_BODY_DETERMINE without passing REQ_CONNECT_CHECK: a CONNECT that takes this way is not suspended, its tunnel bytes are parsed as a body or as new requests before any answer has been seen' % name, w['loc'])
        for b, i, st in f.returns() or []:
            rv = P.ret_value(st)
            if rv is None:
                continue
            lits = [lit_name(x) for x in nodes(rv, lambda y: y.get('k') == 'lit')] + [lit_name(rv)]
            if 'HTP_DATA_OTHER' in lits:
                n += 1
                res.check(name in SUSPENDERS, 'C16.l', '%s:returns:HTP_DATA_OTHER' % name, SUSPENDERS.get(name, ''),
                          '%s returns HTP_DATA_OTHER: outside the CONNECT states nothing ever releases a direction that asked for the other one, so every later call reports DATA_OTHER and the bytes it was offered are never parsed' % name, st['loc'])
    res.floor('C16.l', 'stores of the body-decision state and DATA_OTHER returns', n, 3)


def c16m(db, res):
    """Whether the request side waits for the answer depends on the method alone: a CONNECT is a CONNECT in HTTP/1.0 as well, with
    or without a Host header or a body."""
    res.rule('C16.m', 'a CONNECT suspends the request side whatever else the request says: in htp_connp_REQ_CONNECT_CHECK the suspension (HTP_DATA_OTHER) is guarded by request_method_number == HTP_M_CONNECT and by nothing else')
    f = db.get('htp_connp_REQ_CONNECT_CHECK')
    n = 0
    for b, i, st in f.returns() or []:
        if lit_name(P.ret_value(st)) != 'HTP_DATA_OTHER':
            continue
        n += 1
        facts = [a for a, e in P.facts_at(f, b)]
        meth = [a for a in facts if a[0].endswith('request_method_number') and a[1] == '==' and 'CONNECT' in str(a[2])]
        other = [a for a in facts if a not in meth]
        res.check(bool(meth) and not other, 'C16.m', 'htp_connp_REQ_CONNECT_CHECK:suspends-on-method-only', 'guarded by the method alone',
                  'htp_connp_REQ_CONNECT_CHECK makes the suspension depend on %s as well: a CONNECT that does not meet the extra condition is not suspended, and after a 2xx answer its tunnel bytes are parsed as requests' % other, st['loc'])
    # and the non-suspending exit is the complement: no CONNECT falls through to the body decision
    res.floor('C16.m', 'suspending returns of the CONNECT check', n, 1)


def c16n(db, res):
    """Everything the CONNECT handling does hangs on request_method_number. It is the number of the method token that was parsed,
    whatever else the request line looks like (a CONNECT without a protocol token is still a CONNECT): on every successful path
    of the request-line parser the number is taken from the table for the stored token."""
    res.rule('C16.n', 'the method number is the number of the method token: in the request-line parser every path from the store of request_method to a successful return passes request_method_number = htp_convert_method_to_number(request_method), unconditionally')
    n = 0
    for name, f in sorted(db.fn.items()):
        if not f.blocks or not name.startswith('htp_parse_request_line'):
            continue
        for b, i, w in P.field_writes(f, 'request_method'):
            if w.get('k') != 'assign':
                continue
            n += 1
            bad = None
            for atoms, events, end, seq in P.enum_paths_seq(f, (b, i), max_paths=50000):
                if end[0] != 'return' or lit_name(P.ret_value(end[3])) != 'HTP_OK':
                    continue
                ok = any(x[0] == 'stmt' and any(strip(y['r']).get('k') == 'call' and strip(y['r']).get('callee') == 'htp_convert_method_to_number' for y in P.assigns_field(x[3], 'request_method_number') if y.get('k') == 'assign') for x in seq)
                if not ok:
                    bad = end[3]
            res.check(bad is None, 'C16.n', '%s:method-number-from-the-table' % name, 'every successful path looks the stored token up',
                      '%s returns successfully on a path where request_method_number was not taken from htp_convert_method_to_number() for the stored method: a CONNECT that takes this path (one without a protocol token, say) keeps the number of an unknown method - the request side does not wait, no tunnel is set up, the payload is parsed as requests' % name, (bad or w).get('loc', f.loc))
    res.floor('C16.n', 'stores of the method token in the request-line parsers', n, 1)


def c16h(db, res):
    """The tunnel probe (and REQ_FINALIZE after a refused CONNECT) decide "plain HTTP follows" by htp_convert_method_to_number():
    every method name of its table must actually be reachable - a guard in front of the comparisons (on the length, say)
    that is false for one of the names turns a tunnelled request with that method into opaque tunnel bytes."""
    res.rule('C16.h', 'every method name compared in htp_convert_method_to_number is reachable: on the path to the return for the name N, every numeric guard on the length of the method holds for strlen(N)')
    f = db.get('htp_convert_method_to_number')
    lenterms = {'bstr_len(method)', '(*method).len', '*method.len'}
    for b, i, st in f.stmts():
        for d in nodes(st, lambda y: y.get('k') == 'decl'):
            for v in d['vars']:
                if 'init' in v and ('len' in P.K(v['init'])) and 'method' in P.K(v['init']):
                    lenterms.add(v['name'])
    n, bad = 0, []
    for atoms, events, end in P.enum_paths(f, (f.entry, -1), max_paths=5000):
        if end[0] != 'return' or lit_name(P.ret_value(end[3])) in (None, 'HTP_M_UNKNOWN'):
            continue
        # the name compared on this path with == 0
        names = []
        for (l, op, r), bb in atoms:
            if l.startswith('bstr_cmp_c(') and op == '==' and r == '0':
                cnd = f.blocks[bb]['stmts'][-1]
                for sl in nodes(cnd, lambda y: y.get('k') == 'str'):
                    names.append(sl['v'])
        if len(names) != 1:
            continue
        n += 1
        L = len(names[0])
        for (l, op, r), bb in atoms:
            if (l in lenterms or l.replace(' ', '') in lenterms) and r.lstrip('-').isdigit():
                v = int(r)
                ok = {'<': L < v, '<=': L <= v, '>': L > v, '>=': L >= v, '==': L == v, '!=': L != v}[op]
                if not ok:
                    bad.append((names[0], '%s %s %s' % (l, op, r)))
    for nm, g in bad:
        res.violated('C16.h', 'method:%s:reachable' % nm, 'the comparison with "%s" (length %d) is only reached under %s, which is false for that name: the method is reported as unknown, and a tunnelled or pipelined request that uses it is not recognised as HTTP' % (nm, len(nm), g), f.loc)
    if not bad:
        res.holds('C16.h', 'method-table:reachable', 'all %d method names are reachable under the guards in front of their comparison' % n, f.loc)
    # method tokens are case-sensitive (RFC 7230 section 3.1.1): `connect` is an extension method, not CONNECT - and what is CONNECT
    # decides whether the target is split as an authority and whether the request side suspends
    folded = [c for b_, i_, c in f.calls() if (c.get('callee') or '').startswith('bstr_cmp') and 'nocase' in (c.get('callee') or '')]
    res.check(not folded, 'C16.h', 'htp_convert_method_to_number:case-sensitive', 'method names are compared byte for byte',
              'htp_convert_method_to_number compares method names with %s: "connect" or "Connect" is taken for CONNECT, its target is split as an authority and the request side suspends for a tunnel the client never asked for' % (folded[0].get('callee') if folded else ''), (folded[0] if folded else {}).get('loc', f.loc))
    res.floor('C16.h', 'method names compared', n, 20)


# every access of a request-side function to response-side state (and vice versa) on the pinned tree, with why it is there
CROSS = {
    ('htp_connp_REQ_CONNECT_PROBE_DATA', 'out_status', 'W'): 'tunnel mode is entered for both directions together (C16.b)',
    ('htp_connp_REQ_CONNECT_PROBE_DATA', 'out_status', 'R'): 'guard of that store: a response side in ERROR or STOP keeps its final state (C09.f, D23 repair)',
    ('htp_connp_REQ_CONNECT_WAIT_RESPONSE', 'response_status_number', 'R'): 'the answer to the CONNECT decides tunnel vs HTTP',
    ('htp_connp_REQ_CONNECT_WAIT_RESPONSE', 'response_progress', 'R'): 'the CONNECT wait gate (C16.c / C16.g)',
    ('htp_connp_RES_IDLE', 'in_status', 'R'): 'the dangling request is completed from the response side only while the request direction has not reported ERROR / STOP (C09.j, D44)',
    ('htp_connp_RES_BODY_DETERMINE', 'request_method_number', 'R'): 'CONNECT / HEAD decide how the response is framed',
    ('htp_connp_RES_BODY_DETERMINE', 'request_headers', 'R'): 'Expect: 100-continue of the request',
    ('htp_connp_RES_BODY_DETERMINE', 'in_body_data_left', 'R'): 'has the request body been started (C06.e)',
    ('htp_connp_RES_BODY_DETERMINE', 'in_content_length', 'R'): 'has the request body been started (C06.e)',
    ('htp_connp_RES_BODY_DETERMINE', 'in_state', 'W'): 'a 4xx answer to Expect: 100-continue abandons the unsent request body (C06.e)',
    ('htp_connp_RES_BODY_DETERMINE', 'in_status', 'W'): 'releases or tunnels the suspended request side after the answer to CONNECT / 101 (C16.e, C09.f)',
    ('htp_connp_RES_BODY_DETERMINE', 'in_status', 'R'): 'guard of that release',
    ('htp_connp_RES_IDLE', 'in_state', 'W'): 'response without a request: the request side is put into finalisation',
    ('htp_connp_RES_IDLE', 'in_state', 'R'): 'same arm',
    ('htp_connp_RES_IDLE', 'in_tx', 'R'): 'same arm',
    ('htp_connp_RES_IDLE', 'request_uri', 'W'): 'placeholder URI of the transaction created for a response without a request (C02.a)',
    ('htp_connp_RES_IDLE', 'request_uri', 'R'): 'same arm',
    ('htp_connp_req_data', 'out_status', 'W'): 'a request chunk re-opens a response side that waits in DATA_OTHER for it',
    ('htp_connp_req_data', 'out_status', 'R'): 'guard of that store',
    ('htp_parse_request_line_generic_ex', 'response_status_expected_number', 'W'): 'the status a compliant server would answer with (an indicator computed from the request)',
    ('htp_tx_state_response_complete_ex', 'in_tx', 'R'): 'yield to a request side that waits on this transaction (C16.d)',
    ('htp_tx_state_response_complete_ex', 'in_status', 'R'): 'yield to a request side that waits on this transaction (C16.d)',
    ('htp_tx_state_response_start', 'in_state', 'R'): 'response to a request that is still being read',
    ('htp_tx_state_response_start', 'request_uri', 'R'): 'response without a usable request line',
    ('htp_tx_state_response_start', 'request_method', 'R'): 'response without a usable request line',
}


def c16i(db, res):
    """The two directions are separate state machines that meet at a handful of documented hand-over points (CONNECT, upgrade,
    Expect, a response without a request).  Every other access of a request-side function to response-side state - or the
    reverse - is a slip between twin fields (in_/out_, request_/response_): the other direction's value is read or, worse,
    written."""
    import re
    res.rule('C16.i', 'direction isolation: a function of one direction (by its name: _REQ_/_req_/request vs _RES_/_res_/response) stores to state of the other direction (in_*/request_* vs out_*/response_*) only at the tabled hand-over points, and does not read the other direction\'s twin of a field it has itself (tabled reads excepted)')

    def direction(n):
        a, b_ = re.search(r'(_REQ_|_req_|request)', n), re.search(r'(_RES_|_res_|response)', n)
        return 'in' if a and not b_ else 'out' if b_ and not a else None

    def fdir(fld):
        if fld.startswith(('in_', 'request_', 'hook_request')):
            return 'in'
        if fld.startswith(('out_', 'response_', 'hook_response')):
            return 'out'
        return None

    def twin(fld):
        for a, b_ in (('in_', 'out_'), ('request_', 'response_'), ('hook_request', 'hook_response')):
            if fld.startswith(a):
                return b_ + fld[len(a):]
            if fld.startswith(b_):
                return a + fld[len(b_):]
        return None
    allfields = {fl['name'] for u in db.units.values() for r in u['records'] if r['name'] in ('htp_connp_t', 'htp_tx_t', 'htp_cfg_t') for fl in r['fields']}
    nfn, seen = 0, set()
    for n, f in sorted(db.fn.items()):
        d = direction(n)
        if not d or not f.blocks:
            continue
        nfn += 1
        written = set()
        for b, i, st in f.stmts():
            for x in nodes(st, lambda y: y.get('k') == 'assign' or (y.get('k') == 'un' and y['op'] in ('++', '--', '++post', '--post'))):
                l = strip(x.get('l') if x['k'] == 'assign' else x['e'])
                if l is not None and l.get('k') == 'member':
                    written.add(id(l))
        for b, i, st in f.stmts():
            for m in nodes(st, lambda y: y.get('k') == 'member' and y.get('rec') in ('htp_connp_t', 'htp_tx_t', 'htp_cfg_t')):
                fd = fdir(m['field'])
                if not fd or fd == d:
                    continue
                mode = 'W' if id(m) in written else 'R'
                k = (n, m['field'], mode)
                if k in seen:
                    continue
                seen.add(k)
                key = '%s:%s:%s' % (n, m['field'], 'store' if mode == 'W' else 'read')
                if k in CROSS:
                    res.holds('C16.i', key, 'reviewed hand-over point: ' + CROSS[k], m['loc'])
                elif mode == 'W':
                    res.violated('C16.i', key, '%s is a %s-side function and stores to %s, state of the other direction, outside the reviewed hand-over points' % (n, 'request' if d == 'in' else 'response', m['field']), m['loc'])
                elif twin(m['field']) in allfields:
                    res.violated('C16.i', key, '%s is a %s-side function and reads %s although its own direction has %s: the value of the other direction is used (a slip between twin fields)' % (n, 'request' if d == 'in' else 'response', m['field'], twin(m['field'])), m['loc'])
                else:
                    res.unknown('C16.i', key, 'reads state of the other direction that has no twin on this side; not reviewed', m['loc'])
    # through helpers: the stores a callee makes (closure over the call graph; transaction/parser life-cycle functions, hook runs and
    # logging excluded - they serve both directions by design) count as the caller's
    LIFE_PREFIX = ('htp_tx_state', 'htp_tx_destroy', 'htp_tx_finalize', 'htp_connp_tx', 'htp_hook', 'htp_log', 'htp_tx_create')
    LIFE = {'htp_connp_destroy', 'htp_connp_destroy_all', 'htp_connp_close', 'htp_connp_req_close', 'htp_connp_create', 'htp_connp_open'}
    CALLS = {('htp_tx_state_request_line', 'htp_normalize_parsed_uri'): 'the status a compliant server would answer with is an indicator computed from the request'}

    def life(g):
        return g.startswith(LIFE_PREFIX) or g in LIFE
    W = {}
    for n, f in db.fn.items():
        if not f.blocks:
            continue
        w = set()
        for b, i, st in f.stmts():
            for x in nodes(st, lambda y: y.get('k') == 'assign' or (y.get('k') == 'un' and y['op'] in ('++', '--', '++post', '--post'))):
                l = strip(x.get('l') if x['k'] == 'assign' else x['e'])
                if l is not None and l.get('k') == 'member' and l.get('rec') in ('htp_connp_t', 'htp_tx_t') and (fdir(l['field']) or ('in' if l['field'].startswith('req_') else None)):
                    w.add((fdir(l['field']) or 'in', l['field']))
        W[n] = w
    E = {n: set(w) for n, w in W.items()}
    ch = True
    while ch:
        ch = False
        for n, f in db.fn.items():
            if not f.blocks:
                continue
            for b, i, c in f.calls(None):
                g = c.get('callee')
                if g in E and not life(g) and E[g] - E[n]:
                    E[n] |= E[g]
                    ch = True
    ncall = 0
    for n, f in sorted(db.fn.items()):
        d = direction(n)
        if not d or not f.blocks:
            continue
        for b, i, c in f.calls(None):
            g = c.get('callee')
            if g not in E or life(g) or direction(g) == d:
                continue
            other = sorted(x[1] for x in E[g] if x[0] != d)
            ncall += 1
            if not other:
                continue
            key = '%s:calls:%s' % (n, g)
            if (n, g) in CALLS:
                res.holds('C16.i', key, 'reviewed: ' + CALLS[(n, g)], c['loc'])
            else:
                res.violated('C16.i', key, '%s is a %s-side function and calls %s, which stores to state of the other direction (%s): what belongs to the other direction is changed or released behind its back' % (n, 'request' if d == 'in' else 'response', g, ', '.join(other[:3])), c['loc'])
    res.analysed['C16.i calls from a directional function to helpers of no or the other direction'] = ncall
    res.floor('C16.i', 'functions with a direction', nfn, 60)
    res.analysed['C16.i reviewed cross-direction accesses still present'] = len([k for k in CROSS if k in seen])
