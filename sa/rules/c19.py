"""C19 — parsers sharing a configuration are independent: non-interference by construction.
C19.a no writable global / function-local static is ever written
C19.b nothing reachable from the stream API stores through an htp_cfg_t / htp_decoder_cfg_t object
      or lets the address of one of its fields escape as a non-const pointer
C19.c nothing reachable from the stream API calls a libc function with hidden process-wide state
C19.d the hook runners iterate hooks read-only"""
from ..facts import load, S, strip, nodes, walk, root_of, is_lit, AnalysisBroken
from ..report import Result
from .. import pat as P
from .. import cfg as C
from .. import cfg as C

LEVEL = 'other'
TECHNIQUE = 'who-may-write effect analysis over the whole-library call graph (indirect calls resolved by function-pointer slot)'

CFG_RECS = {'htp_cfg_t', 'htp_decoder_cfg_t'}
# libc/POSIX functions that read or write hidden process-wide state (not reentrant / not thread-safe / global effect)
NONREENTRANT = {
    'strtok', 'rand', 'srand', 'random', 'srandom', 'drand48', 'lrand48', 'localtime', 'gmtime', 'ctime', 'asctime',
    'strerror', 'setlocale', 'getenv', 'setenv', 'putenv', 'unsetenv', 'umask', 'tmpnam', 'tempnam', 'readdir', 'getpwnam', 'getpwuid',
    'gethostbyname', 'gethostbyaddr', 'inet_ntoa', 'basename', 'dirname', 'signal', 'chdir', 'setjmp', 'longjmp', 'ttyname', 'getlogin',
    'ecvt', 'fcvt', 'gcvt', 'l64a', 'crypt', 'getopt', 'mktemp', 'strsignal', 'getdate', 'hcreate', 'hsearch', 'hdestroy', 'lgamma', 'nl_langinfo',
    'wcstombs', 'mbstowcs', 'wctomb', 'mbtowc', 'mblen', 'system', 'atexit', 'exit', 'abort', 'tzset', 'times', 'fork', 'alarm', 'sigaction', 'setrlimit',
}
# destination (written) argument positions of libc functions that write through a pointer
WRITES_ARG = {'memcpy': [0], 'memmove': [0], 'memset': [0], 'strcpy': [0], 'strncpy': [0], 'strcat': [0], 'strncat': [0], 'sprintf': [0], 'snprintf': [0],
              'vsnprintf': [0], 'strlcpy': [0], 'strlcat': [0], 'bzero': [0], 'sscanf': [2, 3, 4, 5], 'qsort': [0]}


def stream_api_roots(db):
    """Everything a user can call while parsing: every external function outside the configuration
    API (unit htp_config) plus functions whose address escapes (content handlers installed as hooks,
    allocator callbacks in global initialisers)."""
    db.slots()
    roots = [n for n, f in db.fn.items() if not f.static and f.unit != 'htp_config']
    return roots + sorted(db.escaping_fns)


def lvalues_written(st):
    """(l-value expr, node) pairs written by a root statement"""
    out = []

    def v(x, p):
        k = x.get('k')
        if k == 'assign':
            out.append((x['l'], x))
        elif k == 'un' and x['op'] in ('++', '--', '++post', '--post'):
            out.append((x['e'], x))
    walk(st, v)
    return out


# stdio calls that take a FILE*: POSIX requires every such call to behave as if bracketed by flockfile()/funlockfile(),
# the FILE object belongs to libc (not to the library or a parser), and what is printed is not a transaction or a callback.
# Only the HTP_DEBUG configuration has them (trace output to stderr).  A direct store through the stream pointer is still reported.
STDIO_LOCKED = ('fprintf', 'vfprintf', 'fputc', 'fputs', 'fwrite', 'fflush', 'putc')


def writes_through_alias(db, gname):
    """Follow the address of global `gname` through parameters, locals and record fields
    (flow-insensitive may-alias closure) and return every store made through an alias.
    Returns (write sites, holders)."""
    holders = {('g', gname)}          # ('g',name) | ('l',fn,var) | ('f',rec,field)
    writes = []

    def tainted(f, e):
        e = strip(e)
        if e is None:
            return False
        k = e.get('k')
        if k == 'var':
            return (('g', e['name']) in holders and e.get('decl') in ('global', 'static')) or ('l', f.name, e['name']) in holders
        if k == 'member':
            return ('f', e.get('rec'), e['field']) in holders or ('[' in (e.get('t') or '') and tainted(f, e['base']))
        if k == 'un' and e['op'] in ('&',):
            return tainted(f, e['e'])
        if k == 'un' and e['op'] in ('++', '--', '++post', '--post'):
            return tainted(f, e['e'])
        if k == 'index':
            return '*' in (e.get('t') or '') and tainted(f, e['base'])   # element that is itself a pointer: ignore unless pointer-typed
        if k == 'bin' and e['op'] in ('+', '-'):
            return tainted(f, e['l']) or tainted(f, e['r'])
        if k == 'cond':
            return tainted(f, e['a']) or tainted(f, e['b'])
        if k == 'assign':
            return tainted(f, e['r'])
        return False
    ch = True
    while ch:
        ch = False
        for f in db.fn.values():
            for bid, i, st in f.stmts():
                for x in nodes(st):
                    k = x['k']
                    if k == 'assign' and x['op'] == '=' and tainted(f, x['r']):
                        l = strip(x['l'])
                        h = None
                        if l.get('k') == 'var' and l.get('decl') in ('local', 'param'):
                            h = ('l', f.name, l['name'])
                        elif l.get('k') == 'member':
                            h = ('f', l.get('rec'), l['field'])
                        elif l.get('k') == 'var':
                            h = ('g', l['name'])
                        if h and h not in holders:
                            holders.add(h); ch = True
                    if k == 'decl':
                        for vv in x['vars']:
                            if 'init' in vv and tainted(f, vv['init']) and ('l', f.name, vv['name']) not in holders:
                                holders.add(('l', f.name, vv['name'])); ch = True
                    if k == 'call':
                        callee = db.fn.get(x.get('callee') or '')
                        for ai, a in enumerate(x['args']):
                            if tainted(f, a) and callee is not None and ai < len(callee.params):
                                h = ('l', callee.name, callee.params[ai]['name'])
                                if h not in holders:
                                    holders.add(h); ch = True
    for f in db.fn.values():
        for bid, i, st in f.stmts():
            for l, x in lvalues_written(st):
                l0 = strip(l)
                if l0.get('k') == 'index' and tainted(f, l0['base']):
                    writes.append((f.name, x))
                elif l0.get('k') == 'un' and l0['op'] == '*' and tainted(f, l0['e']):
                    writes.append((f.name, x))
                elif l0.get('k') == 'member' and l0.get('arrow') and tainted(f, l0['base']):
                    writes.append((f.name, x))
            for c in nodes(st, lambda y: y.get('k') == 'call'):
                cal = c.get('callee')
                if cal in WRITES_ARG:
                    for ai in WRITES_ARG[cal]:
                        if ai < len(c['args']) and tainted(f, c['args'][ai]):
                            writes.append((f.name, c))
                elif cal and cal not in db.fn and cal not in ('memcmp', 'strlen', 'strcmp', 'strncmp', 'memchr', 'strchr', 'free') + STDIO_LOCKED:
                    if any(tainted(f, a) for a in c['args']):
                        writes.append((f.name, c))
    return writes, holders


def run(repo='/repo', tier='quick'):
    res = Result('C19')
    run_one(res, load(repo), '')          # the other preprocessor configurations of the thorough tier are added by the runner (./check)
    res.assumptions += ['user callbacks do not mutate the shared configuration and keep their own state per connection',
                        "zlib's and the LZMA SDK's state is per stream object, as documented",
                        'indirect calls are resolved by slot: the set of functions ever stored into that record field (user hooks are leaves)']
    c19g(load(repo), res)
    from . import mirror
    mirror.run(load(repo), res, 'C19.f', [('htp_config_register_request_%s' % h, 'htp_config_register_response_%s' % h, None) for h in ('body_data', 'complete', 'header_data', 'headers', 'line', 'start', 'trailer', 'trailer_data')]
                               + [('htp_tx_register_request_body_data', 'htp_tx_register_response_body_data', None), ('htp_config_set_request_decompression', 'htp_config_set_response_decompression', None)])
    return res


def run_one(res, db, tag):
    res.rule('C19.a', 'no global or function-local static object is written anywhere in the library')
    res.rule('C19.b', 'no store through (and no non-const escape of) an htp_cfg_t/htp_decoder_cfg_t object in anything reachable from the stream API')
    res.rule('C19.c', 'no call to a libc function with hidden process-wide state from anything reachable from the stream API')
    res.rule('C19.d', 'htp_hook_run_all / htp_hook_run_one only read the hook and its callback list')
    cg = db.callgraph()
    roots = stream_api_roots(db)
    R = db.reach(roots)
    defined = sorted(n for n in R if n in db.fn)
    res.floor('C19', tag + 'functions reachable from the stream API', len(defined), 300)
    res.analysed[tag + 'units'] = len(db.units)
    res.analysed[tag + 'functions'] = len(db.fn)
    res.analysed[tag + 'stream-API roots'] = len(roots)
    # unresolved indirect calls: allowed only for user callbacks (fields whose slot is never filled by the library)
    user_slots = {'callback->fn', 'tx->cfg->parameter_processor'}
    for n in defined:
        for what, loc in db.unresolved.get(n, []):
            if what in user_slots or n.startswith('Lz') or n.startswith('MatchFinder') or n in ('AllocRefs',):
                res.info('C19.b', tag + 'leaf:' + n + ':' + what, 'indirect call to a user-supplied function (opaque leaf)', loc)
            else:
                res.unknown('C19.b', tag + 'indirect:' + n + ':' + what, 'indirect call with no known target; effects not analysed', loc)

    # ---- C19.a globals
    writable = [(u, g) for u, g in db.globals if not g['const']]
    res.analysed[tag + 'globals'] = len(db.globals)
    res.analysed[tag + 'writable globals'] = sorted(g['name'] for u, g in writable)
    gnames = {g['name'] for u, g in db.globals}
    nsites = 0
    for n, f in sorted(db.fn.items()):
        for bid, i, st in f.stmts():
            for l, x in lvalues_written(st):
                r = root_of(l)
                if r is not None and r.get('k') == 'var' and r.get('decl') in ('global', 'static'):
                    res.violated('C19.a', tag + '%s:write:%s' % (f.name, r['name']), 'store to global/static object `%s`: %s' % (r['name'], S(x)[:120]), x['loc'])
            for c in nodes(st, lambda y: y.get('k') == 'call'):
                cal = c.get('callee')
                callee = db.fn.get(cal) if cal else None
                for ai, a in enumerate(c['args']):
                    a0 = strip(a)
                    if a0 is None:
                        continue
                    isaddr = a0.get('k') == 'un' and a0['op'] == '&'
                    r = root_of(a0)
                    if r is None or r.get('k') != 'var' or r.get('decl') not in ('global', 'static'):
                        continue
                    # value use of a scalar global is a read; pointer to it (address-of, or array decay) may be written through
                    isarr = '[' in (r.get('t') or '') or '*' in (a0.get('t') or '')
                    if not (isaddr or isarr):
                        continue
                    nsites += 1
                    if callee is not None and ai < len(callee.params):
                        pt = callee.params[ai]['t']
                        ok = pt.startswith('const ') and pt.count('*') == 1
                    elif cal in WRITES_ARG:
                        ok = ai not in WRITES_ARG[cal]
                    else:
                        ok = cal in ('memcmp', 'strlen', 'strcmp', 'strncmp', 'memchr', 'strchr', 'fprintf', 'crc32')
                    g = next((g for u, g in db.globals if g['name'] == r['name']), None)
                    if g is not None and g['const']:
                        res.holds('C19.a', tag + '%s:passes:%s' % (f.name, r['name']), 'const object `%s` passed to %s' % (r['name'], cal), c['loc'])
                    elif ok:
                        res.holds('C19.a', tag + '%s:passes:%s' % (f.name, r['name']), 'global `%s` passed to a pointer-to-const parameter of %s' % (r['name'], cal), c['loc'])
                    elif callee is not None:
                        ws, holders = writes_through_alias(db, r['name'])
                        if ws:
                            for fn2, x in ws:
                                res.violated('C19.a', tag + '%s:write-through-alias:%s' % (fn2, r['name']), 'store through an alias of global `%s`: %s' % (r['name'], S(x)[:120]), x['loc'])
                        else:
                            res.holds('C19.a', tag + '%s:escapes:%s' % (f.name, r['name']),
                                      'address of writable global `%s` escapes into %s; followed through %d aliases (parameters, locals, record fields): none is ever stored through'
                                      % (r['name'], cal, len(holders)), c['loc'], aliases=sorted(map(str, holders)))
                    else:
                        res.violated('C19.a', tag + '%s:escapes:%s' % (f.name, r['name']), 'writable global `%s` escapes to a non-const parameter of %s' % (r['name'], cal or S(c.get('fnexpr'))), c['loc'])
    # every writable global and every function-local static: follow its address through locals, parameters and record fields,
    # whether it first escapes as a call argument (above) or by being assigned to a pointer (`p = table;`)
    statics = {}
    for n, f in sorted(db.fn.items()):
        for bid, i, st in f.stmts():
            for v in nodes(st, lambda y: y.get('k') == 'var' and y.get('decl') == 'static'):
                if 'const' not in (v.get('t') or '').split('*')[0]:
                    statics.setdefault(v['name'], f.name)
    for gname in sorted({g['name'] for u, g in writable} | set(statics)):
        if any(o['rule'] == 'C19.a' and o['status'] == 'VIOLATED' and o['key'].endswith(':' + gname) for o in res.obs):
            continue
        ws, holders = writes_through_alias(db, gname)
        for fn2, x in ws:
            res.violated('C19.a', tag + '%s:write-through-alias:%s' % (fn2, gname), 'store through an alias of the %s object `%s`: %s - the object is shared by every parser in the process' % ('function-local static' if gname in statics else 'global', gname, S(x)[:120]), x['loc'])
    res.analysed[tag + 'function-local statics'] = sorted(statics)
    for u, g in db.globals:
        key = tag + 'global:' + g['name']
        if not any(o['rule'] == 'C19.a' and o['status'] == 'VIOLATED' and o['key'].endswith(':' + g['name']) for o in res.obs):
            res.holds('C19.a', key, ('const object' if g['const'] else 'writable object, but no store and no non-const escape anywhere in the library') +
                      (' (function-local static in %s)' % g.get('in_function') if g.get('static_local') else ''), g.get('loc', ''))

    # ---- C19.b / C19.c over the reachable set
    ncalls = 0
    for n in defined:
        f = db.fn[n]
        for bid, i, st in f.stmts():
            for l, x in lvalues_written(st):
                ms = [m for m in nodes(l) if m.get('k') == 'member' and m.get('rec') in CFG_RECS]
                if ms:
                    res.violated('C19.b', tag + '%s:store:%s' % (n, ms[0]['field']),
                                 'store through the configuration object: %s (reachable from the stream API)' % S(x)[:120], x['loc'])
            for c in nodes(st, lambda y: y.get('k') == 'call'):
                ncalls += 1
                cal = c.get('callee')
                if cal in NONREENTRANT:
                    res.violated('C19.c', tag + '%s:calls:%s' % (n, cal), 'call to %s(), which has hidden process-wide state, reachable from the stream API' % cal, c['loc'])
                callee = db.fn.get(cal) if cal else None
                for ai, a in enumerate(c['args']):
                    a0 = strip(a)
                    if a0 is None or not (a0.get('k') == 'un' and a0['op'] == '&'):
                        continue
                    ms = [m for m in nodes(a0['e']) if m.get('k') == 'member' and m.get('rec') in CFG_RECS]
                    if not ms:
                        continue
                    if callee is not None and ai < len(callee.params) and callee.params[ai]['t'].startswith('const '):
                        continue
                    res.violated('C19.b', tag + '%s:escape:%s' % (n, ms[0]['field']),
                                 'address of a configuration field passed to a non-const parameter: %s' % S(c)[:120], c['loc'])
        # memcpy/memset with a cfg-typed destination
        for bid, i, c in f.calls():
            if c.get('callee') in WRITES_ARG:
                for ai in WRITES_ARG[c['callee']]:
                    if ai < len(c['args']):
                        t = (strip(c['args'][ai]) or {}).get('t', '')
                        if any(r in t for r in CFG_RECS):
                            res.violated('C19.b', tag + '%s:%s-into-cfg' % (n, c['callee']), 'bulk write into a configuration object: %s' % S(c)[:120], c['loc'])
    res.analysed[tag + 'call sites in reachable set'] = ncalls
    cfgw = sorted({n for n, f in db.fn.items() for bid, i, st in f.stmts() for l, x in lvalues_written(st)
                   if any(m.get('k') == 'member' and m.get('rec') in CFG_RECS for m in nodes(l))})
    res.analysed[tag + 'functions that write configuration fields (all outside the reachable set unless reported)'] = len(cfgw)
    res.floor('C19.b', tag + 'configuration setters seen (positive control: the store pattern matches)', len(cfgw), 40)
    inter = [n for n in cfgw if n in R]
    if not inter:
        res.holds('C19.b', tag + 'reachable-set', '%d functions reachable from %d stream-API roots contain no store through a configuration object; the %d writers are all configuration-API only'
                  % (len(defined), len(roots), len(cfgw)))
    if not any(o['rule'] == 'C19.c' and o['status'] == 'VIOLATED' and o['key'].startswith(tag) for o in res.obs):
        res.holds('C19.c', tag + 'reachable-set', 'no call to a function of the non-reentrant list in %d reachable functions' % len(defined))
    ext = sorted(n for n in R if n not in db.fn)
    res.analysed[tag + 'external callees of the reachable set'] = ext

    # ---- C19.e a private copy of the configuration shares no hook object with the original
    res.rule('C19.e', 'htp_config_copy deep-copies every hook of htp_cfg_t: for each hook field F, copy->F = htp_hook_copy(cfg->F) under the test cfg->F != NULL (same field three times)')
    cp = db.get('htp_config_copy')
    rec = db.records.get('htp_cfg_t')
    hooks = [x['name'] for x in rec['fields'] if 'htp_hook_t' in x['t']]
    res.floor('C19.e', tag + 'hook fields of htp_cfg_t', len(hooks), 20)
    copied = {}
    for b, i, st in cp.stmts():
        for a in nodes(st, lambda y: y.get('k') == 'assign' and y['op'] == '=' and strip(y['l']).get('k') == 'member' and strip(y['l']).get('rec') == 'htp_cfg_t'):
            l = strip(a['l'])
            r = strip(a['r'])
            if l['field'] in hooks:
                src = strip(r['args'][0]) if r.get('k') == 'call' and r.get('callee') == 'htp_hook_copy' and r['args'] else None
                guard = [f_ for f_, e in __import__('sa.pat', fromlist=['x']).facts_at(cp, b) if f_[1] == '!=' and f_[2] == '0' and '->hook_' in f_[0]]
                copied[l['field']] = (src.get('field') if src is not None and src.get('k') == 'member' else None, [g[0].split('->')[-1] for g in guard], a)
    for h in hooks:
        key = tag + 'htp_config_copy:' + h
        if h not in copied:
            res.violated('C19.e', key, 'hook %s is not deep-copied by htp_config_copy: a private configuration keeps pointing at the shared hook list (registering on the copy mutates the shared configuration; destroying it frees the shared hook)' % h, cp.loc)
            continue
        src, guards, a = copied[h]
        ok = src == h and h in guards
        res.check(ok, 'C19.e', key, 'copy->%s = htp_hook_copy(cfg->%s) under cfg->%s != NULL' % (h, h, h),
                  'the copy of %s is taken from %s under the guard(s) %s: when the guard does not match, the private configuration keeps the shared hook pointer' % (h, src, guards), a['loc'])

    # ---- C19.d hook runners
    for hn in ('htp_hook_run_all', 'htp_hook_run_one'):
        f = db.get(hn)
        bad = []
        for bid, i, st in f.stmts():
            for l, x in lvalues_written(st):
                r = root_of(l)
                if strip(l).get('k') != 'var':   # any store that is not to a plain local
                    bad.append((x, 'store ' + S(x)[:100]))
            for c in nodes(st, lambda y: y.get('k') == 'call'):
                cal = c.get('callee')
                if cal is None:
                    continue   # the callback itself
                if cal not in ('htp_list_array_size', 'htp_list_array_get'):
                    bad.append((c, 'call ' + cal))
        if bad:
            for x, w in bad:
                res.violated('C19.d', tag + hn + ':' + w.split('(')[0][:60], '%s is not read-only on the hook: %s' % (hn, w), x['loc'])
        else:
            res.holds('C19.d', tag + hn, 'only htp_list_size/htp_list_get and the callback are called; no store other than to locals', f.loc)


def c19g(db, res):
    """The private copy of a hook must not share state with the original: htp_hook_copy() builds a fresh hook and registers
    every callback of the source on it, so that registering on the copy never touches the shared configuration's list.
    htp_tx_set_config() keeps the ownership flag in step with the pointer, so that a shared configuration is never destroyed
    by a transaction and a private one is destroyed exactly when it is replaced."""
    res.rule('C19.g', 'hook copies are deep and configuration ownership is tracked: htp_hook_copy() creates a fresh hook, registers callback->fn of every element i in [0, size) of the source on the copy (never on the source) and returns the copy; htp_tx_set_config() destroys the old configuration only under is_config_shared == PRIVATE and stores pointer and flag together')
    f = db.get('htp_hook_copy')
    src = f.params[0]['name']
    cp = P.local_init_from(f, lambda e: e is not None and e.get('k') == 'call' and e.get('callee') == 'htp_hook_create')
    regs = f.calls('htp_hook_register')
    ok = bool(cp) and len(regs) == 1
    if ok:
        b, i, c = regs[0]
        a0 = strip(c['args'][0])
        on_copy = a0.get('k') == 'un' and a0['op'] == '&' and P.K(a0['e']) == cp
        fn_of_elem = P.K(c['args'][1]).endswith('->fn')
        lp = [body for h, body in C.loops(f) if b in body]
        # the loop runs over every element: counter from 0, bound = size of the source list
        bound = any(fc and (P.canon(fc[0]) or ('', '', ''))[1] == '<' for bb in (lp[0] if lp else []) for fc in [f.cond_of(bb)])
        size_of_src = any(c2.get('callee') == 'htp_list_array_size' and src in P.K(c2['args'][0]) for bb, ii, c2 in f.calls('htp_list_array_size'))
        elem_from_src = any(src in P.K(c2['args'][0]) for bb, ii, c2 in f.calls('htp_list_array_get'))
        rets = [st for bb, ii, st in f.returns() if not is_lit(P.ret_value(st), 0)]
        ret_copy = bool(rets) and all(P.K(P.ret_value(st)) == cp for st in rets)
        ok = on_copy and fn_of_elem and bool(lp) and bound and size_of_src and elem_from_src and ret_copy
        why = 'registers on %s' % P.K(a0) if not on_copy else 'does not register the element\'s fn' if not fn_of_elem else 'not in a loop over the whole source list' if not (lp and bound and size_of_src and elem_from_src) else 'does not return the copy'
    else:
        why = 'no fresh hook / not exactly one registration'
    res.check(ok, 'C19.g', 'htp_hook_copy:deep', 'fresh hook; every callback of the source registered on the copy; copy returned',
              'htp_hook_copy is not a deep copy any more (%s): a transaction that registers a callback on its private configuration changes the shared one, or loses callbacks' % why, f.loc)
    g = db.get('htp_tx_set_config')
    dst = g.calls('htp_config_destroy')
    okd = len(dst) == 1 and any(a == ('tx->is_config_shared', '==', 'HTP_CONFIG_PRIVATE') for a, e in P.facts_at(g, dst[0][0]))
    wp = P.field_writes(g, 'cfg')
    wf = P.field_writes(g, 'is_config_shared')
    together = len(wp) == 1 and len(wf) == 1 and wp[0][0] == wf[0][0] and P.K(wp[0][2]['r']) == g.params[1]['name'] and P.K(wf[0][2]['r']) == g.params[2]['name']
    res.check(okd and together, 'C19.g', 'htp_tx_set_config:ownership', 'the old configuration is destroyed only when private; pointer and ownership flag are stored together from the arguments',
              'htp_tx_set_config %s' % ('destroys the configuration it replaces without knowing that it is private (a shared configuration is freed under the other parsers)' if not okd else 'does not store the configuration pointer and its ownership flag together from its arguments'), g.loc)

    # ... and wherever a transaction destroys its configuration it is because the ownership flag says PRIVATE (not inferred from pointers)
    n = 0
    for name, f in sorted(db.fn.items()):
        for b, i, c in f.calls('htp_config_destroy'):
            a = strip(c['args'][0])
            if a.get('k') != 'member' or a.get('field') != 'cfg' or a.get('rec') != 'htp_tx_t':
                continue
            n += 1
            ok = any(x[0].endswith('is_config_shared') and x[1] == '==' and x[2] == 'HTP_CONFIG_PRIVATE' for x, e in P.facts_at(f, b))
            res.check(ok, 'C19.g', '%s:destroys-tx-cfg:only-when-private' % name, 'under is_config_shared == HTP_CONFIG_PRIVATE',
                      '%s destroys the transaction\'s configuration without the ownership flag saying PRIVATE: a configuration installed as SHARED (one per virtual host, used by many connections) is freed with the first transaction that used it' % name, c['loc'])
    res.floor('C19.g', 'destructions of a transaction configuration', n, 2)
