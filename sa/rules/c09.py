"""C09 — stream API contract (DESIGN.md §4.9)."""
from ..facts import load, S, strip, nodes, walk, is_lit, lit_name, AnalysisBroken
from ..report import Result
from .. import cfg as C
from .. import pat as P

TECHNIQUE = 'dominance / edge-dominance rules and a path-enumerated decision table over the two driver functions; guard facts at every state-function return'

DRIVERS = {'in': 'htp_connp_req_data', 'out': 'htp_connp_res_data'}
STREAM_RET = {'HTP_STREAM_CLOSED', 'HTP_STREAM_ERROR', 'HTP_STREAM_TUNNEL', 'HTP_STREAM_DATA_OTHER', 'HTP_STREAM_STOP', 'HTP_STREAM_DATA'}
STATUS = {'HTP_ERROR': -1, 'HTP_DECLINED': 0, 'HTP_OK': 1, 'HTP_DATA': 2, 'HTP_DATA_OTHER': 3, 'HTP_STOP': 4, 'HTP_DATA_BUFFER': 5}


def dispatch_sites(db, fn, d):
    """statements of the driver that run a state function (indirect call through the state slot)"""
    out = []
    fld = 'in_state' if d == 'in' else 'out_state'
    for bid, i, st in fn.stmts():
        for c in nodes(st, lambda y: y.get('k') == 'call' and 'fnexpr' in y):
            if P.member_field(c['fnexpr']) == fld:
                out.append((bid, i, st))
    return out


def is_effect(st, allow_calls=('htp_log', 'fprintf', 'fprint_raw_data', 'fprint_raw_data_ex', 'fprint_bstr')):      # log and (debug configuration) trace output are not parsing effects
    """does the statement write through a pointer / record or call anything other than allow_calls?"""
    for x in nodes(st):
        if x['k'] == 'assign' and strip(x['l']).get('k') != 'var':
            return 'store ' + S(x)[:80]
        if x['k'] == 'un' and x['op'] in ('++', '--', '++post', '--post') and strip(x['e']).get('k') != 'var':
            return 'store ' + S(x)[:80]
        if x['k'] == 'call' and x.get('callee') not in allow_calls:
            return 'call ' + (x.get('callee') or S(x.get('fnexpr')))
    return None


def run(repo='/repo', tier='quick'):
    res = Result('C09')
    db = load(repo)
    res.rule('C09.a', 'sticky STOP/ERROR: the entry tests of both drivers dominate every store and every call other than htp_log, and return the matching constant')
    res.rule('C09.b', 'every return of a driver is one of the documented stream states')
    res.rule('C09.c', 'rc -> stream-state decision table of the post-dispatch region (path enumeration), status assigned == value returned')
    res.rule('C09.d', 'a state function returns HTP_DATA / HTP_DATA_BUFFER only when the chunk is exhausted')
    res.rule('C09.e', 'consumed-count accessors return the read offset; the byte counter is bumped by len exactly once on every accepting path')
    for d, dn in DRIVERS.items():
        fn = db.get(dn)
        st_field = 'in_status' if d == 'in' else 'out_status'
        skey = 'connp->' + st_field
        # ---------------- C09.a
        for const in ('HTP_STREAM_STOP', 'HTP_STREAM_ERROR'):
            guards = []
            for bid in fn.blocks:
                c = fn.cond_of(bid)
                if not c:
                    continue
                a = P.canon(c[0], True)
                if a and a[0] == skey and a[2] == const and a[1] in ('==', '!='):
                    guards.append((bid, a[1]))
            key = '%s:%s-guard' % (dn, const)
            if not guards:
                res.violated('C09.a', key, 'no test of %s against %s in %s' % (skey, const, dn), fn.loc)
                continue
            # the guard must be taken on the entry value: no effect before it
            gb, gop = guards[0]
            stuck_succ = 0 if gop == '==' else 1
            # (1) every effect statement lies on the not-stuck edge
            bad = None
            neffects = 0
            for bid, i, st in fn.stmts():
                e = is_effect(st)
                if not e:
                    continue
                # effects inside the stuck arm itself are checked in (2)
                stuck_blocks = C.edge_dominated(fn).get((gb, stuck_succ), set())
                if bid in stuck_blocks:
                    continue
                neffects += 1
                ok = any(a == (skey, '!=', const) for a, dd in P.facts_at(fn, bid))
                if not ok:
                    bad = (st, e)
                    break
            if bad:
                res.violated('C09.a', key, '%s in %s is not dominated by the %s != %s test: a direction that reported %s would run it again'
                             % (bad[1], dn, skey, const, const), bad[0]['loc'])
            else:
                res.holds('C09.a', key, '%d effect statements of %s all lie on the false edge of (%s == %s)' % (neffects, dn, skey, const), fn.blocks[gb]['stmts'][-1]['loc'])
            # (2) the stuck arm returns the same constant and does nothing but log
            paths = P.enum_paths(fn, (fn.blocks[gb]['succs'][stuck_succ], -1))
            ok = True
            for atoms, events, end in paths:
                if end[0] != 'return' or lit_name(P.ret_value(end[3])) != const:
                    ok = False
                    res.violated('C09.a', key + ':arm', 'the %s arm of %s does not return %s' % (const, dn, const), events[-1][2]['loc'] if events else fn.loc)
                for b2, i2, st2 in events:
                    e = is_effect(st2)
                    if e:
                        ok = False
                        res.violated('C09.a', key + ':arm', 'the %s arm of %s has an effect: %s' % (const, dn, e), st2['loc'])
            if ok:
                res.holds('C09.a', key + ':arm', 'stuck arm only logs and returns %s' % const, fn.blocks[gb]['stmts'][-1]['loc'])

        # ---------------- C09.b
        rets = fn.returns()
        res.floor('C09.b', 'returns of ' + dn, len(rets), 8)
        for bid, i, st in rets:
            nm = lit_name(P.ret_value(st))
            res.check(nm in STREAM_RET, 'C09.b', '%s:return:%s' % (dn, nm or S(st)), 'returns ' + str(nm), 'returns %s, which is not a documented stream state' % S(st), st['loc'])

        # ---------------- C09.c decision table
        sites = dispatch_sites(db, fn, d)
        res.floor('C09.c', 'dispatch sites in ' + dn, len(sites), 2)
        # all dispatch sites join into the post-dispatch region: enumerate from each
        off = 'connp->%s_current_read_offset' % d
        ln = 'connp->%s_current_len' % d
        buf = 'htp_connp_%s_buffer(connp)' % ('req' if d == 'in' else 'res')
        seen_rows = {}
        for sb, si, sst in sites:
            for atoms, events, end, pseq in P.enum_paths_seq(fn, (sb, si)):
                # abstract rc: the set of status values consistent with the rc-atoms seen *after the last assignment to rc*
                vals = set(STATUS.values()) | {'other'}
                exhausted = None
                buffer_failed = None
                tunnel = None
                last_status = None
                seq = [('stmt', x[3]) if x[0] == 'stmt' else ('atom', x[1]) for x in pseq]
                for kind, x in seq:
                    if kind == 'stmt':
                        for asg in nodes(x, lambda y: y.get('k') == 'assign' and P.K(y['l']) == 'rc'):
                            vals = set(STATUS.values()) | {'other'}   # rc = htp_req_handle_state_change(...)
                        for asg in P.assigns_field(x, st_field, '='):
                            last_status = lit_name(asg['r'])
                    else:
                        l, op, r = x
                        if l == 'rc' and r in STATUS:
                            v = STATUS[r]
                            vals = {v} & vals if op == '==' else vals - {v} if op == '!=' else vals
                        elif l == off and r == ln and op in ('>=', '<'):
                            exhausted = (op == '>=')
                        elif l == buf and r == 'HTP_OK':
                            buffer_failed = (op == '!=')
                        elif l == skey and r == 'HTP_STREAM_TUNNEL':
                            tunnel = (op == '==')
                if not vals:
                    continue   # infeasible combination of rc tests
                if end[0] != 'return':
                    # loops back to the dispatcher: only legal when rc == OK
                    row = ('loop', tuple(sorted(map(str, vals))))
                    okk = vals == {1}
                    seen_rows[row] = okk
                    if not okk:
                        res.violated('C09.c', '%s:continue-with-rc' % dn, 'the driver loop continues with rc in %s (only HTP_OK may continue)' % sorted(map(str, vals)), fn.loc)
                    continue
                ret = lit_name(P.ret_value(end[3]))
                for v in vals:
                    if tunnel:
                        exp = 'HTP_STREAM_TUNNEL'
                    elif v in (2, 5):
                        exp = 'HTP_STREAM_ERROR' if (v == 5 and buffer_failed) else 'HTP_STREAM_DATA'
                    elif v == 3:
                        exp = 'HTP_STREAM_DATA' if exhausted else 'HTP_STREAM_DATA_OTHER'
                        if exhausted is None:
                            exp = 'needs-exhaustion-test'
                    elif v == 4:
                        exp = 'HTP_STREAM_STOP'
                    elif v == 1:
                        exp = 'never-returns-on-OK'
                    else:
                        exp = 'HTP_STREAM_ERROR'
                    row = (str(v), exhausted, buffer_failed, bool(tunnel), ret, last_status)
                    okk = (ret == exp) and (tunnel or last_status == ret)
                    if row in seen_rows:
                        continue
                    seen_rows[row] = okk
                    vname = next((n for n, vv in STATUS.items() if vv == v), 'any other value')
                    key = '%s:rc=%s%s%s' % (dn, vname, '' if exhausted is None else (':exhausted' if exhausted else ':not-exhausted'), ':buffer-failed' if buffer_failed else '')
                    if okk:
                        res.holds('C09.c', key, 'rc=%s -> status=%s, return %s' % (vname, last_status, ret), end[3]['loc'])
                    else:
                        res.violated('C09.c', key, 'rc=%s%s: driver sets status %s and returns %s, expected %s' % (
                            vname, '' if exhausted is None else (' (chunk exhausted)' if exhausted else ' (chunk not exhausted)'), last_status, ret, exp), end[3]['loc'])
        res.floor('C09.c', 'decision rows of ' + dn, len(seen_rows), 9)
        # DATA_BUFFER must reach the buffer routine
        bufname = 'htp_connp_%s_buffer' % ('req' if d == 'in' else 'res')
        calls = fn.calls(bufname)
        okb = False
        for bid, i, c in calls:
            if any(a == ('rc', '==', 'HTP_DATA_BUFFER') for a, dd in P.facts_at(fn, bid)):
                okb = True
        res.check(okb, 'C09.c', dn + ':DATA_BUFFER-buffers', 'the HTP_DATA_BUFFER arm calls %s' % bufname,
                  'no call of %s under rc == HTP_DATA_BUFFER: unconsumed bytes would be lost' % bufname, fn.loc)

        # ---------------- C09.e
        acc = db.get('htp_connp_%s_data_consumed' % ('req' if d == 'in' else 'res'))
        rr = acc.returns()
        okacc = len(rr) == 1 and P.member_field(P.ret_value(rr[0][2])) == '%s_current_read_offset' % d
        res.check(okacc, 'C09.e', acc.name, 'returns %s_current_read_offset' % d, 'does not return the read offset: ' + (S(rr[0][2]) if rr else 'no return'), acc.loc)
        track = 'htp_conn_track_%s_data' % ('inbound' if d == 'in' else 'outbound')
        tf = db.get(track)
        cnt = '%s_data_counter' % d
        w = P.field_writes(tf, cnt)
        okw = len(w) == 1 and w[0][2].get('op') == '+=' and P.K(w[0][2]['r']) == tf.params[1]['name']
        res.check(okw, 'C09.e', track + ':adds-len', '%s += %s' % (cnt, tf.params[1]['name']), 'byte counter is not incremented by the length argument exactly once', tf.loc)
        # ... on every path of the tracker except the one that has no connection to count on
        nb, badt = 0, None
        for atoms, events, end, seq in P.enum_paths_seq(tf, (tf.entry, -1)):
            nb += 1
            counted = any(x[0] == 'stmt' and P.assigns_field(x[3], cnt) for x in seq)
            noconn = any(a == (tf.params[0]['name'], '==', '0') for a, bb in atoms)
            if not counted and not noconn:
                badt = [a for a, bb in atoms]
        res.check(badt is None and nb > 0, 'C09.e', track + ':counts-on-every-path', 'every path with a connection adds the length',
                  '%s returns without counting on a path that has a connection (%s): chunks offered under that condition are missing from %s' % (track, badt, cnt), tf.loc)
        others = [(n, x) for n, f in db.fn.items() if n != track for b_, i_, x in P.field_writes(f, cnt)]
        res.check(not others, 'C09.e', cnt + ':single-writer', 'only %s writes %s' % (track, cnt),
                  '%s is also written in %s' % (cnt, ', '.join(n for n, x in others)), others[0][1]['loc'] if others else '')
        # exactly once with the driver's own len on every path that accepts the chunk (reaches a dispatch site or the tunnel return after the chunk is stored)
        store = [(b_, i_) for b_, i_, x in P.field_writes(fn, '%s_current_len' % d)]
        if not store:
            res.violated('C09.e', dn + ':stores-chunk', 'driver no longer stores the chunk length', fn.loc)
        else:
            npaths = 0
            bad = None
            target_blocks = {sb for sb, si, sst in sites}
            for atoms, events, end in P.enum_paths(fn, (fn.entry, -1), stop=lambda b_, i_, s_: b_ in target_blocks):
                stored = any(P.assigns_field(s_, '%s_current_len' % d) for b_, i_, s_ in events)
                if not stored:
                    continue
                npaths += 1
                tc = [c for b_, i_, s_ in events for c in nodes(s_, lambda y: y.get('k') == 'call' and y.get('callee') == track)]
                if len(tc) != 1 or P.K(tc[0]['args'][1]) != fn.params[3]['name']:
                    bad = (events[-1][2], len(tc))
            if bad:
                res.violated('C09.e', dn + ':counts-once', 'a path that accepts the chunk calls %s %d times (or not with the chunk length)' % (track, bad[1]), bad[0]['loc'])
            else:
                res.holds('C09.e', dn + ':counts-once', '%d accepting paths each call %s(conn, len) exactly once' % (npaths, track), fn.loc)

        # a call that leaves before the chunk is counted reports ERROR, STOP or CLOSED - never a state that accepts the bytes
        nb4 = 0
        badr = None
        for atoms, events, end in P.enum_paths(fn, (fn.entry, -1), stop=lambda b_, i_, s_: any(c.get('callee') == track for c in nodes(s_, lambda y: y.get('k') == 'call'))):
            if end[0] != 'return':
                continue
            nb4 += 1
            rv = lit_name(P.ret_value(end[3]))
            if rv not in ('HTP_STREAM_ERROR', 'HTP_STREAM_STOP', 'HTP_STREAM_CLOSED'):
                badr = (end[3], rv or S(P.ret_value(end[3])))
        res.check(badr is None and nb4 > 0, 'C09.e', dn + ':uncounted-exits', 'the %d exits in front of %s report ERROR, STOP or CLOSED' % (nb4, track),
                  '%s returns %s before %s() has counted the chunk: the bytes of that call were offered (and, for TUNNEL/DATA, accepted) but never reach the connection\'s byte counter' % (dn, badr and badr[1], track), badr[0]['loc'] if badr else fn.loc)

    c09f(db, res)
    c09d(db, res)
    if tier == 'thorough':
        from .. import typestate
        typestate.check_sticky(db, res, 'C09.g')
    res.assumptions += ['callbacks return only documented htp_status_t codes', 'liveness (no endless DATA_OTHER ping-pong) is not decided']
    from . import mirror
    mirror.run(db, res, 'C09.h', [('htp_conn_track_inbound_data', 'htp_conn_track_outbound_data', None), ('htp_connp_req_data_consumed', 'htp_connp_res_data_consumed', None),
                                  ('htp_req_handle_state_change', 'htp_res_handle_state_change', None)])
    from . import errdisc
    errdisc.run(db, res, 'C09.i')
    return res


def c09d(db, res):
    """every return of HTP_DATA / HTP_DATA_BUFFER in a state function happens with the chunk exhausted"""
    total = 0
    for d in ('in', 'out'):
        off = 'connp->%s_current_read_offset' % d
        ln = 'connp->%s_current_len' % d
        nb = 'connp->%s_next_byte' % d
        sfs = P.state_functions(db, d)
        res.floor('C09.d', 'state functions (%s)' % d, len(sfs), 10)
        helpers = ['htp_connp_REQ_LINE_complete'] if d == 'in' else []
        for name in sfs + helpers:
            fn = db.get(name)
            for bid, i, st in fn.returns():
                nm = lit_name(P.ret_value(st))
                if nm not in ('HTP_DATA', 'HTP_DATA_BUFFER'):
                    continue
                total += 1
                key = '%s:return-%s@%s' % (name, nm, _site(fn, bid))
                facts = [a for a, dd in P.facts_at(fn, bid)]
                why = None
                # (i) directly on the failed edge of read_offset < len
                for a, dd in P.facts_at(fn, bid):
                    if a == (off, '>=', ln):
                        if not P.written_between(fn, dd, bid, i, lambda k: k in (off, ln)):
                            why = 'on the edge %s >= %s' % (off, ln)
                # (ii) after a peek that yielded -1 (only assigned on the exhausted edge)
                if not why and (nb, '==', '-1') in facts:
                    if _minus1_only_when_exhausted(fn, d):
                        why = 'next_byte == -1, which is assigned only on the edge %s >= %s' % (off, ln)
                # (iii) bulk-consume template: bytes == 0 with bytes = min(left, len - off), or after consuming with left != 0
                if not why:
                    why = _bulk_reason(fn, bid, i, d, facts)
                if why:
                    res.holds('C09.d', key, 'returns %s %s' % (nm, why), st['loc'])
                elif name == 'htp_connp_REQ_LINE_complete' and ('len', '==', '0') in facts:
                    res.holds('C09.d', key, 'returns HTP_DATA for an empty line at stream close (consolidated length 0: nothing is pending in this chunk)', st['loc'])
                else:
                    res.violated('C09.d', key, '%s returns %s on a path where the chunk is not known to be exhausted: the driver would report DATA with unread bytes' % (name, nm), st['loc'])
    res.floor('C09.d', 'HTP_DATA/HTP_DATA_BUFFER returns in state functions', total, 25)


def _site(fn, bid):
    """a line-number-free description of a return site: the nearest guarding facts"""
    fs = [a for a, dd in P.facts_at(fn, bid)]
    return '|'.join('%s%s%s' % a for a in fs[-2:]) if fs else 'entry'


def _minus1_only_when_exhausted(fn, d):
    off = 'connp->%s_current_read_offset' % d
    ln = 'connp->%s_current_len' % d
    for bid, i, x in P.field_writes(fn, '%s_next_byte' % d):
        if x['k'] == 'assign' and is_lit(x['r'], -1):
            if not any(a == (off, '>=', ln) for a, dd in P.facts_at(fn, bid)):
                return False
    return True


def _bulk_reason(fn, bid, i, d, facts):
    """bulk-consume template, decided per path: the function is loop free; on every path from entry to this
    return either `n == 0` for the local n = min(left, len - off) (or n = len - off), or `off += n` was
    executed and, when a remaining-length exists, `left != 0` holds afterwards (so n was everything available)."""
    off = 'connp->%s_current_read_offset' % d
    ln = 'connp->%s_current_len' % d
    avail = '(%s - %s)' % (ln, off)
    defs = {}
    for b_, i_, st in fn.stmts():
        for x in nodes(st, lambda y: y.get('k') == 'assign' and y['op'] == '=' and strip(y['l']).get('k') == 'var'):
            defs.setdefault(strip(x['l'])['name'], []).append((b_, P.K(x['r'])))
        for x in nodes(st, lambda y: y.get('k') == 'decl'):
            for v in x['vars']:
                if 'init' in v:
                    defs.setdefault(v['name'], []).append((b_, P.K(v['init'])))
    for var, ds in defs.items():
        rhs = [r for b_, r in ds]
        if avail not in rhs:
            continue
        others = [(b_, r) for b_, r in ds if r != avail]
        left = None
        if others:
            if len(others) != 1:
                continue
            ob, left = others[0]
            if not any(a == (avail, '>=', left) for a, dd in P.facts_at(fn, ob)):
                continue
        try:
            paths = P.enum_paths_seq(fn, (fn.entry, -1), max_paths=500)
        except AnalysisBroken:
            return None
        ok = True
        n = 0
        for atoms, events, end, seq in paths:
            if end[0] != 'return' or (end[1], end[2]) != (bid, i):
                continue
            n += 1
            zero = any(a == (var, '==', '0') for a, bb in atoms)
            consumed = False
            left_nonzero = left is None
            for x in seq:
                if x[0] == 'stmt':
                    for w in P.assigns_field(x[3], '%s_current_read_offset' % d):
                        if w.get('op') == '+=' and P.K(w['r']) == var:
                            consumed = True
                elif consumed and left is not None and x[1] == (left, '!=', '0'):
                    left_nonzero = True
            if not (zero or (consumed and left_nonzero)):
                ok = False
        if ok and n:
            if left:
                return 'on all %d paths either %s == 0 or %s += %s was executed with %s != 0 afterwards, where %s = min(%s, %s)' % (n, var, off, var, left, var, left, avail)
            return 'on all %d paths either %s == 0 or everything available was consumed (%s = %s)' % (n, var, var, avail)
    return None


def c09f(db, res):
    """sticky states are never overwritten from outside the direction's own parser"""
    res.rule('C09.f', 'ERROR and STOP are sticky: every assignment to a direction\'s status made outside that direction\'s own driver / state functions is guarded by status != ERROR and status != STOP (or by a test for a specific non-final value)')
    n = 0
    for d in ('in', 'out'):
        fld = '%s_status' % d
        own = set(P.state_functions(db, d)) | {DRIVERS[d], 'htp_connp_create', 'htp_connp_open'}
        for name, f in sorted(db.fn.items()):
            if name in own:
                continue
            for b, i, x in P.field_writes(f, fld):
                n += 1
                key_l = P.K(x['l'])
                facts = [a for a, e in P.facts_at(f, b) if a[0] == key_l]
                specific = any(a[1] == '==' and a[2] not in ('HTP_STREAM_ERROR', 'HTP_STREAM_STOP') for a in facts)
                ne = any(a[1] == '!=' and a[2] == 'HTP_STREAM_ERROR' for a in facts)
                ns = any(a[1] == '!=' and a[2] == 'HTP_STREAM_STOP' for a in facts)
                key = '%s:%s=%s' % (name, fld, lit_name(x['r']) or P.K(x['r']))
                if specific or (ne and ns):
                    res.holds('C09.f', key, 'guarded against overwriting a final state', x['loc'])
                else:
                    missing = [s for s, ok in (('HTP_STREAM_ERROR', ne), ('HTP_STREAM_STOP', ns)) if not ok]
                    # the instance names what is not tested, so that a recorded "STOP is not tested" does not cover a later "nothing is tested"
                    key += ':unguarded-against:' + '+'.join(m.replace('HTP_STREAM_', '') for m in missing)
                    res.violated('C09.f', key, '%s overwrites %s without testing it against %s: a direction that reported %s is revived and later calls run parsing callbacks again'
                                 % (name, key_l, ' / '.join(missing), ' / '.join(m.replace('HTP_STREAM_', '') for m in missing)), x['loc'])
    res.floor('C09.f', 'status writes outside the owning direction', n, 4)
    # ---- C09.j: the other direction's callbacks are not run for a direction that has reported ERROR or STOP
    res.rule('C09.j', 'a final direction stays silent also when the other side drives: every call of a request-side transition (htp_tx_state_request_*) made from a response-side function, and vice versa, is guarded by that direction\'s status != ERROR and != STOP on a dominating edge')
    nj = 0
    for d, side, other in (('in', 'request', 'out'), ('out', 'response', 'in')):
        st_fld = 'connp->%s_status' % d
        callers = set(P.state_functions(db, other)) | {DRIVERS[other]}
        for name in sorted(callers):
            f = db.get(name)
            for b, i, c in f.calls():
                cal = c.get('callee') or ''
                if not cal.startswith('htp_tx_state_%s_' % side):
                    continue
                nj += 1
                facts = [a for a, e in P.facts_at(f, b) if a[0] == st_fld]
                ne = any(a[1] == '!=' and a[2] == 'HTP_STREAM_ERROR' for a in facts)
                ns = any(a[1] == '!=' and a[2] == 'HTP_STREAM_STOP' for a in facts)
                specific = any(a[1] == '==' and a[2] not in ('HTP_STREAM_ERROR', 'HTP_STREAM_STOP') for a in facts)
                missing = [s_ for s_, ok in (('ERROR', ne), ('STOP', ns)) if not ok]
                key = '%s:calls:%s' % (name, cal)
                if specific or not missing:
                    res.holds('C09.j', key, 'guarded by %s' % st_fld, c['loc'])
                else:
                    res.violated('C09.j', key + ':unguarded-against:' + '+'.join(missing), '%s (the %s side) calls %s, which runs %s callbacks, without testing %s against %s: after the %s direction has reported ERROR or STOP its callbacks are run again from the other direction\'s data call'
                                 % (name, 'response' if other == 'out' else 'request', cal, side, st_fld, ' / '.join(missing), side), c['loc'])
    res.floor('C09.j', 'cross-direction transition calls', nj, 1)
