"""C11 — framing and host ambiguities are always flagged (DESIGN.md §4.11)."""
from ..facts import load, S, strip, nodes, is_lit, lit_name, AnalysisBroken
from ..report import Result
from .. import cfg as C
from .. import pat as P

TECHNIQUE = 'decision tables extracted by path enumeration over the arbitration regions, checked row by row against the statement (untested trigger atoms count as possibly true); flag namespaces: every tested flag has a raise site'


def effects_of(seq, coding_field):
    flags, coding = set(), None
    for x in seq:
        if x[0] != 'stmt':
            continue
        for a in nodes(x[3], lambda y: y.get('k') == 'assign'):
            if a['op'] == '|=' and P.member_field(a['l']) == 'flags' or (a['op'] == '|=' and P.K(a['l']) == '*flags'):
                nm = lit_name(a['r'])
                if nm:
                    flags.add(nm)
            if a['op'] == '=' and P.member_field(a['l']) == coding_field:
                coding = lit_name(a['r'])
    return flags, coding


def status(atom, facts, implied_false=()):
    """True / False / None(untested) for a canonical atom on a path"""
    if atom in facts:
        return True
    neg = (atom[0], P.NEG[atom[1]], atom[2])
    if neg in facts:
        return False
    # numeric refinement: (x >= K) etc. are only matched literally
    for pre in implied_false:
        if pre in facts:
            return False
    return None


def region_paths(fn, start_pred, stop_pred):
    start = None
    for b, i, st in fn.stmts():
        if start_pred(st):
            start = (b, i)
            break
    if start is None:
        raise AnalysisBroken('table region start not found in ' + fn.name)
    return P.enum_paths_seq(fn, (start[0], start[1] - 1), stop=lambda bb, ii, s: stop_pred(bb, ii, s), max_paths=20000), start


def check_rows(res, rule, fname, paths, rows, coding_field, exact_flags, sig_atoms):
    """rows: list of (name, trigger [(atom, implied_false_by...)], required flags, required coding)"""
    npaths = 0
    for atoms, events, end, seq in paths:
        if end[0] not in ('return', 'stop'):
            continue                                       # cut at a loop back edge: the same blocks are covered by the path that leaves the loop
        facts = [a for a, bb in atoms]
        if end[0] == 'return':
            rv = P.ret_value(end[3])
            if lit_name(rv) == 'HTP_ERROR' or (rv is not None and rv.get('k') == 'var' and (rv['name'], '!=', 'HTP_OK') in facts):
                continue                                   # allocation / helper failure exits
        npaths += 1
        flags, coding = effects_of(seq, coding_field)
        sig = ','.join('%s%s' % ('' if status(a, facts) else '!', n) for n, a in sig_atoms if status(a, facts) is not None)
        possible_for_flag = {f: False for f in exact_flags}
        for name, trig, rflags, rcoding in rows:
            sts = [status(a, facts, imp) for a, imp in trig]
            if any(s is False for s in sts):
                continue
            for f in rflags:
                if f in possible_for_flag:
                    possible_for_flag[f] = True
            untested = [a for (a, imp), s in zip(trig, sts) if s is None]
            missing = [f for f in rflags if f not in flags]
            badc = rcoding is not None and coding != rcoding
            key = '%s:row[%s]:path[%s]' % (fname, name, sig)
            if missing or badc:
                res.violated(rule, key, 'row "%s": on the path [%s] the trigger %s but %s%s' % (
                    name, sig, 'holds' if not untested else 'is not excluded (the code never tests %s there)' % ', '.join('%s %s %s' % a for a in untested),
                    ('flag(s) %s are not raised' % ', '.join(missing)) if missing else '', (' transfer coding is %s, expected %s' % (coding, rcoding)) if badc else ''),
                    end[3]['loc'] if len(end) > 3 else '', path_facts=[str(a) for a in facts])
            else:
                res.holds(rule, key, 'row "%s" on path [%s]: %s%s' % (name, sig, ', '.join(rflags), (' coding=' + rcoding) if rcoding else ''), end[3]['loc'] if len(end) > 3 else '')
        for f in flags:
            if f in possible_for_flag and not possible_for_flag[f]:
                res.violated(rule, '%s:invented[%s]:path[%s]' % (fname, f, sig), 'flag %s is raised on the path [%s] where no row of the statement can apply' % (f, sig), end[3]['loc'] if len(end) > 3 else '')
    return npaths


def run(repo='/repo', tier='quick'):
    res = Result('C11')
    db = load(repo)
    res.rule('C11.a', 'request T-E / C-L arbitration table of htp_tx_process_request_headers, row by row')
    res.rule('C11.h', 'Host determination table (missing / ambiguous) of htp_tx_process_request_headers; invalid-host raise sites')
    res.rule('C11.r', 'response arm (RES_BODY_DETERMINE): T-E chunked with C-L, and repeated C-L, raise the smuggling indicator; chunked frames the body')
    res.rule('C11.b', 'every flag constant that some condition tests has a raise site in the same flag word')
    res.rule('C11.c', 'a repeated header line always leaves HTP_FIELD_REPEATED on the stored header (also when the repetition cap drops the line)')
    f = db.get('htp_tx_process_request_headers')
    te = P.table_lookup_local(f, 'transfer-encoding')
    cl = P.table_lookup_local(f, 'content-length')
    hh = P.table_lookup_local(f, 'host')
    if not (te and cl and hh):
        raise AnalysisBroken('the Transfer-Encoding / Content-Length / Host lookups were not found in htp_tx_process_request_headers')
    TE = (te, '!=', '0')
    CL = (cl, '!=', '0')
    tok = None
    for b in f.blocks:
        c = f.cond_of(b)
        if c and (P.canon(c[0]) or ('',))[0].startswith('htp_header_has_token(') and '"chunked"' in P.canon(c[0])[0]:
            tok = P.canon(c[0])[0]
    if tok is None:
        raise AnalysisBroken('the chunked-token test was not found in htp_tx_process_request_headers')
    CHUNKED = (tok, '==', 'HTP_OK')
    OLD = ('tx->request_protocol_number', '<', 'HTP_PROTOCOL_1_1')
    FOLDED = ('(%s->flags & HTP_FIELD_FOLDED)' % cl, '!=', '0')
    REP = ('(%s->flags & HTP_FIELD_REPEATED)' % cl, '!=', '0')
    BADCL = ('tx->request_content_length', '<', '0')
    noCL = [(cl, '==', '0')]
    noTE = [(te, '==', '0')]
    rows = [
        ('T-E chunked + C-L => SMUGGLING, chunked framing', [(TE, []), (CHUNKED, noTE), (CL, [])], ['HTP_REQUEST_SMUGGLING'], 'HTP_CODING_CHUNKED'),
        ('T-E chunked => chunked framing', [(TE, []), (CHUNKED, noTE)], [], 'HTP_CODING_CHUNKED'),
        ('T-E chunked below HTTP/1.1 => SMUGGLING, INVALID_T_E', [(TE, []), (CHUNKED, noTE), (OLD, [])], ['HTP_REQUEST_SMUGGLING', 'HTP_REQUEST_INVALID_T_E'], None),
        ('more than one C-L => SMUGGLING', [(CL, []), (REP, noCL)], ['HTP_REQUEST_SMUGGLING'], None),
        ('folded C-L => SMUGGLING', [(CL, []), (FOLDED, noCL)], ['HTP_REQUEST_SMUGGLING'], None),
        ('unparseable C-L (no T-E) => INVALID_C_L, INVALID, invalid framing', [((te, '==', '0'), []), (CL, []), (BADCL, noCL)], ['HTP_REQUEST_INVALID_C_L', 'HTP_REQUEST_INVALID'], 'HTP_CODING_INVALID'),
        ('unsupported T-E => INVALID_T_E, INVALID, invalid framing', [(TE, []), ((tok, '!=', 'HTP_OK'), noTE)], ['HTP_REQUEST_INVALID_T_E', 'HTP_REQUEST_INVALID'], 'HTP_CODING_INVALID'),
    ]
    paths, start = region_paths(f, lambda st: any(v['name'] == te for d in nodes(st, lambda y: y.get('k') == 'decl') for v in d['vars']),
                                lambda bb, ii, s: (P.canon(s) or ('',))[0] == 'tx->request_transfer_coding' and f.cond_of(bb) is not None and f.blocks[bb]['stmts'][-1] is s)
    sig = [('te', TE), ('chunked', CHUNKED), ('cl', CL), ('old-proto', OLD), ('repeated', REP), ('folded', FOLDED), ('bad-cl', BADCL)]
    n = check_rows(res, 'C11.a', f.name, paths, rows, 'request_transfer_coding',
                   ['HTP_REQUEST_SMUGGLING', 'HTP_REQUEST_INVALID_T_E', 'HTP_REQUEST_INVALID_C_L'], sig)
    res.floor('C11.a', 'paths through the T-E/C-L region', n, 8)
    # the lookups that define te / cl
    for var, hname in ((te, 'transfer-encoding'), (cl, 'content-length')):
        ok = False
        for b, i, st in f.stmts():
            for d in nodes(st, lambda y: y.get('k') == 'decl'):
                for v in d['vars']:
                    if v['name'] == var and 'init' in v:
                        c = strip(v['init'])
                        ok = c.get('callee') == 'htp_table_get_c' and P.K(c['args'][0]) == 'tx->request_headers' and strip(c['args'][1]).get('v') == hname
        res.check(ok, 'C11.a', '%s:%s-lookup' % (f.name, var), '%s is the case-folding lookup of "%s" in the request headers' % (var, hname),
                  '%s is no longer htp_table_get_c(tx->request_headers, "%s")' % (var, hname), f.loc)
    # ---- Host table
    H0 = (hh, '==', '0')
    NEW = ('tx->request_protocol_number', '>=', 'HTP_PROTOCOL_1_1')
    HV = ('hostname', '!=', '0')
    UH = ('tx->request_hostname', '!=', '0')
    DIFF = ('bstr_cmp_nocase(hostname, tx->request_hostname)', '!=', '0')
    P1 = ('tx->request_port_number', '!=', '-1')
    P2 = ('port', '!=', '-1')
    P3 = ('tx->request_port_number', '!=', 'port')
    hrows = [
        ('no Host on HTTP/1.1 => HOST_MISSING', [(H0, []), (NEW, [])], ['HTP_HOST_MISSING'], None),
        ('URI host and valid header host differ => HOST_AMBIGUOUS', [((hh, '!=', '0'), []), (HV, [H0]), (UH, []), (DIFF, [H0, ('hostname', '==', '0'), ('tx->request_hostname', '==', '0')])], ['HTP_HOST_AMBIGUOUS'], None),
        ('URI port and header port differ => HOST_AMBIGUOUS', [((hh, '!=', '0'), []), (HV, [H0]), (UH, []), (P1, [H0]), (P2, [H0]), (P3, [H0])], ['HTP_HOST_AMBIGUOUS'], None),
        ('invalid header host with URI host => HOST_AMBIGUOUS', [((hh, '!=', '0'), []), (('hostname', '==', '0'), [H0]), (UH, [])], ['HTP_HOST_AMBIGUOUS'], None),
    ]
    hpaths, hstart = region_paths(f, lambda st: any(v['name'] == hh for d in nodes(st, lambda y: y.get('k') == 'decl') for v in d['vars']),
                                  lambda bb, ii, s: any(v['name'] == 'ct' for d in nodes(s, lambda y: y.get('k') == 'decl') for v in d['vars']))
    hsig = [('no-host', H0), ('http1.1', NEW), ('hdr-valid', HV), ('uri-host', UH), ('names-differ', DIFF), ('uport', P1), ('hport', P2), ('ports-differ', P3)]
    n = check_rows(res, 'C11.h', f.name, hpaths, hrows, 'request_transfer_coding', ['HTP_HOST_MISSING', 'HTP_HOST_AMBIGUOUS'], hsig)
    res.floor('C11.h', 'paths through the Host region', n, 6)
    ok = False
    for b, i, st in f.stmts():
        for d in nodes(st, lambda y: y.get('k') == 'decl'):
            for v in d['vars']:
                if v['name'] == hh and 'init' in v:
                    c = strip(v['init'])
                    ok = c.get('callee') == 'htp_table_get_c' and strip(c['args'][1]).get('v') == 'host'
    res.check(ok, 'C11.h', f.name + ':host-lookup', 'h is the case-folding lookup of "host"', 'h is no longer htp_table_get_c(..., "host")', f.loc)
    # request_hostname is taken from the URI first
    # invalid-host indicators: raise sites under the validation results
    for fname, flag, hn in (('htp_parse_header_hostport', 'HTP_HOSTH_INVALID', '*hostname'), ('htp_parse_uri_hostport', 'HTP_HOSTU_INVALID', 'uri->hostname'), ('htp_tx_state_request_line', 'HTP_HOSTU_INVALID', 'tx->parsed_uri->hostname')):
        g = db.get(fname)
        sites = [(b, a) for b, i, st in g.stmts() for a in nodes(st, lambda y: y.get('k') == 'assign' and y['op'] == '|=' and lit_name(y['r']) == flag)]
        byinv = any(('invalid', '!=', '0') in [x for x, e in P.facts_at(g, b)] for b, a in sites)
        byval = any(('htp_validate_hostname(%s)' % hn, '==', '0') in [x for x, e in P.facts_at(g, b)] for b, a in sites)
        if fname != 'htp_tx_state_request_line':
            res.check(byinv, 'C11.h', '%s:%s:syntax' % (fname, flag), 'raised when the host:port syntax is invalid', '%s is no longer raised under the parser\'s invalid indication' % flag, g.loc)
        if fname == 'htp_tx_state_request_line':
            # ... whoever supplied parsed_uri (the parser or, in hybrid mode, the application): the validating call is not inside the
            # arm that builds parsed_uri
            vb = [b for b, i, c in g.calls('htp_validate_hostname')]
            dep = any(a[0].endswith('parsed_uri') and a[2] == '0' for b in vb for a, e in P.facts_at(g, b))
            res.check(bool(vb) and not dep, 'C11.h', '%s:%s:for-supplied-uri-too' % (fname, flag), 'the validation does not depend on who built parsed_uri',
                      'the request-target host is validated only when the library built parsed_uri itself: a URI supplied with htp_tx_req_set_parsed_uri() is never checked and %s is not raised for it' % flag, g.loc)
        res.check(byval, 'C11.h', '%s:%s:validation' % (fname, flag), 'raised when htp_validate_hostname() rejects the name', '%s is no longer raised when htp_validate_hostname(%s) == 0' % (flag, hn), g.loc)
        # the validation result must be tested whenever a hostname exists
    # ---- response arm
    r = db.get('htp_connp_RES_BODY_DETERMINE')
    rte = P.table_lookup_local(r, 'transfer-encoding')
    rcl = P.table_lookup_local(r, 'content-length')
    if not (rte and rcl):
        raise AnalysisBroken('the Transfer-Encoding / Content-Length lookups were not found in htp_connp_RES_BODY_DETERMINE')
    TE, CL, noTE, noCL = (rte, '!=', '0'), (rcl, '!=', '0'), [(rte, '==', '0')], [(rcl, '==', '0')]
    rtok = None
    for b in r.blocks:
        c = r.cond_of(b)
        if c and (P.canon(c[0]) or ('',))[0].startswith('bstr_index_of_c_nocasenorzero(%s->value' % rte):
            rtok = P.canon(c[0])
    if rtok is None:
        res.violated('C11.r', r.name + ':chunked-test', 'the response side no longer searches Transfer-Encoding for "chunked"', r.loc)
    else:
        RCH = (rtok[0], '!=', '-1')
        RREP = ('(%s->flags & HTP_FIELD_REPEATED)' % rcl, '!=', '0')
        rrows = [
            ('response T-E chunked + C-L => SMUGGLING, chunked framing', [(TE, []), (RCH, noTE), (CL, [])], ['HTP_REQUEST_SMUGGLING'], 'HTP_CODING_CHUNKED'),
            ('response T-E chunked => chunked framing', [(TE, []), (RCH, noTE)], [], 'HTP_CODING_CHUNKED'),
            ('response more than one C-L (no chunked T-E) => SMUGGLING', [((rtok[0], '==', '-1'), []), (CL, []), (RREP, noCL)], ['HTP_REQUEST_SMUGGLING'], None),
        ]
        start_b = [b for b in r.blocks if r.cond_of(b) and P.canon(r.cond_of(b)[0]) == ('connp->out_state', '!=', 'htp_connp_RES_FINALIZE')]
        if not start_b:
            raise AnalysisBroken('body-present test not found in RES_BODY_DETERMINE')
        tb = r.blocks[start_b[0]]['succs'][0]
        rp = P.enum_paths_seq(r, (tb, -1), stop=lambda bb, ii, s: any(c.get('callee') == 'htp_tx_state_response_headers' for c in nodes(s, lambda y: y.get('k') == 'call')), max_paths=20000)
        rsig = [('te', TE), ('chunked', RCH), ('cl', CL), ('repeated', RREP)]
        # on the te == NULL edge the chunked search is not evaluated: treat it as "not chunked"
        rp2 = []
        for atoms, events, end, seq in rp:
            facts = [a for a, bb in atoms]
            if (rte, '==', '0') in facts:
                atoms = atoms + [((rtok[0], '==', '-1'), -1)]
            rp2.append((atoms, events, end, seq))
        n = check_rows(res, 'C11.r', r.name, rp2, rrows, 'response_transfer_coding', [], rsig)
        res.floor('C11.r', 'paths through the response framing region', n, 4)

    # ---- C11.b tested flags are raised
    tested, raised = {}, {}

    def ns_of(l):
        l = strip(l)
        if l.get('k') == 'member':
            return (l.get('rec'), l['field'])
        if l.get('k') == 'un' and l['op'] == '*':
            return ('*param', P.K(l['e']))
        return None
    for fn in db.fn.values():
        for b, i, st in fn.stmts():
            for x in nodes(st, lambda y: y.get('k') == 'bin' and y['op'] == '&'):
                nm = lit_name(x['r'])
                ns = ns_of(x['l'])
                if nm and ns and nm.startswith('HTP_') and fn.cond_of(b) is not None and st is fn.blocks[b]['stmts'][-1]:
                    tested.setdefault((ns, nm), []).append((fn.name, x['loc']))
            for x in nodes(st, lambda y: y.get('k') == 'assign' and y['op'] in ('|=', '=')):
                ns = ns_of(x['l'])
                if not ns:
                    continue
                for l in nodes(x['r'], lambda y: y.get('k') == 'lit' and (y.get('name') or '').startswith('HTP_')):
                    raised.setdefault((ns, l['name']), []).append((fn.name, x['loc']))
    ntested = 0
    for (ns, nm), sites in sorted(tested.items(), key=str):
        if ns[1] != 'flags' and ns[0] != '*param':
            continue
        ntested += 1
        ok = (ns, nm) in raised or (ns[0] == 'htp_tx_t' and any(k[0][0] == '*param' and k[1] == nm for k in raised))
        res.check(ok, 'C11.b', 'tested-flag:%s.%s:%s' % (ns[0], ns[1], nm), 'has a raise site',
                  '%s is tested in %s.%s (%s) but no statement in the library ever raises it in that word: the condition it guards can never fire' % (nm, ns[0], ns[1], ', '.join(sorted({s[0] for s in sites}))), sites[0][1])
    res.floor('C11.b', 'tested flag constants', ntested, 6)
    # ---- C11.c
    for side, d in (('request', 'in'), ('response', 'out')):
        g = db.get('htp_process_%s_header_generic' % side)
        n = 0
        bad = None
        for atoms, events, end, seq in P.enum_paths_seq(g, (g.entry, -1)):
            facts = [a for a, bb in atoms]
            if ('h_existing', '!=', '0') not in facts or end[0] != 'return':
                continue
            n += 1
            setrep = any(x[0] == 'stmt' and any(a['op'] == '|=' and lit_name(a['r']) == 'HTP_FIELD_REPEATED' and P.K(a['l']) == 'h_existing->flags' for a in nodes(x[3], lambda y: y.get('k') == 'assign')) for x in seq)
            already = ('(h_existing->flags & HTP_FIELD_REPEATED)', '!=', '0') in facts
            if not (setrep or already):
                bad = end[3]
        res.check(bad is None and n > 0, 'C11.c', g.name + ':repeated-bookkeeping', 'all %d paths that found an existing header leave HTP_FIELD_REPEATED on it' % n,
                  'a path that found an existing header returns without HTP_FIELD_REPEATED set on it: a second Content-Length would not be flagged', (bad or {}).get('loc', g.loc))
        c = [c for b, i, c in g.calls() if c.get('callee', '').startswith('htp_table_get')]
        res.check(bool(c) and all(x['callee'] in ('htp_table_get', 'htp_table_get_c', 'htp_table_get_mem') for x in c), 'C11.c', g.name + ':lookup', 'existing header is found through the case-folding table getters',
                  'the duplicate lookup no longer uses the case-folding getters', g.loc)
    res.assumptions += ['robustness of the token / number parsers to the spelling of header values is not decided (values)',
                        'row "unparseable C-L" is scoped to messages without Transfer-Encoding (with T-E the C-L is ignored by design and the first sentence of the statement applies)']
    c11i(db, res)
    c11j(db, res)
    c11k(db, res)
    return res


def c11i(db, res):
    """"chunked" is looked for as a member of the comma-separated Transfer-Encoding list. The matcher keeps an offset into the
    token it compares with; whenever it gives up on a member (state "wait for the next comma") the offset has to go back to 0,
    otherwise the next member is compared from the middle of the token and a real `chunked` after `chunkedx,` is missed - the
    request is then framed by Content-Length and not flagged."""
    res.rule('C11.i', 'the list-member matcher restarts with every member: in htp_header_has_token every store that puts the scanner into the wait-for-separator state is accompanied (same block) by the reset of the comparison offset, or every store of the start state is')
    f = db.get('htp_header_has_token')
    # the comparison offset: the local that subscripts the token (the last parameter)
    tok = f.params[-1]['name']
    offs = set()
    for b in f.blocks:
        exprs = list(f.blocks[b]['stmts']) + ([f.cond_of(b)[0]] if f.cond_of(b) else [])
        for e_ in exprs:
            for x in nodes(e_, lambda y: y.get('k') == 'index' and strip(y['base']).get('k') == 'var' and strip(y['base'])['name'] == tok and strip(y['idx']).get('k') == 'var'):
                offs.add(strip(x['idx'])['name'])
    # the state local: the switch operand
    sv = None
    for b, blk in f.blocks.items():
        if blk.get('term', {}).get('kind') == 'SwitchStmt' and blk['stmts']:
            e = strip(blk['stmts'][-1])
            if e is not None and e.get('k') == 'var':
                sv = e['name']
    if sv is None or len(offs) != 1:
        raise AnalysisBroken('htp_header_has_token: state local / comparison offset not found (%s, %s)' % (sv, sorted(offs)))
    off = sorted(offs)[0]

    def resets(b):
        return any(a['op'] == '=' and strip(a['l']).get('k') == 'var' and strip(a['l'])['name'] == off and is_lit(strip(a['r']), 0) for st in f.blocks[b]['stmts'] for a in nodes(st, lambda y: y.get('k') == 'assign'))
    stores = {}
    for b, i, st in f.stmts():
        for a in nodes(st, lambda y: y.get('k') == 'assign' and y['op'] == '=' and strip(y['l']).get('k') == 'var' and strip(y['l'])['name'] == sv and strip(y['r']).get('k') == 'lit'):
            stores.setdefault(strip(a['r'])['v'], []).append((b, a))
    wait = [v for v in stores if v not in (0, 2)]
    n = 0
    all_start_reset = bool(stores.get(0)) and all(resets(b) for b, a in stores.get(0, []))
    for v in wait:
        for b, a in stores[v]:
            n += 1
            res.check(resets(b) or all_start_reset, 'C11.i', 'htp_header_has_token:%s=%d@%s' % (sv, v, '|'.join('%s%s%s' % x for x, e in P.facts_at(f, b)[-1:])), '%s = 0 with the state change' % off,
                      'htp_header_has_token gives up on a list member (%s = %d) without %s = 0: the next member is compared from the middle of the token, so "chunked" after a member that merely starts with it ("chunkedx, chunked") is not found and the request is neither framed by the chunked coding nor flagged' % (sv, v, off), a['loc'])
    res.floor('C11.i', 'stores of the wait-for-separator state', n, 2)


def c11j(db, res):
    """Header lookups (Transfer-Encoding, Content-Length, Host) are by name. The field name ends at the last byte that is not
    linear white space before the colon - however many blanks there are, so the trim is a loop."""
    res.rule('C11.j', 'the field name is trimmed to its last non-blank byte: in both generic header parsers the boundary of the name is moved back inside a loop whose condition tests the byte in front of it for white space')
    n = 0
    for name in ('htp_parse_request_header_generic', 'htp_parse_response_header_generic'):
        f = db.get(name)
        ok = False
        for h, body in C.loops(f):
            dec = any(u for bb in body for st in f.blocks[bb]['stmts'] for u in nodes(st, lambda y: y.get('k') == 'un' and y['op'] in ('--', '--post') and strip(y['e']).get('k') == 'var' and strip(y['e'])['name'] == 'name_end'))
            tests = any((c2.get('callee') in ('htp_is_lws', 'htp_is_space')) for bb in body if f.cond_of(bb) for c2 in nodes(f.cond_of(bb)[0], lambda y: y.get('k') == 'call'))
            if dec and tests:
                ok = True
        n += 1
        res.check(ok, 'C11.j', name + ':name-trim-loop', 'name_end is moved back in a loop over trailing white space',
                  '%s no longer trims the field name in a loop: with two or more blanks before the colon the name keeps trailing white space and the lookups of Transfer-Encoding, Content-Length and Host miss the field - no smuggling / ambiguity indicator is raised' % name, f.loc)
    res.floor('C11.j', 'generic header parsers', n, 2)


def c11k(db, res):
    """The host of the request target is compared with the Host field after normalisation, and validated after it. Normalisation
    lower-cases and drops trailing dots - nothing else: a normaliser that also drops (decoded) white space makes
    "www.example.com%20" equal to the Host field and valid, so neither the invalid-host nor the ambiguity indicator is raised."""
    res.rule('C11.k', 'hostname normalisation shortens the name only by trailing dots: in htp_normalize_hostname_inplace every bstr_chop / bstr_adjust_len is on the true edge of a test of the last byte against \'.\'')
    f = db.get('htp_normalize_hostname_inplace')
    n = 0
    for b, i, c in f.calls():
        if c.get('callee') not in ('bstr_chop', 'bstr_adjust_len', 'bstr_util_adjust_len'):
            continue
        n += 1
        facts = [a for a, e in P.facts_at(f, b)]
        ok = any(a[1] == '==' and a[2] in ('46', "'.'") for a in facts)
        res.check(ok, 'C11.k', 'htp_normalize_hostname_inplace:%s' % c.get('callee'), 'under a test of the last byte against a dot',
                  'htp_normalize_hostname_inplace shortens the hostname without having tested its last byte against a dot (guards: %s): bytes other than trailing dots vanish before the name is validated and compared with the Host field' % facts[-2:], c['loc'])
    res.floor('C11.k', 'shortening calls in the hostname normaliser', n, 1)
