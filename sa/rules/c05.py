"""C05 — transaction lifecycle (DESIGN.md §4.5). Quick tier: at-most-once guards and completion/detach
atomicity (dominance, path enumeration). Thorough tier adds the typestate exploration (sa/typestate.py)."""
from ..facts import load, S, strip, nodes, is_lit, lit_name, AnalysisBroken
from ..report import Result
from .. import cfg as C
from .. import pat as P

TECHNIQUE = 'dominance / must-pass-through rules on the completion functions; who-may-run rule for the three completion hooks; (thorough) finite typestate abstraction of the two state machines extracted from the code'


def hook_sites(db, hook):
    out = []
    for n, f in sorted(db.fn.items()):
        for b, i, st in f.stmts():
            for h, c in P.hook_runs(st):
                if h == hook:
                    out.append((f, b, i, c))
    return out


def assigned_before_on_all_paths(fn, b, i, field, const):
    """every path from entry to statement (b, i) passes `…->field = const` (must-pass-through, backward via forward cut)"""
    hit = [False]

    def visit(bb, ii, st):
        if (bb, ii) == (b, i):
            hit[0] = True
            return True
        for x in P.assigns_field(st, field, '='):
            if lit_name(x['r']) == const:
                return True
        return False
    C.forward(fn, (fn.entry, -1), visit)
    return not hit[0]


def run(repo='/repo', tier='quick'):
    res = Result('C05')
    db = load(repo)
    res.rule('C05.a', 'REQUEST_COMPLETE / RESPONSE_COMPLETE / TRANSACTION_COMPLETE hooks are run at one site each, after the progress field is set to COMPLETE, under a dominating "not yet COMPLETE" test')
    res.rule('C05.b', 'completion is atomic with detaching the transaction from its direction: no path leaves a completion function with progress COMPLETE and the tx still attached (other than propagating a hook error)')
    res.rule('C05.d', 'progress fields are only assigned enum constants, never decremented; the only backward assignment is the documented 100-continue restart')
    # ---------------- C05.a
    for hook, prog, const in (('hook_request_complete', 'request_progress', 'HTP_REQUEST_COMPLETE'), ('hook_response_complete', 'response_progress', 'HTP_RESPONSE_COMPLETE')):
        sites = hook_sites(db, hook)
        if not sites:
            res.violated('C05.a', hook + ':run-site', 'no site runs %s' % hook)
        for f, b, i, c in sites:
            key = '%s:%s' % (hook, f.name)
            set_before = assigned_before_on_all_paths(f, b, i, prog, const)
            guarded_here = any(a[0].endswith(prog) and a[1] == '!=' and a[2] == const for a, e in P.facts_at(f, b))
            if not set_before:
                res.violated('C05.a', key, '%s is run on a path where %s has not been set to %s first: re-entry would deliver it again' % (hook, prog, const), c['loc'])
                continue
            if guarded_here:
                res.holds('C05.a', key, 'run inside the (%s != %s) arm after the assignment' % (prog, const), c['loc'])
                continue
            # guard must be at every internal call site of f
            callers = db.callers(f.name)
            bad = [(cf, cb, ci, cc) for cf, cb, ci, cc in callers
                   if not any(a[0].endswith(prog) and a[1] == '!=' and a[2] == const for a, e in P.facts_at(cf, cb))]
            if callers and not bad:
                res.holds('C05.a', key, 'run after the assignment; all %d internal callers of %s are inside a (%s != %s) arm' % (len(callers), f.name, prog, const), c['loc'])
            else:
                w = bad[0] if bad else None
                res.violated('C05.a', key, '%s can be run twice: %s is not guarded by %s != %s%s' % (hook, f.name, prog, const, (' at its call in ' + w[0].name) if w else ''), (w[3]['loc'] if w else c['loc']))
    sites = hook_sites(db, 'hook_transaction_complete')
    if not sites:
        res.violated('C05.a', 'hook_transaction_complete:run-site', 'no site runs hook_transaction_complete')
    for f, b, i, c in sites:
        key = 'hook_transaction_complete:' + f.name
        ok = any(a == ('htp_tx_is_complete(tx)', '!=', '0') for a, e in P.facts_at(f, b))
        res.check(ok, 'C05.a', key, 'run only under htp_tx_is_complete(tx)', 'TRANSACTION_COMPLETE is run without a dominating htp_tx_is_complete() test', c['loc'])
    ic = db.get('htp_tx_is_complete')
    n1 = 0
    for atoms, events, end in P.enum_paths(ic, (ic.entry, -1)):
        if end[0] == 'return':
            v = P.ret_value(end[3])
            if is_lit(v) and v['v'] not in (0, -1):
                n1 += 1
                facts = [a for a, bb in atoms]
                ok = ('tx->request_progress', '==', 'HTP_REQUEST_COMPLETE') in facts and ('tx->response_progress', '==', 'HTP_RESPONSE_COMPLETE') in facts
                res.check(ok, 'C05.a', 'htp_tx_is_complete:both-sides', 'returns true only with both progress fields COMPLETE',
                          'htp_tx_is_complete() can return true without both sides being COMPLETE: TRANSACTION_COMPLETE would fire early (and again later)', end[3]['loc'])
    if n1 == 0:
        res.violated('C05.a', 'htp_tx_is_complete:both-sides', 'htp_tx_is_complete() has no path returning true', ic.loc)
    # finalize is the only caller of the tx-complete hook and destroys only after it
    fin = db.get('htp_tx_finalize')
    for b, i, c in fin.calls('htp_tx_destroy'):
        dom = C.dominators(fin)
        hs = [hb for hf, hb, hi, hc in sites if hf is fin]
        res.check(bool(hs) and all(hb in dom[b] for hb in hs), 'C05.a', 'htp_tx_finalize:destroy-after-hook', 'auto-destroy happens after TRANSACTION_COMPLETE',
                  'the transaction is destroyed on a path that did not run TRANSACTION_COMPLETE first', c['loc'])

    # ---------------- C05.e COMPLETE is not observable without its callback
    res.rule('C05.e', 'between the assignment progress = COMPLETE and the run of the matching completion hook there is no exit: a side is never marked complete without its completion callback having been attempted')
    for hook, prog, const in (('hook_request_complete', 'request_progress', 'HTP_REQUEST_COMPLETE'), ('hook_response_complete', 'response_progress', 'HTP_RESPONSE_COMPLETE')):
        for fn in db.fn.values():
            if not any(h == hook for b, i, st in fn.stmts() for h, c in P.hook_runs(st)):
                continue
            for b, i, x in P.field_writes(fn, prog):
                if not (x['k'] == 'assign' and lit_name(x['r']) == const):
                    continue
                leaked = []

                def visit(bb, ii, st, hook=hook):
                    if any(h == hook for h, c in P.hook_runs(st)):
                        return True
                    if st.get('k') == 'return':
                        leaked.append(st)
                        return True
                    return False
                ends, ex = C.forward(fn, (b, i), visit)
                res.check(not leaked, 'C05.e', '%s:%s=COMPLETE-then-hook' % (fn.name, prog), 'every path from the assignment reaches the %s run' % hook,
                          '%s can return after %s = %s without running %s: the side counts as complete (TRANSACTION_COMPLETE can fire) although its completion callback never ran' % (fn.name, prog, const, hook),
                          leaked[0]['loc'] if leaked else x['loc'])

    # ---------------- C05.b
    for fname, prog, const, detach in (
            ('htp_tx_state_request_complete', 'request_progress', 'HTP_REQUEST_COMPLETE', [('in_tx', '0')]),
            ('htp_tx_state_response_complete_ex', 'response_progress', 'HTP_RESPONSE_COMPLETE', [('out_tx', '0'), ('out_state', 'htp_connp_RES_IDLE')])):
        f = db.get(fname)
        n = 0
        for atoms, events, end, seq in P.enum_paths_seq(f, (f.entry, -1)):
            if end[0] != 'return':
                continue
            n += 1
            facts = [a for a, bb in atoms]
            rv = P.ret_value(end[3])
            if ('tx', '==', '0') in facts:
                continue                                     # no transaction at all
            if rv is not None and rv.get('k') == 'var' and (rv['name'], '!=', 'HTP_OK') in facts:
                continue                                     # a hook / helper failed: its code is propagated, the stream stops
            done = {fld: False for fld, v in detach}
            for x in seq:
                if x[0] == 'stmt':
                    for fld, v in detach:
                        for w in P.assigns_field(x[3], fld, '='):
                            if P.K(w['r']) == v:
                                done[fld] = True
            if all(done.values()):
                continue
            why = [a for a in facts if a[0].startswith('tx->connp->') or a[0] == 'hybrid_mode']
            trig = 'in_status==DATA_OTHER&&in_tx==out_tx' if ('tx->connp->in_status', '==', 'HTP_STREAM_DATA_OTHER') in facts and ('tx->connp->in_tx', '==', 'tx->connp->out_tx') in facts \
                else 'out_data_other_at_tx_end' if ('tx->connp->out_data_other_at_tx_end', '!=', '0') in facts else 'other'
            res.violated('C05.b', '%s:return %s:without-detach:%s' % (fname, P.K(rv), trig),
                         '%s returns %s with %s COMPLETE but the transaction still attached (%s not executed): the state function is re-entered for a finished transaction and finalisation runs again'
                         % (fname, P.K(rv), prog, ', '.join('%s = %s' % (fld, v) for fld, v in detach if not done[fld])), end[3]['loc'], guards=[str(a) for a in why])
        if not any(o['rule'] == 'C05.b' and o['key'].startswith(fname) for o in res.obs):
            res.holds('C05.b', fname + ':detach', 'all %d return paths either propagate a failure or detach the transaction' % n, f.loc)
        else:
            res.info('C05.b', fname + ':paths', '%d return paths examined' % n, f.loc)
        res.floor('C05.b', 'return paths of ' + fname, n, 4)
        # detach happens after finalize (which may destroy tx) through a local copy of connp: C01.e checks that

    # ---------------- C05.d progress writes
    order = {'request_progress': ['HTP_REQUEST_NOT_STARTED', 'HTP_REQUEST_LINE', 'HTP_REQUEST_HEADERS', 'HTP_REQUEST_BODY', 'HTP_REQUEST_TRAILER', 'HTP_REQUEST_COMPLETE'],
             'response_progress': ['HTP_RESPONSE_NOT_STARTED', 'HTP_RESPONSE_LINE', 'HTP_RESPONSE_HEADERS', 'HTP_RESPONSE_BODY', 'HTP_RESPONSE_TRAILER', 'HTP_RESPONSE_COMPLETE']}
    for n_, e in db.enums.items():
        names = [x['name'] for x in sorted(e['enumerators'], key=lambda x: x['v'])]
        for fld in order:
            if set(order[fld]) <= set(names):
                order[fld] = [x for x in names if x in order[fld]]
    nw = 0
    for fn in db.fn.values():
        for fld, consts in order.items():
            for b, i, x in P.field_writes(fn, fld):
                nw += 1
                key = '%s:%s' % (fn.name, fld)
                if x['k'] != 'assign' or x['op'] != '=' or lit_name(x['r']) not in consts:
                    res.violated('C05.d', key + ':non-constant', 'progress field is modified other than by assigning a phase constant: ' + S(x), x['loc'])
                    continue
                c = lit_name(x['r'])
                key += '=' + c
                # facts that bound the current value from below by a later phase => backward move
                facts = [a for a, e in P.facts_at(fn, b) if a[0].endswith(fld)]
                back = False
                for a in facts:
                    if a[2] in consts and ((a[1] in ('==', '>=') and consts.index(a[2]) > consts.index(c)) or (a[1] == '>' and consts.index(a[2]) >= consts.index(c))):
                        back = True
                if fld == 'response_progress' and c == 'HTP_RESPONSE_LINE' and fn.name == 'htp_connp_RES_BODY_DETERMINE':
                    f100 = any(a[0].endswith('response_status_number') and a[1] == '==' and a[2] == '100' for a, e in P.facts_at(fn, b))
                    res.check(f100, 'C05.d', key + ':100-continue', 'the documented restart: back to RESPONSE_LINE only under status 100',
                              'response progress is reset to LINE outside the 100-continue arm', x['loc'])
                elif back:
                    res.violated('C05.d', key, 'progress is assigned %s on a path where it is already known to be later (%s)' % (c, facts), x['loc'])
                else:
                    res.holds('C05.d', key, 'assigns phase constant ' + c, x['loc'])
    res.floor('C05.d', 'progress assignments', nw, 15)
    if tier == 'thorough':
        try:
            from .. import typestate
            typestate.check_c05(db, res)
        except ImportError:
            res.notes.append('typestate engine not available')
    res.assumptions += ['callbacks return documented status codes and do not re-enter the parser', 'hybrid-mode callers of the public htp_tx_state_* functions are outside the rule (their call order is the user\'s)']
    c05f(db, res)
    c05g(db, res)
    c05h(db, res)
    c05i(db, res)
    return res


def c05f(db, res):
    """TRANSACTION_COMPLETE is delivered by htp_tx_finalize(), which has no "already finalized" memory of its own: it relies on
    being reached once per transaction - from whichever side completes last. A function that reaches it twice for the same
    transaction on one path (directly, or through a completion helper that finalizes itself) delivers the callback twice,
    the second time possibly on a transaction the first call destroyed."""
    res.rule('C05.f', 'finalization is reached once per path: in no function are two calls that (transitively) reach htp_tx_finalize made on the same transaction expression with the second reachable from the first')
    fin = {'htp_tx_finalize'}
    grew = True
    while grew:
        grew = False
        for n_, g in db.fn.items():
            if n_ in fin or not g.blocks:
                continue
            # a caller counts when it passes its own transaction parameter / expression on to a finalizing function
            if any((c.get('callee') in fin) for b_, i_, c in g.calls()):
                fin.add(n_)
                grew = True
    # only functions whose first parameter is the transaction carry the "same transaction" argument
    fin = {n_ for n_ in fin if n_ == 'htp_tx_finalize' or (db.fn[n_].params and 'htp_tx_t' in db.fn[n_].params[0]['t'])}
    n = 0
    for name, f in sorted(db.fn.items()):
        if not f.blocks:
            continue
        sites = [(b, i, c) for b, i, c in f.calls() if c.get('callee') in fin and c.get('args')]
        if len(sites) < 1:
            continue
        n += len(sites)
        for (b1, i1, c1) in sites:
            for (b2, i2, c2) in sites:
                if (b1, i1) == (b2, i2) or P.K(c1['args'][0]) != P.K(c2['args'][0]):
                    continue
                later = (b2 == b1 and i2 > i1) or (b2 != b1 and b2 in C.reachable(f, b1) and b1 not in C.reachable(f, b2))
                if later:
                    res.violated('C05.f', '%s:%s-then-%s' % (name, c1['callee'], c2['callee']),
                                 '%s calls %s(%s) and, later on the same path, %s on the same transaction: both reach htp_tx_finalize, so TRANSACTION_COMPLETE is delivered twice (the second time on a transaction the first delivery may have destroyed)' % (name, c1['callee'], P.K(c1['args'][0]), c2['callee']), c2['loc'])
    if not [o for o in res.obs if o['rule'] == 'C05.f']:
        res.holds('C05.f', 'finalize-once-per-path', '%d calls that reach htp_tx_finalize (through %d functions), no two in sequence on one transaction' % (n, len(fin)), '')
    res.floor('C05.f', 'calls that reach htp_tx_finalize', n, 4)


def c05g(db, res):
    """The *_HEADER_DATA / *_TRAILER_DATA callbacks are fed by a "data receiver" that is flushed by
    htp_connp_re{q,s}_receiver_finalize_clear(). The stage callback order (trailer data, then trailer, then complete) holds
    only if the function that runs the TRAILER hook also flushes the receiver before it returns successfully; left to the
    safety net in the completion function the last piece of trailer data arrives after REQUEST_COMPLETE."""
    res.rule('C05.g', 'a data receiver does not outlive its stage: in every function that runs a TRAILER hook, each path through that hook run to a successful return passes htp_connp_re{q,s}_receiver_finalize_clear (before or after the hook)')
    n = 0
    for name, f in sorted(db.fn.items()):
        if not f.blocks:
            continue
        for b, i, st in f.stmts():
            for hook, c in P.hook_runs(st):
                if not hook.endswith('_trailer'):
                    continue
                side = 'req' if 'request' in hook else 'res'
                fin = 'htp_connp_%s_receiver_finalize_clear' % side
                n += 1
                dom = C.dominators(f)
                before = any((bb == b and ii < i) or (bb != b and bb in dom[b]) for bb, ii, c2 in f.calls(fin))
                bad = None
                if not before:
                    for atoms, events, end, seq in P.enum_paths_seq(f, (b, i), max_paths=50000):
                        if end[0] != 'return':
                            continue
                        rv = P.ret_value(end[3])
                        if rv is not None and (lit_name(rv) == 'HTP_ERROR' or (rv.get('k') == 'var' and any(a[0] == rv['name'] and a[1] == '!=' and a[2] == 'HTP_OK' for a, e in atoms))):
                            continue
                        if not any(x[0] == 'stmt' and any(c3.get('callee') == fin for c3 in nodes(x[3], lambda y: y.get('k') == 'call')) for x in seq):
                            bad = end[3]
                res.check(bad is None, 'C05.g', '%s:%s:receiver-flushed' % (name, hook), 'the receiver is flushed in the function that runs the hook',
                          '%s runs %s and returns successfully without %s(): the last piece of raw trailer data is delivered by the safety net in the completion function, after the COMPLETE callback' % (name, hook, fin), (bad or c).get('loc', f.loc))
    res.floor('C05.g', 'TRAILER hook runs', n, 2)
    # the same for the header block: when the HEADERS hook runs, the raw header data has been flushed to the *_HEADER_DATA
    # receiver and the receiver is closed - on every path, whatever the message looks like (no body, CONNECT, ...)
    m = 0
    for side, sd in (('request', 'req'), ('response', 'res')):
        fin = 'htp_connp_%s_receiver_finalize_clear' % sd
        # functions that flush on every successful path
        flush = {fin}
        grew = True
        while grew:
            grew = False
            for n_, g in db.fn.items():
                if n_ in flush or not g.blocks or not any(c.get('callee') in flush for b_, i_, c in g.calls()):
                    continue
                allp = True
                try:
                    for atoms, events, end, seq in P.enum_paths_seq(g, (g.entry, -1), max_paths=3000):
                        if end[0] not in ('return', 'exit'):
                            continue
                        rv = P.ret_value(end[3]) if end[0] == 'return' else None
                        if rv is not None and (lit_name(rv) in ('HTP_ERROR',) or rv.get('k') == 'var'):
                            continue                         # error / propagated status
                        if not any(x[0] == 'stmt' and any(c3.get('callee') in flush for c3 in nodes(x[3], lambda y: y.get('k') == 'call')) for x in seq):
                            allp = False
                            break
                except AnalysisBroken:
                    allp = False
                if allp:
                    flush.add(n_)
                    grew = True
        for name, f in sorted(db.fn.items()):
            if not f.blocks:
                continue
            for b, i, st in f.stmts():
                for hook, c in P.hook_runs(st):
                    if hook != 'hook_%s_headers' % side:
                        continue
                    m += 1
                    dom = C.dominators(f)
                    before = any(c2.get('callee') in flush and ((bb == b and ii < i) or (bb != b and bb in dom[b])) for bb, ii, c2 in f.calls())
                    res.check(before, 'C05.g', '%s:%s:receiver-flushed' % (name, hook), 'the header-data receiver is flushed and closed on every path to the hook',
                              '%s runs %s on a path where the raw header data has not been flushed to the %s_HEADER_DATA receiver: the last piece of the header block arrives after the HEADERS callback - or, for a message without a body, together with bytes of whatever follows it' % (name, hook, side.upper()), c['loc'])
    res.floor('C05.g', 'HEADERS hook runs', m, 2)
    # and the function that runs the HEADERS hook runs it on every successful path: an early `return HTP_OK` in front of it
    # delivers body data and completion for a message whose HEADERS callback never ran
    for name, f in sorted(db.fn.items()):
        if not f.blocks:
            continue
        sites = [(b, i, hook) for b, i, st in f.stmts() for hook, c in P.hook_runs(st) if hook in ('hook_request_headers', 'hook_response_headers')]
        for b, i, hook in sites:
            bad = None
            k = 0
            # blocks reachable from the entry without passing the block that runs the hook
            seen_, w_ = set(), [f.entry]
            while w_:
                x_ = w_.pop()
                if x_ in seen_ or x_ == b:
                    continue
                seen_.add(x_)
                w_ += [s_ for s_ in f.blocks[x_]['succs'] if s_ is not None]
            for rb, ri, rs in f.returns() or []:
                if lit_name(P.ret_value(rs)) != 'HTP_OK':
                    continue
                facts = [a for a, e in P.facts_at(f, rb)]
                if any(a[0] in ('tx', 'connp') and a[1] == '==' and a[2] == '0' for a in facts) or any(a[0].endswith('_progress') and a[1] == '>' for a in facts):
                    continue
                k += 1
                if rb in seen_:
                    bad = rs
            if k:
                res.check(bad is None, 'C05.g', '%s:%s:on-every-successful-path' % (name, hook), 'every successful path runs the hook',
                          '%s returns HTP_OK on a path that has not run %s: the message goes on to its body and completion callbacks without the HEADERS callback (and with the header-data receiver still open)' % (name, hook), (bad or {}).get('loc', f.loc))


def c05h(db, res):
    """htp_tx_finalize() delivers TRANSACTION_COMPLETE whenever both sides read COMPLETE; it has no memory of having done so.
    "At most once" therefore rests on who calls it: the function that has just moved ONE side to COMPLETE (so that the call
    that completes the second side is the only one that finds both complete). Any other caller - a close handler tidying up,
    say - finds both sides complete again and delivers the callback a second time."""
    res.rule('C05.h', 'htp_tx_finalize is called only by the functions that complete a side: every caller has, on every path to the call, stored COMPLETE into request_progress or response_progress of that transaction (directly or in a callee) or is itself a completion function')
    fin = db.fn.get('htp_tx_finalize')
    if fin is None:
        raise AnalysisBroken('htp_tx_finalize not found')
    # functions that store COMPLETE into a progress field, closed over callers that pass their transaction on
    completes = set()
    for n_, g in db.fn.items():
        if g.blocks and any(lit_name(w.get('r')) in ('HTP_REQUEST_COMPLETE', 'HTP_RESPONSE_COMPLETE') for fld in ('request_progress', 'response_progress') for b, i, w in P.field_writes(g, fld) if w.get('k') == 'assign'):
            completes.add(n_)
    n = 0
    for name, f in sorted(db.fn.items()):
        if not f.blocks:
            continue
        for b, i, c in f.calls('htp_tx_finalize'):
            n += 1
            ok = name in completes
            if not ok:
                # on every path to the call: a completing callee ran, or the side is known to read COMPLETE already
                ok = True
                for atoms, events, end, seq in P.enum_paths_seq(f, (f.entry, -1), stop=lambda bb, ii, st, b=b, i=i: (bb, ii) == (b, i), max_paths=50000):
                    if not (end[0] == 'stop' or (end[0] == 'return' and tuple(end[1:3]) == (b, i))):
                        continue
                    ran = any(x[0] == 'stmt' and any(c2.get('callee') in completes for c2 in nodes(x[3], lambda y: y.get('k') == 'call')) for x in seq)
                    known = any(a[0].endswith(('request_progress', 'response_progress')) and a[1] == '==' and 'COMPLETE' in str(a[2]) for a, e in atoms)
                    if not (ran or known):
                        ok = False
            res.check(ok, 'C05.h', '%s:calls:htp_tx_finalize' % name, 'the caller has just completed a side of this transaction',
                      '%s calls htp_tx_finalize() without having moved a side of the transaction to COMPLETE: when both sides are complete already (the usual case at that point) TRANSACTION_COMPLETE is delivered a second time' % name, c['loc'])
    res.floor('C05.h', 'callers of htp_tx_finalize', n, 2)


PROGRESS_WRITERS = {
    # (field, phase) -> the functions that move a message INTO that phase (mined on the pinned tree, read, frozen): the phase is
    # entered where the corresponding part of the message begins, nowhere else
    ('request_progress', 'HTP_REQUEST_NOT_STARTED'): {'htp_tx_create'},
    ('request_progress', 'HTP_REQUEST_LINE'): {'htp_tx_state_request_start'},
    ('request_progress', 'HTP_REQUEST_HEADERS'): {'htp_connp_REQ_PROTOCOL'},
    ('request_progress', 'HTP_REQUEST_BODY'): {'htp_connp_REQ_BODY_DETERMINE'},
    ('request_progress', 'HTP_REQUEST_TRAILER'): {'htp_connp_REQ_BODY_CHUNKED_LENGTH', 'htp_connp_REQ_HEADERS'},
    ('request_progress', 'HTP_REQUEST_COMPLETE'): {'htp_tx_state_request_complete_partial'},
    ('response_progress', 'HTP_RESPONSE_NOT_STARTED'): {'htp_tx_create'},
    ('response_progress', 'HTP_RESPONSE_LINE'): {'htp_tx_state_response_start', 'htp_connp_RES_BODY_DETERMINE'},
    ('response_progress', 'HTP_RESPONSE_HEADERS'): {'htp_connp_RES_LINE'},
    ('response_progress', 'HTP_RESPONSE_BODY'): {'htp_connp_RES_BODY_DETERMINE', 'htp_connp_RES_LINE', 'htp_tx_state_response_start'},
    ('response_progress', 'HTP_RESPONSE_TRAILER'): {'htp_connp_RES_BODY_CHUNKED_LENGTH'},
    ('response_progress', 'HTP_RESPONSE_COMPLETE'): {'htp_tx_state_response_complete_ex'},
}


def c05i(db, res):
    """Progress never moves backwards because each phase is entered by the state that reads the first byte of that part of the
    message, and by nobody else: a later state (FINALIZE, say) that stores an earlier phase moves the indicator back."""
    res.rule('C05.i', 'each progress phase is entered by the states that begin that part of the message: the set of functions that store a given phase into request_progress / response_progress is the tabled one (a new writer of an earlier phase in a later state is a backward move)')
    n = 0
    for name, f in sorted(db.fn.items()):
        if not f.blocks:
            continue
        for fld in ('request_progress', 'response_progress'):
            for b, i, w in P.field_writes(f, fld):
                if w.get('k') != 'assign':
                    continue
                ph = lit_name(w['r']) or P.K(w['r'])
                n += 1
                ok = name in PROGRESS_WRITERS.get((fld, ph), set())
                res.check(ok, 'C05.i', '%s:%s=%s' % (name, fld, ph), 'a tabled writer of this phase',
                          '%s stores %s into %s; the phase is entered only by %s: from this function the store moves the indicator of a message that is already further on backwards (or skips ahead without the callbacks of the phases in between)' % (name, ph, fld, sorted(PROGRESS_WRITERS.get((fld, ph), [])) or 'nobody'), w['loc'])
    res.floor('C05.i', 'progress stores', n, 15)
