"""Error discipline (shared rule): the status a function reports is acted upon.  A STATUS function is one that returns one of
the library's status literals (HTP_OK, HTP_ERROR, HTP_DECLINED, HTP_DATA, HTP_DATA_BUFFER, HTP_DATA_OTHER, HTP_STOP) or the
status of another status function.  A call site ACTS ON the status when the value reaches a branch condition, a return or
an argument - directly, or through the variable it is stored in, on every path before that variable is overwritten or the
function is left.  For every status function that is acted upon at >= 3 sites, every site that drops the status must be in the
reviewed table (Engler et al.: the majority states the belief, the minority is read and frozen)."""
from ..facts import S, strip, nodes, lit_name
from .. import cfg as C
from .. import pat as P

STATUS = ('HTP_OK', 'HTP_ERROR', 'HTP_DECLINED', 'HTP_DATA', 'HTP_DATA_BUFFER', 'HTP_DATA_OTHER', 'HTP_STOP')

# (caller, callee) -> reason: sites that drop a status on purpose
REVIEWED = {
    ('htp_log', 'htp_hook_run_all'): 'a log callback cannot fail the operation that logs',
    ('htp_tx_state_response_complete_ex', 'htp_tx_res_process_body_data_ex'): 'final flush of the decompressors with a NULL chunk; completion goes ahead whatever the flush reports (recorded with D9)',
    ('htp_connp_RES_IDLE', 'htp_tx_state_request_complete'): 'response without a request: the placeholder request is completed best-effort before the response is parsed',
    ('htp_mpartp_handle_data', 'htp_list_array_push'): 'allocation failure loses the part (leak only; C18 does not ask for leak freedom)',
    ('htp_tx_create', 'htp_list_array_push'): 'allocation failure leaves the transaction out of the list (later lookups fail cleanly; C18)',
    ('htp_tx_req_process_body_data_ex', 'htp_gzip_decompressor_decompress'): 'decompression errors are logged by the decompressor and the raw bytes passed through',
    ('htp_tx_res_process_body_data_ex', 'htp_gzip_decompressor_decompress'): 'decompression errors are logged by the decompressor and the raw bytes passed through',
    ('htp_ch_urlencoded_callback_request_body_data', 'htp_urlenp_parse_partial'): 'the urlencoded parser cannot fail on input (only through its unreachable default arm)',
    ('htp_urlenp_parse_complete', 'htp_urlenp_parse_partial'): 'the urlencoded parser cannot fail on input (only through its unreachable default arm)',
    ('htp_tx_state_request_complete', 'htp_tx_finalize'): 'completion has been reported already; finalisation only destroys when both sides are done',
    ('htp_connp_req_data', 'htp_connp_req_receiver_send_data'): 'hand-over to the data receiver at the end of a chunk; the receiver hook result is reported by finalize_clear',
    ('htp_connp_res_data', 'htp_connp_res_receiver_send_data'): 'hand-over to the data receiver at the end of a chunk; the receiver hook result is reported by finalize_clear',
}


def status_functions(db):
    st = set()
    changed = True
    while changed:
        changed = False
        for n, f in db.fn.items():
            if n in st or not f.blocks or f.loc.startswith('htp/lzma') or (f.ret or 'void') == 'void' or (f.ret or '').endswith('*'):
                continue
            for b, i, r in f.returns():
                e = strip(r.get('e'))
                if e is None:
                    continue
                if lit_name(e) in STATUS or (e.get('k') == 'call' and e.get('callee') in st):
                    st.add(n)
                    changed = True
                    break
    return st


def acted_on(f, b, i, st, c):
    """does the value of call c (root statement st at (b, i)) reach a condition, a return or an argument?"""
    top = strip(st)
    blk = f.blocks[b]
    iscond = i == len(blk['stmts']) - 1 and (blk.get('term') or {}).get('cond') is not None
    if top is c:
        return iscond
    # stored in a variable?
    V = None
    for x in nodes(st, lambda y: y.get('k') in ('assign', 'decl')):
        if x['k'] == 'assign' and x.get('op') == '=' and strip(x['r']) is c:
            V = P.K(x['l'])
        if x['k'] == 'decl':
            for v in x['vars']:
                if v.get('init') is not None and strip(v['init']) is c:
                    V = v['name']
    if V is None or iscond or '->' in V or '.' in V or '[' in V or '*' in V:
        return True     # part of a larger expression: condition, argument, return value, arithmetic
    bad = []

    def visit(bb, ii, s2):
        reads = False
        writes = False
        for x in nodes(s2, lambda y: True):
            if x.get('k') == 'assign' and P.K(x['l']) == V:
                writes = True
                if any(P.K(y) == V for y in nodes(x['r'], lambda y: y.get('k') in ('var', 'member'))):
                    reads = True
            elif x.get('k') == 'decl':
                continue
        if not writes:
            reads = any(P.K(y) == V for y in nodes(s2, lambda y: y.get('k') in ('var', 'member')))
        if reads:
            return True
        if writes:
            bad.append(s2)
            return True
        return False
    ends, ex = C.forward(f, (b, i), visit)
    return not bad and not ex


def run(db, res, rule, text=None):
    res.rule(rule, text or 'error discipline: for every status-returning function whose status is acted upon at three or more call sites, no call site drops it (expression statement, or stored in a variable that is overwritten or abandoned before it is read) except the reviewed sites')
    stf = status_functions(db)
    sites = {}
    for n, f in sorted(db.fn.items()):
        if not f.blocks or f.loc.startswith('htp/lzma'):
            continue
        for b, blk in f.blocks.items():
            for i, st in enumerate(blk['stmts']):
                for c in nodes(st, lambda y: y.get('k') == 'call' and y.get('callee') in stf):
                    sites.setdefault(c['callee'], []).append((n, c['loc'], acted_on(f, b, i, st, c)))
    nsites = ndrop = 0
    for g, ss in sorted(sites.items()):
        good = sum(1 for s in ss if s[2])
        if good < 3:
            continue
        for n, loc, ok in ss:
            nsites += 1
            key = '%s:%s()' % (n, g)
            if ok:
                res.holds(rule, key, 'the status is acted upon', loc)
            elif (n, g) in REVIEWED:
                ndrop += 1
                res.holds(rule, key, 'dropped on purpose: ' + REVIEWED[(n, g)], loc)
            else:
                res.violated(rule, key, '%s drops the status of %s() (%d other call sites act on it): an error, a STOP or a "need more data" reported there is lost and the caller carries on as if the step had succeeded' % (n, g, good), loc)
    # twin clause: the request-side and response-side versions of one function are used the same way
    def twin(g):
        for a_, b_ in (('request', 'response'), ('_req_', '_res_'), ('REQ_', 'RES_'), ('_in_', '_out_')):
            if a_ in g and g.replace(a_, b_) in sites:
                return g.replace(a_, b_)
            if b_ in g and g.replace(b_, a_) in sites:
                return g.replace(b_, a_)
        return None
    ntwin = 0
    for g, ss in sorted(sites.items()):
        if sum(1 for s in ss if s[2]) >= 3:
            continue        # decided above
        t = twin(g)
        if t is None or not all(s[2] for s in sites[t]):
            continue
        for n, loc, ok in ss:
            ntwin += 1
            key = '%s:%s()' % (n, g)
            if ok:
                res.holds(rule, key, 'the status is acted upon, as at every call of the twin %s()' % t, loc)
            elif (n, g) in REVIEWED:
                res.holds(rule, key, 'dropped on purpose: ' + REVIEWED[(n, g)], loc)
            else:
                res.violated(rule, key, '%s drops the status of %s() while every call of its twin %s() acts on it: an ERROR or STOP that a callback returns there is lost on this side only, and the state function reports success without having changed state' % (n, g, t), loc)
    res.floor(rule, 'call sites decided by the twin clause', ntwin, 10)
    res.analysed[rule] = dict(status_functions=len(stf), call_sites_of_majority_checked_functions=nsites, reviewed_drops=ndrop)
    res.floor(rule, 'status functions', len(stf), 100)
    res.floor(rule, 'call sites of functions whose status is acted upon at >= 3 sites', nsites, 100)
