"""Lock-step cursors (shared rule, C02.h): a trimming or scanning loop that keeps two cursors - the position it examines and
the end (or start) of the slice it is cutting - initialises one from the other (`prev = value_end - 1`) and moves both.  The
distance between them is the loop invariant that makes "the byte examined is the first byte outside the slice" true; every
path through the loop body must preserve it.  Symbolic evaluation of the body paths over the two cursors (linear forms)."""
from ..facts import S, strip, nodes
from .. import cfg as C
from .. import pat as P


def lin2(e, env):
    """linear form over the symbols in env (dict name -> form) ; form = {sym: coef, '': const}; None if not linear in them"""
    e = strip(e)
    if e is None:
        return None
    k = e.get('k')
    if k == 'lit':
        return {'': e['v']}
    if k == 'var':
        return dict(env[e['name']]) if e['name'] in env else {e['name'] + '@': 1}
    if k == 'bin' and e['op'] in ('+', '-'):
        l, r = lin2(e['l'], env), lin2(e['r'], env)
        if l is None or r is None:
            return None
        out = dict(l)
        for t, c in r.items():
            out[t] = out.get(t, 0) + (c if e['op'] == '+' else -c)
        return {t: c for t, c in out.items() if c != 0}
    return None


def step(st, env):
    """apply the writes of root statement st to env (two tracked locals); returns False when a write is not understood"""
    for x in nodes(st, lambda y: y.get('k') == 'assign' or (y.get('k') == 'un' and y.get('op') in ('++', '--', '++post', '--post'))):
        if x['k'] == 'un':
            t = strip(x['e'])
            if t.get('k') == 'var' and t['name'] in env:
                env[t['name']] = dict(env[t['name']])
                env[t['name']][''] = env[t['name']].get('', 0) + (1 if x['op'].startswith('++') else -1)
            continue
        t = strip(x['l'])
        if t is None or t.get('k') != 'var' or t['name'] not in env:
            continue
        if x['op'] == '=':
            v = lin2(x['r'], env)
        elif x['op'] in ('+=', '-='):
            r = lin2(x['r'], env)
            v = None
            if r is not None:
                v = dict(env[t['name']])
                for s_, c in r.items():
                    v[s_] = v.get(s_, 0) + (c if x['op'] == '+=' else -c)
        else:
            v = None
        if v is None:
            return False
        env[t['name']] = {s_: c for s_, c in v.items() if c != 0}
    return True


def run(db, res, rule='C02.h'):
    res.rule(rule, 'lock-step cursors: in every loop that moves two cursors one of which was initialised from the other (`prev = value_end - 1`, `pos = start + k`), each path through the loop body preserves their distance, so the byte the loop examines stays the first byte outside (or the last inside) the slice it is cutting')
    n = 0
    for name, f in sorted(db.fn.items()):
        if not f.blocks or f.loc.startswith('htp/lzma'):
            continue
        dom = None
        for head, body in C.loops(f):
            # locals written inside the loop
            written = {}
            for b in body:
                for st in f.blocks[b]['stmts']:
                    for x in nodes(st, lambda y: y.get('k') == 'assign' or (y.get('k') == 'un' and y.get('op') in ('++', '--', '++post', '--post'))):
                        t = strip(x.get('l') if x['k'] == 'assign' else x['e'])
                        if t is not None and t.get('k') == 'var' and t.get('decl') == 'local':
                            written.setdefault(t['name'], []).append(x)
            if len(written) < 2:
                continue
            # a definition P = E + c outside the loop that dominates the header, both P and E written in the loop
            dom = dom or C.dominators(f)
            for b, i, st in f.stmts():
                if b in body or b not in dom[head]:
                    continue
                for x in nodes(st, lambda y: y.get('k') in ('assign', 'decl')):
                    pairs = []
                    if x['k'] == 'assign' and x.get('op') == '=' and (strip(x['l']) or {}).get('k') == 'var':
                        pairs.append((strip(x['l'])['name'], x['r']))
                    if x['k'] == 'decl':
                        pairs += [(v['name'], v['init']) for v in x['vars'] if v.get('init') is not None]
                    for Pn, rhs in pairs:
                        if Pn not in written:
                            continue
                        r = strip(rhs)
                        form = lin2(r, {})
                        if form is None:
                            continue
                        syms = [s_ for s_ in form if s_ != '']
                        if len(syms) != 1 or form[syms[0]] != 1:
                            continue
                        En = syms[0][:-1]
                        if En == Pn or En not in written:
                            continue
                        # no other write to P or E between this definition and the loop (approximation: no later write outside the loop that dominates the header)
                        later = [1 for b2, i2, st2 in f.stmts() if b2 not in body and b2 in dom[head] and ((b2 == b and i2 > i) or (b2 != b and b in dom[b2]))
                                 for w in nodes(st2, lambda y: y.get('k') == 'assign' or (y.get('k') == 'un' and y.get('op') in ('++', '--', '++post', '--post')))
                                 if (strip(w.get('l') if w['k'] == 'assign' else w['e']) or {}).get('name') in (Pn, En)]
                        if later:
                            continue
                        n += 1
                        c0 = form.get('', 0)
                        key = '%s:%s-%s=%d' % (name, Pn, En, c0)
                        bad = None
                        # every path header -> ... -> back to header inside the body
                        npth = 0
                        for atoms, events, end in P.enum_paths(f, (head, -1), stop=None, edge_ok=lambda bb, j: f.blocks[bb]['succs'][j] in body, cut_back_edges=True, max_paths=2000):
                            # only paths that come back to the header count (cut at the back edge)
                            if end != ('loop', head) or not events:
                                continue
                            npth += 1
                            env = {Pn: {'P0': 1}, En: {'E0': 1}}
                            ok = True
                            for bb, ii, s2 in events:
                                if not step(s2, env):
                                    ok = False
                                    break
                            if not ok:
                                continue
                            # P' - E' must equal P0 - E0 (= c0): substitute P0 = E0 + c0
                            d = {}
                            for s_, c in env[Pn].items():
                                d[s_] = d.get(s_, 0) + c
                            for s_, c in env[En].items():
                                d[s_] = d.get(s_, 0) - c
                            p0 = d.pop('P0', 0)
                            d['E0'] = d.get('E0', 0) + p0
                            d[''] = d.get('', 0) + p0 * c0
                            d = {s_: c for s_, c in d.items() if c != 0}
                            if d != ({'': c0} if c0 else {}):
                                bad = (events[-1][2], d)
                        if bad:
                            res.violated(rule, key, '%s keeps %s = %s %+d before its loop but a path through the loop body changes the distance (%s - %s becomes %s): the byte the loop examines is no longer the byte next to the slice boundary, so the slice gains or loses a byte' % (name, Pn, En, c0, Pn, En, bad[1] or 0), bad[0]['loc'])
                        elif npth:
                            res.holds(rule, key, 'all %d paths through the loop body move both cursors by the same amount' % npth, x['loc'])
                        else:
                            n -= 1
    res.floor(rule, 'loops with two lock-step cursors', n, 2)


def run_single_step(db, res, rule, functions):
    """A whitespace skip or trim that steps once: an `if` (not a loop condition) that tests htp_is_lws / htp_is_space /
    htp_is_folding_char on data[E] and whose taken branch moves a local that E mentions by one.  Every skip of that kind in the
    line parsers is a loop; one that is not strips a single byte where the wire may have several."""
    res.rule(rule, 'blank skipping is a loop: in the request/response line and header parsers no `if` tests a byte for blankness (htp_is_lws / htp_is_space) at data[E] and then moves a cursor that E mentions by one step - every such skip or trim is the condition of a loop, so any number of blanks is skipped')
    nloops = 0
    for name in functions:
        f = db.fn.get(name)
        if f is None or not f.blocks:
            continue
        loop_heads = {h for h, body in C.loops(f)}
        for b in f.blocks:
            c = f.cond_of(b)
            if not c:
                continue
            calls = [x for x in nodes(c[0], lambda y: y.get('k') == 'call' and y.get('callee') in ('htp_is_lws', 'htp_is_space'))]
            if not calls:
                continue
            idx = [strip(a) for x in calls for a in x.get('args', [])]
            vs = {v['name'] for a in idx if a is not None for v in nodes(a, lambda y: y.get('k') == 'var' and y.get('decl') == 'local') if 'data' not in v['name']}
            if not vs:
                continue
            # is this condition block part of a loop (it reaches itself)?
            inloop = any(b in body for h, body in C.loops(f))
            if inloop:
                nloops += 1
                continue
            # not a loop: does the taken branch step one of the cursors the test mentions?
            tb = c[1]
            stepped = [w for st in f.blocks[tb]['stmts'] for w in nodes(st, lambda y: (y.get('k') == 'un' and y.get('op', '').replace('post', '') in ('++', '--')) or (y.get('k') == 'assign' and y.get('op') in ('+=', '-=')))
                       if (strip(w.get('e') if w['k'] == 'un' else w.get('l')) or {}).get('name') in vs]
            if stepped:
                res.violated(rule, '%s:single-step-skip:%s' % (name, sorted(vs)[0]), '%s tests one byte for blankness and then moves `%s` by one step outside any loop: of several blanks only one is skipped (a field name followed by two blanks keeps one of them and is no longer found under its name)' % (name, sorted(vs)[0]), c[0]['loc'])
    res.floor(rule, 'blank-skipping loops in the line parsers', nloops, 10)
    if not [o for o in res.obs if o['rule'] == rule]:
        res.holds(rule, 'line-parsers:no-single-step-skip', '%d blank-skipping loop conditions, no single-step skip' % nloops, '')
