"""Shared rule: mirror functions.  The request and the response direction are implemented by pairs of functions that are
the same text with in_/out_, request/response, req/res swapped.  On the pinned tree a number of these pairs are *exactly*
mirror images (statement by statement, conditions in canonical form); for those, any divergence means that one of the two
is wrong (Engler et al.: contradiction between sibling implementations).  Pairs that differ on the pinned tree are compared
against their reviewed difference."""
import re, difflib
from ..facts import S, strip, nodes
from .. import pat as P

SWAPS = ((r'\bout_', 'in_'), (r'(?<![A-Za-z])out_', 'in_'), ('response', 'request'), ('RESPONSE', 'REQUEST'), ('Response', 'Request'), ('_RES_', '_REQ_'), ('_res_', '_req_'),
         ('outbound', 'inbound'), ('Outbound', 'Inbound'), (r'\bres_', 'req_'))


def norm(t):
    for a, b in SWAPS:
        t = re.sub(a, b, t)
    return t


def skeleton(f):
    """the function as a sequence of canonical statements in source order (conditions as canonical atoms; log and trace calls
    left out).  Inside one basic block the statements are sorted: the order of independent adjacent statements is not compared
    (a reordering of dependent ones is the business of the rules that own those statements)."""
    out = []
    for b in sorted(f.blocks, reverse=True):
        blk = f.blocks[b]
        here = []
        for i, st in enumerate(blk['stmts']):
            c = f.cond_of(b)
            if c and c[0] is st:
                a = P.canon(st)
                t = 'IF ' + (' '.join(a) if a else P.K(st))
            else:
                t = P.K(st)
            if 'htp_log(' in t or 'fprintf(' in t or 'fprint_raw_data' in t:
                continue                                   # log and trace calls are not compared (the debug configuration traces one side more than the other)
            here.append(norm(re.sub(r'\s+', ' ', t)))
        out += sorted(x for x in here if not x.startswith('IF ') and not x.startswith('return')) + [x for x in here if x.startswith('IF ') or x.startswith('return')]
    return out


def run(db, res, rule, pairs):
    """pairs: list of (request-side function, response-side function, reviewed difference or None)
    reviewed difference = (frozenset of statements only in the first, frozenset of statements only in the second, reason)"""
    res.rule(rule, 'mirror functions agree: each listed request/response pair is the same sequence of canonical statements after swapping in_/out_, request/response, req/res (pairs that differ on the pinned tree: exactly their reviewed difference)')
    n = 0
    for a, b, reviewed in pairs:
        fa, fb = db.fn.get(a), db.fn.get(b)
        if fa is None or fb is None or not fa.blocks or not fb.blocks:
            res.unknown(rule, '%s~%s' % (a, b), 'one of the two functions no longer exists', '')
            continue
        n += 1
        sa_, sb_ = skeleton(fa), skeleton(fb)
        only_a, only_b = [], []
        for tag, i1, i2, j1, j2 in difflib.SequenceMatcher(None, sa_, sb_, autojunk=False).get_opcodes():
            if tag != 'equal':
                only_a += sa_[i1:i2]
                only_b += sb_[j1:j2]
        key = '%s~%s' % (a, b)
        if reviewed is None:
            res.check(not only_a and not only_b, rule, key, 'mirror images (%d statements)' % len(sa_),
                      'the two directions no longer do the same thing: only in %s: %s; only in %s: %s - they were mirror images, so one of them is wrong' % (a, only_a[:3], b, only_b[:3]), fa.loc)
        else:
            ra, rb, why = reviewed
            ok = frozenset(only_a) <= frozenset(ra) and frozenset(only_b) <= frozenset(rb)      # a reviewed difference that has disappeared makes the twins exact mirrors
            res.check(ok, rule, key, 'differ at most by the reviewed difference: ' + why,
                      'the two directions differ by more than their reviewed difference (%s): now only in %s: %s; only in %s: %s' % (why, a, sorted(set(only_a) - set(ra))[:3] or sorted(set(ra) - set(only_a))[:3], b, sorted(set(only_b) - set(rb))[:3] or sorted(set(rb) - set(only_b))[:3]), fa.loc)
    res.floor(rule, 'mirror pairs compared', n, 1)
