"""C03 — segmentation invariance (DESIGN.md §4.3). Decided: the mechanism that makes chunk boundaries
invisible (look-ahead decisions defer at end of chunk; carry protocol). Not decided: equality of two parses."""
import re
from ..facts import load, S, strip, nodes, is_lit, lit_name, AnalysisBroken
from ..report import Result
from .. import cfg as C
from .. import pat as P

TECHNIQUE = 'abstract walk of every peek site with "no byte available" (next_byte = -1, chunk exhausted): commit actions reachable before the function defers are reported; carry-protocol pairing rules (accumulate => DATA_BUFFER, consolidate => clear, append at counter)'

# look-ahead sites whose end-of-chunk outcome commits but agrees with the outcome for every byte a well-formed
# stream can carry there (reviewed; one line of reason each). Keyed by function + semantic site.
AGREE = {
    'htp_connp_REQ_FINALIZE:after[line]:asks[is -1?]': 'no byte left: the request is complete; in a well-formed stream the next byte starts a request method, which takes the same exit (request complete) after probing',
    'htp_connp_RES_FINALIZE:after[line]:asks[is -1?]': 'no byte left: the response is complete; in a well-formed stream the next bytes are a status line ("HTTP/"), which takes the same exit (response complete)',
    'htp_connp_RES_HEADERS:after[CR+LF(after LF CR)]:asks[is CR?]': 'only reachable after an LF CR line ending ("weird response end of lines mix"), which well-formed messages do not contain',
    'htp_connp_RES_HEADERS:after[CR+LF(after LF CR)]:asks[is LF?]': 'only reachable after an LF CR line ending ("weird response end of lines mix"), which well-formed messages do not contain',
}


# direct look-aheads of the pinned tree, each a heuristic for input that is not well-formed HTTP/1.x (reviewed)
DIRECT = {
    'htp_connp_REQ_PROTOCOL:look-ahead[in_current_len > (in_current_read_offset + HTTP09_MAX_JUNK_LEN)]': 'HTTP/0.9 probe: only taken for a request line without a protocol token, which is not a well-formed HTTP/1.x request',
    'htp_connp_REQ_PROTOCOL:look-ahead[htp_is_space(in_current_data[pos]) == 0]': 'HTTP/0.9 probe (junk after a protocol-less request line), same arm',
    'htp_connp_RES_HEADERS:look-ahead[out_current_read_offset < out_current_len]': 'next_no_lf only matters for a header line that consists of one LWS byte and LF, which well-formed messages do not contain',
    'htp_connp_RES_HEADERS:look-ahead[out_current_data[out_current_read_offset] != LF]': 'next_no_lf, same line shape',
    'htp_connp_RES_LINE:look-ahead[(out_current_read_offset + 1) < out_current_len]': 'only evaluated when the status line does not look like one (htp_treat_response_line_as_body), i.e. for ill-formed responses',
    'htp_connp_RES_LINE:look-ahead[out_current_data[out_current_read_offset] == 72]': 'same arm ("next line begins with H")',
    'htp_connp_RES_LINE:look-ahead[out_current_len <= out_current_read_offset]': 'same arm ("whole chunk was body")',
}


def commit_actions(st, d):
    out = []
    for c in nodes(st, lambda y: y.get('k') == 'call'):
        cal = c.get('callee')
        if cal is None:
            fld = P.member_field(c.get('fnexpr'))
            if fld in ('process_request_header', 'process_response_header', 'parse_request_line', 'parse_response_line'):
                out.append('calls cfg->' + fld)
        elif cal.startswith('htp_tx_state_') or cal in ('htp_tx_req_process_body_data_ex', 'htp_tx_res_process_body_data_ex', 'htp_hook_run_all', 'htp_hook_run_one', 'htp_connp_REQ_LINE_complete'):
            out.append('calls ' + cal)
    for a in nodes(st, lambda y: y.get('k') == 'assign'):
        f = P.member_field(a['l'])
        if f in ('in_state', 'out_state'):
            out.append('sets %s = %s' % (f, P.K(a['r'])))
        if f == 'flags' and a['op'] == '|=':
            out.append('raises ' + (lit_name(a['r']) or '?'))
    return out


def walk_no_byte(fn, start, d):
    """paths from just after start with next_byte == -1 and the chunk exhausted; returns list of (commits, end, closed, facts)"""
    nb = 'connp->%s_next_byte' % d
    off, ln = 'connp->%s_current_read_offset' % d, 'connp->%s_current_len' % d
    st_closed = ('connp->%s_status' % d, 'HTP_STREAM_CLOSED')
    out = []

    def decide(a, val=-1):
        l, op, r = a
        if l == nb:
            if r in ('LF', 'CR'):
                rv = {'LF': 10, 'CR': 13}[r]
            else:
                try:
                    rv = int(r)
                except ValueError:
                    return None
            return {'==': val == rv, '!=': val != rv, '<': val < rv, '<=': val <= rv, '>': val > rv, '>=': val >= rv}[op]
        if l == 'htp_is_folding_char(%s)' % nb and r == '0':
            fold = val in (32, 9, 0)
            return {'==': not fold, '!=': fold}.get(op)
        if l == off and r == ln:
            return {'>=': True, '<': False}.get(op)
        if l == '(%s + 1)' % off and r == ln:
            return {'<': False, '>=': True}.get(op)
        if l == ln and r == off:
            return {'<=': True, '>': False}.get(op)
        return None

    def rec(b, i0, commits, closed, visited, facts, depth, val=-1):
        if depth > 300:
            return
        blk = fn.blocks[b]
        commits = list(commits)
        for i in range(i0 + 1, len(blk['stmts'])):
            s = blk['stmts'][i]
            if any(P.K(a['l']) == nb for a in nodes(s, lambda y: y.get('k') == 'assign')) and (b, i) != start:
                # the byte variable is re-read: a fresh peek/copy under the same exhausted chunk is analysed as its own site
                rhs = strip([a for a in nodes(s, lambda y: y.get('k') == 'assign') if P.K(a['l']) == nb][0]['r'])
                if rhs.get('k') == 'lit':
                    val = rhs['v']               # the code substitutes a byte of its own (e.g. treats a lone CR as LF)
                else:
                    out.append((commits, ('reads', s), closed, facts))
                    return
            commits += commit_actions(s, d)
            if s.get('k') == 'return':
                out.append((commits, ('return', s), closed, facts))
                return
        succs = blk['succs']
        two = fn.cond_of(b) is not None
        for j, s_ in enumerate(succs):
            if s_ is None:
                continue
            nf, ncl = facts, closed
            if two:
                a = P.canon(blk['stmts'][-1], j == 0)
                if a:
                    dd = decide(a, val)
                    if dd is False:
                        continue
                    if (a[0], a[2]) == st_closed:
                        if a[1] == '==':
                            ncl = True
                        elif a[1] == '!=':
                            ncl = False if closed is None else closed
                    nf = facts + [a]
            if (s_, ncl) in visited:
                continue
            rec(s_, -1, commits, ncl, visited | {(s_, ncl)}, nf, depth + 1, val)
    rec(start[0], start[1], [], None, {(start[0], None)}, [], 0)
    return out


def site_name(fn, b, d, idx):
    """semantic, line-free name of a peek site: what was the previous byte, and what does the code ask about the peeked one"""
    nb = 'connp->%s_next_byte' % d
    facts = [a for a, e in P.facts_at(fn, b)]
    prev = [a for a in facts if a[0] == nb]
    # the previous byte is known either positively or as the else-arm of a CR test under "is LF or CR"
    pv = '+'.join(sorted({a[2] for a in prev if a[1] == '=='}))
    if not pv and any(a[1] == '!=' and a[2] == 'CR' for a in prev):
        pv = 'LF'
    if any(a[0] == 'lfcrending' and a[1] == '!=' for a in facts):
        pv += '(after LF CR)'
    # first question asked about the peeked byte: walk forward to the first branch whose condition mentions next_byte
    ask = None
    seen = set()
    w = [s for s in fn.blocks[b]['succs'] if s is not None]
    while w and ask is None:
        c_ = w.pop(0)
        if c_ in seen:
            continue
        seen.add(c_)
        cnd = fn.cond_of(c_)
        if cnd:
            a = P.canon(cnd[0])
            if a and nb in a[0]:
                ask = ('folding-char?' if 'htp_is_folding_char' in a[0] else 'is %s?' % a[2])
                break
        w += [s for s in fn.blocks[c_]['succs'] if s is not None]
    return 'after[%s]:asks[%s]' % (pv or 'line', ask or 'nothing')


def run(repo='/repo', tier='quick'):
    res = Result('C03')
    db = load(repo)
    res.rule('C03.a', 'look-ahead defers at end of chunk: from every peek that finds no byte (next_byte = -1) no commit action (header/line processing, state change, hook, body delivery, flag) is reached before the function returns DATA/DATA_BUFFER - unless the stream is closed')
    res.rule('C03.b', 'carry protocol: a byte accumulated without being consumed is never followed by `return HTP_DATA` (it must be HTP_DATA_BUFFER); a state function that interpreted a consolidated line clears the buffer before returning OK; lines are read only through the consolidated view')
    res.rule('C03.c', 'bytes carried across calls are appended at the running fill offset of their buffer')
    nsites = 0
    for d in ('in', 'out'):
        nb = '%s_next_byte' % d
        for name in P.state_functions(db, d):
            f = db.get(name)
            idx = 0
            seen_keys = {}
            for b, i, x in sorted(P.field_writes(f, nb), key=lambda t: (-t[0], t[1])):
                if not (x['k'] == 'assign' and is_lit(x['r'], -1)):
                    continue
                # is this the exhausted arm of a *peek* (the else arm does not advance the read offset)?
                preds = f.preds.get(b, [])
                if not preds:
                    continue
                sib = [s for s in f.blocks[preds[0]]['succs'] if s is not None and s != b]
                advancing = any(P.assigns_field(st, '%s_current_read_offset' % d) for s in sib for st in f.blocks[s]['stmts'])
                if advancing:
                    continue
                nsites += 1
                tag = site_name(f, b, d, idx)
                idx += 1
                key = '%s:%s' % (name, tag)
                seen_keys[key] = seen_keys.get(key, 0) + 1
                if seen_keys[key] > 1:
                    key += '#%d' % seen_keys[key]
                paths = walk_no_byte(f, (b, i), d)
                open_commits = [p for p in paths if p[0] and p[2] is not True]
                closed_commits = [p for p in paths if p[0] and p[2] is True]
                if not open_commits:
                    how = 'DEFER' if not closed_commits else 'CLOSED-ONLY'
                    ends = sorted({(lit_name(P.ret_value(p[1][1])) or 'call') if p[1][0] == 'return' else 'reads-again' for p in paths})
                    res.holds('C03.a', key, '%s: with no byte available %d path(s) end in %s without any commit action%s' % (how, len(paths), '/'.join(ends), ' (commits only when the stream is closed)' if closed_commits else ''), x['loc'])
                elif key in AGREE:
                    res.holds('C03.a', key, 'commits at end of chunk (%s) but the outcome agrees with every byte a well-formed stream can carry here: %s' % ('; '.join(sorted(set(open_commits[0][0]))[:3]), AGREE[key]), x['loc'])
                else:
                    acts = sorted({a for p in open_commits for a in p[0]})
                    res.violated('C03.a', key, 'end of chunk is taken as a decision: with no byte to look at, %s goes on to %s instead of deferring (HTP_DATA_BUFFER); a byte arriving in the next chunk could have reversed it, so the parse depends on where the stream was cut'
                                 % (name, '; '.join(acts[:4])), x['loc'], guards=[str(a) for a in open_commits[0][3][-6:]])
    res.floor('C03.a', 'peek sites', nsites, 10)

    # ---------------- C03.d direct look-aheads (decisions on how many bytes of the stream happen to be in this chunk)
    res.rule('C03.d', 'decisions that read the chunk beyond the cursor, or compare the cursor with the chunk length, outside the byte macros and the min(left, available) shape are enumerated; each is a reviewed heuristic for ill-formed input - a new one is an alarm')
    MACROS = ('IN_TEST_NEXT_BYTE_OR_RETURN', 'IN_PEEK_NEXT', 'IN_NEXT_BYTE', 'IN_NEXT_BYTE_OR_RETURN', 'IN_COPY_BYTE_OR_RETURN',
              'OUT_TEST_NEXT_BYTE_OR_RETURN', 'OUT_PEEK_NEXT', 'OUT_NEXT_BYTE', 'OUT_NEXT_BYTE_OR_RETURN', 'OUT_COPY_BYTE_OR_RETURN')
    nla = 0
    for d in ('in', 'out'):
        off, ln, cur = 'connp->%s_current_read_offset' % d, 'connp->%s_current_len' % d, 'connp->%s_current_data' % d
        fns = P.state_functions(db, d) + (['data_probe_chunk_length'] if d == 'out' else [])
        for name in fns:
            f = db.get(name)
            for b in f.blocks:
                cnd = f.cond_of(b)
                if not cnd:
                    continue
                cexp = cnd[0]
                if cexp.get('macro') in MACROS:
                    continue
                a = P.canon(cexp)
                if not a:
                    continue
                txt = '%s %s %s' % a
                direct = (cur + '[') in txt
                lencmp = (ln in txt and off in txt)
                span = ('%s_current_consume_offset' % d) in txt and off in txt and a[2].isdigit()
                if not (direct or lencmp or span):
                    continue
                if span and not direct and not lencmp:
                    # carry size + unconsumed span = length of the line so far, the same for every segmentation: not a look-ahead
                    carry = '%s_buf_size' % d
                    locs = {v['name'] for v in nodes(cexp, lambda y: y.get('k') == 'var' and y.get('decl') == 'local')}
                    carried = {v for v in locs if P.local_init_from(f, lambda e, v=v: e is not None and any(m.get('field') == carry for m in nodes(e, lambda y: y.get('k') == 'member'))) == v}
                    if carry in txt or carried:
                        continue
                # the bulk shape min(left, len - off) and the driver-style exhaustion test are not look-aheads
                if a[0] == '(%s - %s)' % (ln, off) and a[1] in ('>=', '<') and ('left' in a[2] or 'chunked_length' in a[2]):
                    continue
                nla += 1
                key = '%s:look-ahead[%s]' % (name, txt.replace('connp->', ''))
                reason = DIRECT.get(key)
                if reason:
                    res.holds('C03.d', key, 'reviewed heuristic: ' + reason, cexp['loc'])
                else:
                    res.violated('C03.d', key, '%s decides on `%s`, i.e. on how much of the stream happens to be in this chunk, and is not one of the reviewed heuristics: the parse can differ with the segmentation' % (name, txt), cexp['loc'])
    res.floor('C03.d', 'direct look-ahead conditions', nla, 5)

    # ---------------- C03.b (i) accumulate => DATA_BUFFER
    nacc = 0
    for d in ('in', 'out'):
        for name in P.state_functions(db, d):
            f = db.get(name)
            # accumulate-style advance: a block that does read_offset++ without consume_offset++
            for b, blk in f.blocks.items():
                r = [w for st in blk['stmts'] for w in P.assigns_field(st, '%s_current_read_offset' % d) if w.get('op', '').startswith('++')]
                c = [w for st in blk['stmts'] for w in P.assigns_field(st, '%s_current_consume_offset' % d) if w.get('op', '').startswith('++')]
                if not r or c:
                    continue
                nacc += 1
            # every exhausted-arm return in a function that accumulates must be DATA_BUFFER
            accumulates = any([w for st in blk['stmts'] for w in P.assigns_field(st, '%s_current_read_offset' % d) if w.get('op', '').startswith('++')] and
                              not [w for st in blk['stmts'] for w in P.assigns_field(st, '%s_current_consume_offset' % d) if w.get('op', '').startswith('++')] for blk in f.blocks.values())
            if not accumulates:
                continue
            for b, i, st in f.returns():
                nm = lit_name(P.ret_value(st))
                if nm != 'HTP_DATA':
                    continue
                # is an accumulated, unconsumed byte possible here? i.e. can this return be reached from an accumulate block without a clear/consume in between
                reach = False
                for ab, blk in f.blocks.items():
                    if not ([w for s2 in blk['stmts'] for w in P.assigns_field(s2, '%s_current_read_offset' % d) if w.get('op', '').startswith('++')] and
                            not [w for s2 in blk['stmts'] for w in P.assigns_field(s2, '%s_current_consume_offset' % d) if w.get('op', '').startswith('++')]):
                        continue
                    hit = [False]

                    def visit(bb, ii, s2):
                        if (bb, ii) == (b, i):
                            hit[0] = True
                            return True
                        for c2 in nodes(s2, lambda y: y.get('k') == 'call' and (y.get('callee') or '').endswith('_clear_buffer')):
                            return True
                        if P.assigns_field(s2, '%s_current_consume_offset' % d, '='):
                            return True
                        return False
                    C.forward(f, (ab, len(blk['stmts']) - 1), visit)
                    reach = reach or hit[0]
                key = '%s:return-HTP_DATA-after-accumulate' % name
                if reach:
                    res.violated('C03.b', key, '%s can return HTP_DATA after copying a byte that it has not consumed: the driver does not buffer on HTP_DATA, so the partial line is lost at the chunk boundary' % name, st['loc'])
                else:
                    res.holds('C03.b', key, 'HTP_DATA is only returned with nothing accumulated', st['loc'])
    res.floor('C03.b', 'accumulating blocks', nacc, 10)
    # (ii) consolidate => clear before OK
    for d, side in (('in', 'req'), ('out', 'res')):
        cons = 'htp_connp_%s_consolidate_data' % side
        clear = 'htp_connp_%s_clear_buffer' % side
        for name in P.state_functions(db, d) + (['htp_connp_REQ_LINE_complete'] if d == 'in' else []):
            f = db.get(name)
            calls = f.calls(cons)
            if not calls:
                continue
            peek_only = not f.calls(clear) and not P.field_writes(f, '%s_current_consume_offset' % d)
            for cb, ci, cc in calls:
                n, bad, bad_again = 0, None, None
                heads = {h for h, body in C.loops(f) if cb in body}
                try:
                    paths = list(P.enum_paths_seq(f, (cb, ci), max_paths=50000))
                except AnalysisBroken:
                    res.unknown('C03.b', '%s:consolidate-then-clear' % name, 'too many paths after the consolidated view', cc['loc'])
                    continue
                for atoms, events, end, seq in paths:
                    again = end[0] == 'loop' and end[1] in heads   # back to the head of a loop around the call: the function will consolidate again
                    if end[0] == 'loop' and not again:
                        continue
                    if not again and (end[0] != 'return' or lit_name(P.ret_value(end[3])) != 'HTP_OK'):
                        continue
                    n += 1
                    cleared = any(x[0] == 'stmt' and any(c2.get('callee') == clear for c2 in nodes(x[3], lambda y: y.get('k') == 'call')) for x in seq)
                    handed = any(x[0] == 'stmt' and any((c2.get('callee') or '').startswith('htp_tx_state_re') and (c2.get('callee') or '').endswith(('_complete', '_complete_ex')) for c2 in nodes(x[3], lambda y: y.get('k') == 'call')) for x in seq)
                    rewound = any(x[0] == 'stmt' and any(w.get('op') in ('=', '-=') for w in P.assigns_field(x[3], '%s_current_read_offset' % d)) for x in seq)
                    if not (cleared or handed or rewound or peek_only):
                        consumed = any(x[0] == 'stmt' and P.assigns_field(x[3], '%s_current_consume_offset' % d) for x in seq)
                        if again and not consumed:
                            pass                             # the line is not complete yet (CR CR LF): nothing was consumed, the next consolidation appends only new bytes
                        elif again:
                            bad_again = [x for x in seq if x[0] == 'stmt'][-1][3] if [x for x in seq if x[0] == 'stmt'] else cc
                        else:
                            bad = end[3]
                if bad_again is not None:
                    res.violated('C03.b', '%s:consolidate-again-without-clear' % name, '%s interprets the consolidated line, advances the consumer position and goes round its loop to consolidate the next line without clearing the line buffer: when the line started in the previous chunk it is prepended to (and, in a body state, counted with) the next line as well' % name, bad_again.get('loc', cc['loc']))
                elif any(end[0] == 'loop' and end[1] in heads for atoms, events, end, seq in paths):
                    res.holds('C03.b', '%s:consolidate-again-without-clear' % name, 'every way round the loop after a consolidated view clears the buffer', cc['loc'])
                key = '%s:consolidate-then-clear' % name
                if bad is not None:
                    res.violated('C03.b', key, '%s interprets the consolidated line and returns HTP_OK on a path that neither clears the line buffer nor hands the bytes on: a line that was carried over from the previous chunk stays buffered and is prepended to the next line' % name, bad['loc'])
                elif n:
                    res.holds('C03.b', key, 'all %d OK paths after the consolidated view clear the buffer (or hand the bytes to the next message / rewind / only peek)' % n, cc['loc'])
    # (ii-b) rewinds after a consolidated view
    res.rule('C03.e', 'un-reading a peeked line: a state function that rewinds the read offset after taking the consolidated view rewinds by exactly the consolidated length (clamped at 0) and does not leave bytes of that line in the carry buffer')
    for d, side in (('in', 'req'), ('out', 'res')):
        cons = 'htp_connp_%s_consolidate_data' % side
        clear = 'htp_connp_%s_clear_buffer' % side
        offk = 'connp->%s_current_read_offset' % d
        for name in P.state_functions(db, d):
            f = db.get(name)
            rew = [(b, i, w) for b, i, w in P.field_writes(f, '%s_current_read_offset' % d) if w.get('op') in ('=', '-=')]
            if not rew or not f.calls(cons):
                continue
            L = None
            for cb, ci, cc in f.calls(cons):
                a2 = strip(cc['args'][2])
                if a2.get('k') == 'un' and a2['op'] == '&':
                    L = P.K(a2['e'])
            okamount = True
            for b, i, w in rew:
                facts = [a for a, e in P.facts_at(f, b)]
                if w['op'] == '-=':
                    if P.K(w['r']) != L or not any((a[0] == offk and a[1] == '>=' and a[2] == L) or (a[0] == L and a[1] == '<=' and a[2] == offk) for a in facts):
                        okamount = False
                else:
                    if not (is_lit(w['r'], 0) and any((a[0] == offk and a[1] == '<' and a[2] == L) or (a[0] == L and a[1] == '>' and a[2] == offk) for a in facts)):
                        okamount = False
            res.check(okamount, 'C03.e', '%s:rewind-amount' % name, 'the read offset is rewound by the consolidated length %s, clamped at 0' % L,
                      '%s rewinds the read offset by something other than the length of the consolidated view (%s): the peeked line is re-read from the wrong place when part of it was carried over from the previous chunk' % (name, L), rew[0][2]['loc'])
            keeps = False
            for cb, ci, cc in f.calls(cons):
                for atoms, events, end, seq in P.enum_paths_seq(f, (cb, ci), max_paths=50000):
                    if end[0] != 'return':
                        continue
                    rw = any(x[0] == 'stmt' and any(w.get('op') in ('=', '-=') for w in P.assigns_field(x[3], '%s_current_read_offset' % d)) for x in seq)
                    cl = any(x[0] == 'stmt' and any(c2.get('callee') == clear for c2 in nodes(x[3], lambda y: y.get('k') == 'call')) for x in seq)
                    # or the buffer is cut back to what it held before the consolidation appended this chunk's bytes:
                    # {d}_buf_size = V with V a local that was loaded from {d}_buf_size in front of the consolidate call
                    saved = {v for v in [P.local_init_from(f, lambda e: e is not None and any(m.get('field') == '%s_buf_size' % d for m in nodes(e, lambda y: y.get('k') == 'member')))] if v}
                    dom = C.dominators(f)
                    pre = {v for v in saved for b_, i_, st_ in f.stmts() if ((b_ in dom[cb] and b_ != cb) or (b_ == cb and i_ < ci))
                           and any((x_['k'] == 'decl' and any(vv['name'] == v and vv.get('init') is not None for vv in x_['vars'])) or (x_['k'] == 'assign' and P.K(x_['l']) == v) for x_ in nodes(st_, lambda y: y.get('k') in ('decl', 'assign')))}
                    rs = any(x[0] == 'stmt' and any(w.get('op') == '=' and P.K(w['r']) in pre for w in P.assigns_field(x[3], '%s_buf_size' % d)) for x in seq)
                    nobuf = any(a_[0] == 'connp->%s_buf' % d and a_[1] == '==' and a_[2] == '0' for a_, bb_ in atoms)     # no carry buffer on this path
                    if rw and not (cl or rs or nobuf):
                        keeps = True
            res.check(not keeps, 'C03.e', '%s:rewind-keeps-buffer' % name, 'when the line is un-read the carry buffer is cleared or cut back to what it held before the consolidation',
                      '%s un-reads the peeked line by rewinding the read offset but leaves the copy that htp_connp_%s_consolidate_data() made in the carry buffer: when the line started in the previous chunk its bytes are seen twice (or never) by the next state' % (name, side), rew[0][2]['loc'])
    # (iii) state functions read lines only through the consolidated view
    helpers = {'htp_connp_req_buffer', 'htp_connp_res_buffer', 'htp_connp_req_consolidate_data', 'htp_connp_res_consolidate_data',
               'htp_connp_req_receiver_send_data', 'htp_connp_res_receiver_send_data'}

    def consults_carry(f, d):
        # a function that looks at the raw span AND at the bytes in the carry buffer sees the whole line (subscript or pointer read of {in,out}_buf, not just a NULL test)
        for b_, i_, st_ in f.stmts():
            for x_ in nodes(st_, lambda y: y.get('k') == 'index' or (y.get('k') == 'bin' and y.get('op') == '+')):
                base = x_.get('base') if x_['k'] == 'index' else x_.get('l')
                if P.member_field(base) == '%s_buf' % d:
                    return True
        return False
    for d in ('in', 'out'):
        want = '(connp->%s_current_data + connp->%s_current_consume_offset)' % (d, d)
        for n_, f in sorted(db.fn.items()):
            for b, i, st in f.stmts():
                for x in nodes(st, lambda y: y.get('k') == 'bin' and y['op'] == '+'):
                    if P.K(x) == want:
                        res.check(n_ in helpers or consults_carry(f, d), 'C03.b', '%s:raw-line-view' % n_, 'the raw unconsumed span is read only by the buffering helpers, or together with the carry buffer',
                                  '%s reads current_data + consume_offset directly: bytes buffered from earlier chunks are not part of that view' % n_, x['loc'])
    # ---------------- C03.f  the carry buffer and its size are one value
    res.rule('C03.f', 'the carry buffer pointer and its size change together: every store to {in,out}_buf is followed on every path (other than the allocation-failed exit) by a store of the matching size to {in,out}_buf_size - NULL with 0, malloc(N) with N, realloc(_, N) with N; the limit check reads the size without looking at the pointer')
    nbuf = 0
    for d in ('in', 'out'):
        bf, sz = d + '_buf', d + '_buf_size'
        for n_, f in sorted(db.fn.items()):
            for b, i, x in P.field_writes(f, bf):
                if x['k'] != 'assign' or x.get('op') != '=' or strip(x['l']).get('rec') != 'htp_connp_t':
                    continue
                nbuf += 1
                r = strip(x['r'])
                want = None
                if is_lit(r, 0):
                    want = '0'
                else:
                    src = r
                    if r.get('k') == 'var':
                        inits = [v['init'] for bb, ii, s2 in f.stmts() for dcl in nodes(s2, lambda y: y.get('k') == 'decl') for v in dcl['vars'] if v.get('did') == r.get('did') and 'init' in v]
                        src = strip(inits[0]) if len(inits) == 1 else None
                    if src is not None and src.get('k') == 'call' and src.get('callee') in ('malloc', 'realloc'):
                        want = P.K(src['args'][-1])
                key = '%s:%s=%s' % (n_, bf, P.K(x['r'])[:30])
                if want is None:
                    res.unknown('C03.f', key, 'store to the carry buffer pointer from a source whose size is not recognised', x['loc'])
                    continue
                lk = P.K(x['l'])

                def edge_ok(bb, j):                       # leave out the allocation-failed arm (pointer tested NULL right after the store)
                    c = f.cond_of(bb)
                    if c:
                        a = P.canon(c[0])
                        if a and a[0] == lk and a[2] == '0' and ((a[1] == '==' and j == 0) or (a[1] == '!=' and j == 1)):
                            return False
                    return True
                ok, why = C.every_path_passes(f, (b, i), None, lambda st: any(w['k'] == 'assign' and w.get('op') == '=' and P.K(w['r']) == want for w in P.assigns_field(st, sz)), edge_ok)
                if not ok:                                # or the size was stored just before, in the same block
                    ok = any(w['k'] == 'assign' and w.get('op') == '=' and P.K(w['r']) == want for ii in range(i) for w in P.assigns_field(f.blocks[b]['stmts'][ii], sz))
                res.check(ok, 'C03.f', key, '%s = %s follows on every path' % (sz, want),
                          '%s stores %s without setting %s to %s on every path: the hard-limit check (%s + len) and the append offset read the size on their own, so what a later line may buffer depends on how earlier lines were cut' % (n_, S(x)[:60], sz, want, sz), x['loc'])
    res.floor('C03.f', 'stores to the carry buffer pointers', nbuf, 6)
    # ---------------- C03.c
    for name in ('htp_connp_req_buffer', 'htp_connp_res_buffer'):
        f = db.get(name)
        d = 'in' if 'req' in name else 'out'
        ok = False
        # locals with a single initialiser are expanded, so that `newsize - buf_size` is the same count as `len`
        inits = {}
        for bb, ii, s2 in f.stmts():
            for dcl in nodes(s2, lambda y: y.get('k') == 'decl'):
                for v in dcl['vars']:
                    if v.get('init') is not None:
                        inits.setdefault(v['name'], []).append(P.K(v['init']))

        def expand(t):
            for nm, vs in inits.items():
                if len(vs) == 1 and nm != 'len':
                    t = re.sub(r'\b%s\b' % re.escape(nm), vs[0], t)
            return t
        sz_ = 'connp->%s_buf_size' % d
        counts_ok = {'len', '((%s + len) - %s)' % (sz_, sz_), '((len + %s) - %s)' % (sz_, sz_)}
        for b, i, c in f.calls('memcpy'):
            if P.K(c['args'][0]) == '(connp->%s_buf + connp->%s_buf_size)' % (d, d) and expand(P.K(c['args'][2])) in counts_ok:
                # the size is then advanced by len
                w = [x for bb, ii, x in P.field_writes(f, '%s_buf_size' % d) if bb == b and ii > i]
                ok = bool(w) and ((w[0].get('op') == '=' and expand(P.K(w[0]['r'])) in ('(%s + len)' % sz_, '(len + %s)' % sz_)) or (w[0].get('op') == '+=' and P.K(w[0]['r']) == 'len'))
        res.check(ok, 'C03.c', name + ':append-at-fill', 'new bytes are copied to buf + buf_size and buf_size grows by the same len',
                  'the carried-over line is not extended at buf + buf_size (or the size is not advanced by the copied length): bytes of a line cut by a chunk boundary are overwritten or skipped', f.loc)
    # ... and after the bytes were copied into the carry buffer the consumer position is moved up to the read position on every
    # path (otherwise the same bytes are buffered again by the next consolidation that is not followed by a clear)
    for name in ('htp_connp_req_buffer', 'htp_connp_res_buffer'):
        f = db.get(name)
        d = 'in' if 'req' in name else 'out'
        isreset = lambda st, d=d: any(w['k'] == 'assign' and w['op'] == '=' and P.K(w['r']).endswith('%s_current_read_offset' % d) for w in P.assigns_field(st, '%s_current_consume_offset' % d))
        for b, i, c in f.calls('memcpy'):
            okr = True
            for atoms, events, end, seq in P.enum_paths_seq(f, (b, i)):
                if end[0] == 'return' and lit_name(P.ret_value(end[3])) == 'HTP_OK' or end[0] == 'exit':
                    if not any(x[0] == 'stmt' and isreset(x[3]) for x in seq):
                        okr = False
            res.check(okr, 'C03.c', '%s:consume-reset-after-copy:%s' % (name, P.K(c['args'][0])[:40]), 'consume offset = read offset on every successful path after the copy',
                      '%s copies the unconsumed bytes into the carry buffer and can return HTP_OK without moving %s_current_consume_offset up to the read offset: the next consolidation appends the same bytes again (the request line comes out with a duplicated tail when it is split inside a state that does not clear the buffer)' % (name, d), c['loc'])
    for fn in db.fn.values():
        for b, i, c, cnt, ok in P.accumulate_sites(fn):
            res.check(ok, 'C03.c', '%s:accumulate:%s' % (fn.name, cnt), 'memcpy appends at the counter that is then advanced', 'memcpy into a buffer whose fill counter %s is advanced by the same length does not target buffer + %s' % (cnt, cnt), c['loc'])
    res.assumptions += ['the statement is about well-formed exchanges: look-ahead sites whose two outcomes agree on well-formed input are tabled with their reason (AGREE) rather than alarmed',
                        'equality of the two parses as values is not decided; multipart / urlencoded carry state is covered by C14 / C15']
    from . import sentinel
    sentinel.run(db, res, 'C03.g', lambda f: not f.loc.startswith('htp/htp_urlencoded.c') and not f.loc.startswith('htp/lzma'), 6)
    from . import mirror
    mirror.run(db, res, 'C03.h', [('htp_connp_req_clear_buffer', 'htp_connp_res_clear_buffer', None), ('htp_connp_req_consolidate_data', 'htp_connp_res_consolidate_data', None),
                                  ('htp_connp_req_receiver_finalize_clear', 'htp_connp_res_receiver_finalize_clear', None), ('htp_connp_req_receiver_send_data', 'htp_connp_res_receiver_send_data', None),
                                  ('htp_connp_req_receiver_set', 'htp_connp_res_receiver_set', None),
                                  ('htp_connp_req_buffer', 'htp_connp_res_buffer', (('IF len == 0', 'return HTP_OK'), (), 'the request side returns early when there is nothing to buffer'))])
    c03i(db, res)
    return res


BUF_OWNERS = {'in': {'htp_connp_req_buffer', 'htp_connp_req_clear_buffer', 'htp_connp_destroy', 'htp_connp_create'}, 'out': {'htp_connp_res_buffer', 'htp_connp_res_clear_buffer', 'htp_connp_destroy', 'htp_connp_create'}}


def c03i(db, res):
    """The carry buffer holds the first part of a line whose rest has not arrived yet. It belongs to the buffering helpers: only
    they store, free or reallocate it. Anybody else who releases it (a clean-up at the end of a transaction, say) throws away
    the beginning of the next message when that was cut by a chunk boundary."""
    res.rule('C03.i', 'only the buffering helpers touch the carry buffer: every store to {in,out}_buf and every free / realloc of it is in htp_connp_{req,res}_buffer, htp_connp_{req,res}_clear_buffer or the connection parser\'s constructor / destructor')
    n = 0
    for name, f in sorted(db.fn.items()):
        if not f.blocks:
            continue
        for d in ('in', 'out'):
            fld = '%s_buf' % d
            sites = [w for b, i, w in P.field_writes(f, fld)]
            sites += [c for b, i, c in f.calls() if c.get('callee') in ('free', 'realloc') and c.get('args') and P.member_field(c['args'][0]) == fld]
            for w in sites:
                n += 1
                res.check(name in BUF_OWNERS[d], 'C03.i', '%s:touches:%s' % (name, fld), 'a buffering helper',
                          '%s stores to / releases connp->%s: when the beginning of a line is waiting there for its rest (the line was cut by a chunk boundary) those bytes are lost, and the same bytes delivered in one piece are not' % (name, fld), w.get('loc', f.loc))
    res.floor('C03.i', 'stores to / releases of the carry buffers', n, 8)
