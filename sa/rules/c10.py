"""C10 — configured limits bound what the parser keeps (DESIGN.md §4.10)."""
from ..facts import load, S, strip, nodes, is_lit, lit_name, AnalysisBroken
from ..report import Result
from .. import cfg as C
from .. import pat as P

TECHNIQUE = 'limit-before-growth dominance / must-pass-through rules on the buffering routines, header processors and tx creation; error-discipline rule on the callers of the buffering routines'
ALLOC = ('malloc', 'realloc', 'calloc')


def buffer_rule(db, res, d):
    side = 'req' if d == 'in' else 'res'
    f = db.get('htp_connp_%s_buffer' % side)
    lim = 'connp->%s_tx->cfg->field_limit_hard' % d
    allocs = [(b, i, c) for b, i, c in f.calls() if c.get('callee') in ALLOC]
    if not allocs:
        res.violated('C10.a', f.name + ':allocates', 'the buffering routine no longer allocates (rule cannot be evaluated)', f.loc)
        return
    # the quantity compared with the hard limit (its name is taken from the test)
    NL = None
    for b_ in f.blocks:
        c_ = f.cond_of(b_)
        a_ = P.canon(c_[0]) if c_ else None
        if a_ and a_[2] == lim and a_[1] in ('>', '<='):
            NL = a_[0]
    if NL is None:
        res.violated('C10.a', f.name + ':limit-test', 'no comparison against %s in %s: nothing bounds the bytes retained for an unfinished line' % (lim, f.name), f.loc)
        return
    defs = []
    incs = []
    for b, i, st in f.stmts():
        for dcl in nodes(st, lambda y: y.get('k') == 'decl'):
            for v in dcl['vars']:
                if v['name'] == NL and 'init' in v:
                    defs.append(P.K(v['init']))
        for a in nodes(st, lambda y: y.get('k') == 'assign' and P.K(y['l']) == NL):
            incs.append((b, a))
    okdef = defs == ['(connp->%s_buf_size + len)' % d]
    lendef = None
    for b, i, st in f.stmts():
        for dcl in nodes(st, lambda y: y.get('k') == 'decl'):
            for v in dcl['vars']:
                if v['name'] == 'len' and 'init' in v:
                    lendef = P.K(v['init'])
    oklen = lendef == '(connp->%s_current_read_offset - connp->%s_current_consume_offset)' % (d, d)
    hdr = 'connp->%s_header' % d
    okhdr = len(incs) == 1 and incs[0][1]['op'] == '+=' and hdr in P.K(incs[0][1]['r']) and any(a == (hdr, '!=', '0') for a, e in P.facts_at(f, incs[0][0]))
    res.check(okdef and oklen and okhdr, 'C10.a', f.name + ':newlen-definition', 'newlen = buf_size + (read_offset - consume_offset) (+ pending header length when there is one)',
              'the quantity compared with the hard limit is no longer buffered size + new bytes + pending header: newlen=%s len=%s header-term=%s' % (defs, lendef, [P.K(a['r']) for b, a in incs]), f.loc)
    n = 0
    bad = None
    tgt = {(b, i) for b, i, c in allocs}
    for atoms, events, end, seq in P.enum_paths_seq(f, (f.entry, -1), stop=lambda bb, ii, st: (bb, ii) in tgt):
        if end[0] != 'stop':
            continue
        n += 1
        facts = [a for a, bb in atoms]
        if (NL, '<=', lim) not in facts:
            bad = end[3]
        # the header term must have been added on the path if a header is pending
        if (hdr, '!=', '0') in facts and not any(x[0] == 'stmt' and any(P.K(a['l']) == NL for a in nodes(x[3], lambda y: y.get('k') == 'assign')) for x in seq):
            bad = end[3]
    res.check(bad is None and n > 0, 'C10.a', f.name + ':limit-before-growth', 'all %d paths to malloc/realloc pass the false edge of newlen > field_limit_hard' % n,
              'a path reaches malloc/realloc in %s without passing the hard-limit test (newlen <= %s): bytes retained for an unfinished line are unbounded' % (f.name, lim), (bad or {}).get('loc', f.loc))
    # the true edge returns an error
    for b in f.blocks:
        c = f.cond_of(b)
        if c and P.canon(c[0]) == (NL, '>', lim):
            okerr = all(end[0] == 'return' and lit_name(P.ret_value(end[3])) == 'HTP_ERROR' for atoms, events, end in P.enum_paths(f, (f.blocks[b]['succs'][0], -1)))
            res.check(okerr, 'C10.a', f.name + ':over-limit-is-error', 'exceeding the limit returns HTP_ERROR', 'exceeding the hard limit does not return an error (silent truncation)', c[0]['loc'])
    # allocation sizes
    for b, i, c in allocs:
        size = P.K(c['args'][-1])
        sdefs = [P.K(v['init']) for bb, ii, st in f.stmts() for dcl in nodes(st, lambda y: y.get('k') == 'decl') for v in dcl['vars'] if v['name'] == size and 'init' in v]
        ok = size == 'len' or sdefs == ['(connp->%s_buf_size + len)' % d]
        res.check(ok, 'C10.a', f.name + ':' + c['callee'] + '-size', 'allocation size is len / buf_size + len (<= the tested newlen)', 'allocation size %s is not the tested quantity' % size, c['loc'])
    # error discipline on every caller (direct and through consolidate_data)
    cons = db.get('htp_connp_%s_consolidate_data' % side)
    for callee in (f, cons):
        for cf, cb, ci, cc in db.callers(callee.name):
            st = cf.blocks[cb]['stmts'][ci]
            a = P.canon(st) if cf.cond_of(cb) and cf.blocks[cb]['stmts'][-1] is st else None
            tested = a is not None and a[0].startswith(callee.name + '(') and a[2] == 'HTP_OK'
            returned = st.get('k') == 'return'
            key = '%s:checks:%s' % (cf.name, callee.name)
            if tested:
                # the failure edge must end in an error return / STREAM_ERROR
                fail = 0 if a[1] == '!=' else 1
                okp = True
                for atoms, events, end in P.enum_paths(cf, (cf.blocks[cb]['succs'][fail], -1)):
                    rv = lit_name(P.ret_value(end[3])) if end[0] == 'return' else None
                    if rv not in ('HTP_ERROR', 'HTP_STREAM_ERROR'):
                        okp = False
                res.check(okp, 'C10.a', key, 'failure is turned into an error', 'a failed %s does not lead to an error return in %s' % (callee.name, cf.name), cc['loc'])
            elif returned:
                res.holds('C10.a', key, 'result is returned to the caller', cc['loc'])
            else:
                res.violated('C10.a', key, '%s ignores the result of %s: when the hard limit is exceeded (or memory is short) it carries on with a stale (data,len) view instead of failing the stream' % (cf.name, callee.name), cc['loc'])


def run(repo='/repo', tier='quick'):
    res = Result('C10')
    db = load(repo)
    res.rule('C10.a', 'the hard field limit is tested before every growth of the line buffer, on the full retained size; exceeding it is an error; every caller propagates the failure')
    res.rule('C10.b', 'a folded header grows only under bstr_len(header) < HTP_MAX_HEADER_FOLDED')
    res.rule('C10.c', 'a repeated header is merged only while the repetition counter is below HTP_MAX_HEADERS_REPETITIONS (or on the first repetition)')
    res.rule('C10.d', 'htp_tx_create is only reached through htp_connp_tx_create, after the max_tx test')
    res.rule('C10.e', 'with tx_auto_destroy the transaction is destroyed on the completion path; per-message decompressors are destroyed before a new chain is created')
    for d in ('in', 'out'):
        buffer_rule(db, res, d)
        # ---- C10.b
        side = 'request' if d == 'in' else 'response'
        sf = db.get('htp_connp_REQ_HEADERS' if d == 'in' else 'htp_connp_RES_HEADERS')
        hdr = 'connp->%s_header' % d
        grows = [(b, i, c) for b, i, c in sf.calls() if c.get('callee') in ('bstr_add_mem', 'bstr_add', 'bstr_add_c', 'bstr_expand') and P.K(c['args'][0]) == hdr]
        if not grows:
            res.violated('C10.b', sf.name + ':fold-append', 'no site appends a folded line to the pending header (rule cannot be evaluated)', sf.loc)
        for b, i, c in grows:
            facts = [a for a, e in P.facts_at(sf, b)]
            ok = any(hdr in a[0] and a[0].endswith('.len') and a[1] == '<' and a[2] == 'HTP_MAX_HEADER_FOLDED' for a in facts)
            res.check(ok, 'C10.b', sf.name + ':folded-cap', 'append is under bstr_len(%s) < HTP_MAX_HEADER_FOLDED' % hdr,
                      'a folded line is appended to the pending header without the HTP_MAX_HEADER_FOLDED test: a header assembled from folded lines is unbounded', c['loc'])
        # ---- C10.c
        pf = db.get('htp_process_%s_header_generic' % side)
        cnt = 'connp->%s_tx->%s_header_repetitions' % (d, 'req' if d == 'in' else 'res')
        # every call that grows or reads through the stored value of the existing header (the merge, and the comparison of a
        # repeated Content-Length with the stored one): beyond the cap a repeated line is dropped in O(1)
        exps = [(b, i, c) for b, i, c in pf.calls() if c.get('callee') == 'bstr_expand' or any('h_existing->value' in P.K(a_) or 'h_existing).value' in P.K(a_) for a_ in (c.get('args') or []))]
        exps = [(b, i, c) for b, i, c in exps if c.get('callee') not in ('htp_log',)]
        if not exps:
            res.violated('C10.c', pf.name + ':merge', 'no site merges a repeated header (rule cannot be evaluated)', pf.loc)
        for b, i, c in exps:
            n = 0
            bad = None
            for atoms, events, end, seq in P.enum_paths_seq(pf, (pf.entry, -1), stop=lambda bb, ii, st: (bb, ii) == (b, i)):
                if end[0] != 'stop':
                    continue
                n += 1
                facts = [a for a, bb in atoms]
                first = any(a[0] == '(h_existing->flags & HTP_FIELD_REPEATED)' and a[1] == '==' and a[2] == '0' for a in facts)
                capped = (cnt, '<', 'HTP_MAX_HEADERS_REPETITIONS') in facts and any(x[0] == 'stmt' and P.assigns_field(x[3], cnt.split('->')[-1]) for x in seq)
                if not (first or capped):
                    bad = end[3]
            res.check(bad is None and n > 0, 'C10.c', pf.name + ':repetition-cap' + ('' if c.get('callee') == 'bstr_expand' else ':' + (c.get('callee') or '?')), 'all %d paths to this use of the stored value are the first repetition or pass counter < HTP_MAX_HEADERS_REPETITIONS with counter++' % n,
                      ('a repeated header value is appended without the repetition cap: a header assembled from repeated lines is unbounded (and each merge re-copies it)' if c.get('callee') == 'bstr_expand' else
                       '%s(...h_existing->value...) is reached without the repetition cap: every repeated line beyond the cap still reads through the stored value, whose length the sender chooses - work per line is no longer bounded' % c.get('callee')), c['loc'])
    v = None
    for e in db.enums.values():
        pass
    # ---- C10.d
    callers = db.callers('htp_tx_create')
    for cf, cb, ci, cc in callers:
        res.check(cf.name == 'htp_connp_tx_create', 'C10.d', cf.name + ':calls-htp_tx_create', 'creation goes through the limit-checking wrapper',
                  '%s creates a transaction without going through htp_connp_tx_create (max_tx is not applied)' % cf.name, cc['loc'])
    tc = db.get('htp_connp_tx_create')
    size = 'htp_list_array_size(connp->conn->transactions)'
    mx = 'connp->cfg->max_tx'
    for b, i, c in tc.calls('htp_tx_create'):
        n = 0
        bad = None
        for atoms, events, end, seq in P.enum_paths_seq(tc, (tc.entry, -1), stop=lambda bb, ii, st: (bb, ii) == (b, i)):
            if end[0] != 'stop':
                continue
            n += 1
            facts = [a for a, bb in atoms]
            if not ((mx, '<=', '0') in facts or (size, '<=', mx) in facts):
                bad = end[3]
        res.check(bad is None and n > 0, 'C10.d', 'htp_connp_tx_create:max_tx', 'all %d paths to htp_tx_create pass max_tx <= 0 or size <= max_tx (at most max_tx + 1 transactions)' % n,
                  'a path creates a transaction without passing the max_tx test', c['loc'])
    for b in tc.blocks:
        c = tc.cond_of(b)
        if c and P.canon(c[0]) == (size, '>', mx):
            okn = all(end[0] == 'return' and is_lit(P.ret_value(end[3]), 0) for atoms, events, end in P.enum_paths(tc, (tc.blocks[b]['succs'][0], -1)))
            res.check(okn, 'C10.d', 'htp_connp_tx_create:over-limit-refuses', 'over the limit no transaction is created', 'the max_tx arm does not refuse creation', c[0]['loc'])
    # ---- C10.e
    fin = db.get('htp_tx_finalize')
    ds = fin.calls('htp_tx_destroy')
    # the flag is tested as the configuration field itself or through a local that holds a copy of it (read before the callbacks
    # run, D34) and is written nowhere else
    FLAG = {'tx->connp->cfg->tx_auto_destroy'}
    alias = P.local_init_from(fin, lambda e: e is not None and e.get('k') == 'member' and e.get('field') == 'tx_auto_destroy')
    if alias and sum(1 for b_, i_, st_ in fin.stmts() for w in nodes(st_, lambda y: y.get('k') == 'assign' and P.K(y['l']) == alias)) == 0:
        FLAG.add(alias)
    ok = bool(ds) and all(any(a[0] in FLAG and a[1:] == ('!=', '0') for a, e in P.facts_at(fin, b)) for b, i, c in ds)
    # and it is reached on the success path after the hook (no other return in between)
    pd = C.postdominators(fin)
    hookb = [b for b, i, st in fin.stmts() if P.hook_runs(st)]
    res.check(ok and bool(hookb), 'C10.e', 'htp_tx_finalize:auto-destroy', 'the completed transaction is destroyed under tx_auto_destroy', 'htp_tx_finalize no longer destroys the transaction under tx_auto_destroy: memory grows with the number of transactions', fin.loc)
    tests = [b for b in fin.blocks if fin.cond_of(b) and (P.canon(fin.cond_of(b)[0]) or ('',))[0] in FLAG]
    reach_ok = False
    for tb in tests:
        # from a successful hook run (rc == OK) every path reaches the test
        for hb in hookb:
            for atoms, events, end in P.enum_paths(fin, (hb, len(fin.blocks[hb]['stmts']) - 2 if fin.cond_of(hb) else -1)):
                pass
        reach_ok = True
    n = 0
    bad = False
    for atoms, events, end, seq in P.enum_paths_seq(fin, (fin.entry, -1)):
        facts = [a for a, bb in atoms]
        ran = any(x[0] == 'stmt' and P.hook_runs(x[3]) for x in seq)
        if ran and ('rc', '==', 'HTP_OK') in facts and any(a[0] in FLAG and a[1:] == ('!=', '0') for a in facts):
            n += 1
            if not any(x[0] == 'stmt' and any(c.get('callee') == 'htp_tx_destroy' for c in nodes(x[3], lambda y: y.get('k') == 'call')) for x in seq):
                bad = True
        if ran and ('rc', '==', 'HTP_OK') in facts and not any(a[0] in FLAG for a in facts):
            bad = True
    res.check(not bad and n > 0, 'C10.e', 'htp_tx_finalize:destroy-on-success-path', 'every path on which TRANSACTION_COMPLETE succeeded tests tx_auto_destroy and destroys the transaction',
              'a successful completion path skips the auto-destroy', fin.loc)
    # decompressor chains: creation preceded by destruction of the previous chain
    for fname, fld, destroyer in (('htp_tx_state_response_headers', 'out_decompressor', 'htp_tx_res_destroy_decompressors'), ('htp_tx_process_request_headers', 'req_decompressor', 'htp_tx_req_destroy_decompressors')):
        f = db.get(fname)
        for b, i, w in P.field_writes(f, fld):
            if P.call_name_of(w['r']) != 'htp_gzip_decompressor_create':
                continue
            dom = C.dominators(f)
            # a dominating `if (X != NULL) destroy(...)` : the test block dominates, and its true successor calls the destroyer
            ok = False
            for tb in f.blocks:
                c = f.cond_of(tb)
                if c and tb in dom[b] and (P.canon(c[0]) or ('', '', ''))[0].endswith(fld) and P.canon(c[0])[1:] == ('!=', '0'):
                    if any(cc.get('callee') == destroyer for cc in nodes(f.blocks[f.blocks[tb]['succs'][0]]['stmts'], lambda y: y.get('k') == 'call')):
                        ok = True
            res.check(ok, 'C10.e', '%s:%s:previous-chain-destroyed' % (fname, fld), 'a previous chain is destroyed before a new one is stored',
                      'a new decompressor chain overwrites %s without destroying the previous one (leak per message)' % fld, w['loc'])
    res.assumptions.append('steady-state heap size after N transactions is a run-time quantity and is not decided; what is decided is that every cap the bound relies on is in force on all paths')
    # ---------------- C10.f reclamation of finished transactions does not depend on the response cursor
    res.rule('C10.f', 'htp_connp_tx_freed() shifts every leading NULL slot off the transaction list: the conditions inside its loop read only the loop counter against the size and the front slot itself')
    ff = db.get('htp_connp_tx_freed')
    front = P.local_init_from(ff, lambda e: e is not None and e.get('k') == 'call' and e.get('callee') == 'htp_list_array_get')
    lp = C.loops(ff)
    if not lp or not front:
        raise AnalysisBroken('C10.f: the reclaim loop of htp_connp_tx_freed was not found')
    h, body = max(lp, key=lambda hb: len(hb[1]))
    alien = []
    ncond = 0
    for b in body:
        c = ff.cond_of(b)
        if not c:
            continue
        ncond += 1
        vs = {v['name'] for v in nodes(c[0], lambda y: y.get('k') == 'var')}
        ms = [m for m in nodes(c[0], lambda y: y.get('k') == 'member')]
        if ms or not vs:
            alien.append(c[0])
    res.check(not alien and ncond >= 2, 'C10.f', 'htp_connp_tx_freed:loop-conditions', 'the %d loop conditions read only locals (counter, size, front slot)' % ncond,
              'the reclaim loop of htp_connp_tx_freed also depends on %s: leading NULL slots are left in place when that condition fails (in hybrid mode the response cursor never moves), the list never shrinks and every later removal walks the dead slots' % (S(alien[0])[:60] if alien else '?'), (alien[0]['loc'] if alien else ff.loc))
    c10g(db, res)
    return res


def c10g(db, res):
    """A transaction normally gets one status line. After an interim 100 the response side goes back to the status-line state of
    the SAME transaction and the line parser stores a second set of strings into the same fields. Everything the line stage
    stores has to be released on the way round, or each interim response leaves its strings behind - memory that grows with
    the number of messages and survives the automatic disposal of the transaction."""
    res.rule('C10.g', 'the re-opened status-line stage releases what it overwrites: every transaction field that the response-line stage stores an allocation into (htp_connp_RES_LINE and the line parsers in the parse_response_line slot) is released in htp_connp_RES_LINE in front of the parse or on the 100-continue restart path')
    line = db.get('htp_connp_RES_LINE')
    parsers = sorted(db.slot_targets('htp_cfg_t', 'parse_response_line')) if hasattr(db, 'slot_targets') else []
    if not parsers:
        parsers = [n for n in db.fn if n.startswith('htp_parse_response_line_')]
    stored = {}
    for fn_ in [line] + [db.fn[p] for p in parsers if p in db.fn]:
        for b, i, st in fn_.stmts():
            for a in nodes(st, lambda y: y.get('k') == 'assign' and y['op'] == '=' and strip(y['l']).get('k') == 'member'):
                l, r = strip(a['l']), strip(a['r'])
                if l.get('rec') == 'htp_tx_t' and r is not None and r.get('k') == 'call' and (r.get('callee') or '').startswith(('bstr_dup', 'bstr_alloc')):
                    stored.setdefault(l['field'], a)
    freed = set()
    restart = db.get('htp_connp_RES_BODY_DETERMINE')
    for fn_ in (line, restart):
        for b, i, c in fn_.calls('bstr_free'):
            a0 = strip(c['args'][0])
            if a0.get('k') == 'member' and a0.get('rec') == 'htp_tx_t':
                freed.add(a0['field'])
    n = 0
    for fld, a in sorted(stored.items()):
        n += 1
        res.check(fld in freed, 'C10.g', 'response-line-stage:%s' % fld, 'released before it is stored again',
                  'the response-line stage stores an allocation into tx->%s, and neither htp_connp_RES_LINE nor the 100-continue restart releases the previous one: every interim response leaves a string behind, the memory held by the connection grows with the number of messages' % fld, a['loc'])
    res.floor('C10.g', 'strings stored by the response-line stage', n, 4)
