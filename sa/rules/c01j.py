"""C01.j — bounded copies: every memcpy / memmove / strncpy / (v)snprintf writes no more bytes than its destination holds.
Destination capacity is taken from the code: a fixed-size array or record, or the size expression of the allocation
that reaches the destination pointer in the same function (malloc / calloc / realloc / bstr_alloc, through one local).
Sizes are compared as linear forms (locals with a single definition are expanded), with the zone analysis (sa/guards.py)
for what remains."""
import re
from ..facts import S, strip, nodes, is_lit
from .. import pat as P
from .. import cfg as C
from .. import guards as G

COPIES = {'memcpy': (0, 2), 'memmove': (0, 2), 'strncpy': (0, 2), 'snprintf': (0, 1), 'vsnprintf': (0, 1), 'strlcat': (0, 2), 'memset': (0, 2)}
ALLOCS = {'malloc': lambda a: [a[0]], 'calloc': lambda a: [a[0], a[1]], 'realloc': lambda a: [a[1]], 'bstr_alloc': lambda a: [a[0]]}


def single_defs(f):
    """local name -> its only defining expression (declaration initialiser, never reassigned / address-taken)"""
    if getattr(f, '_sdefs', None) is not None:
        return f._sdefs
    defs, bad = {}, set()
    for b, i, st in f.stmts():
        for x in nodes(st):
            if x['k'] == 'decl':
                for v in x['vars']:
                    if 'init' in v:
                        (bad.add(v['name']) if v['name'] in defs else defs.__setitem__(v['name'], v['init']))
            elif x['k'] == 'assign' and strip(x['l']).get('k') == 'var':
                n = strip(x['l'])['name']
                if x['op'] == '=' and n not in defs:
                    defs[n] = x['r']
                else:
                    bad.add(n)
            elif x['k'] == 'un' and x['op'] in ('++', '--', '++post', '--post', '&') and strip(x['e']).get('k') == 'var':
                bad.add(strip(x['e'])['name'])
    # not SSA: a definition may only be expanded when the variables it reads keep their value, i.e. are themselves defined
    # once (or are parameters that are never written); `start = pos` is not expandable, `newsize = size + len` is
    written = collections_counter = {}
    for b, i, st in f.stmts():
        for x in nodes(st):
            if x['k'] == 'assign' and strip(x['l']).get('k') == 'var':
                written[strip(x['l'])['name']] = written.get(strip(x['l'])['name'], 0) + 1
            elif x['k'] == 'un' and x['op'] in ('++', '--', '++post', '--post', '&') and strip(x['e']).get('k') == 'var':
                written[strip(x['e'])['name']] = written.get(strip(x['e'])['name'], 0) + 2
            elif x['k'] == 'decl':
                for v in x['vars']:
                    if 'init' in v:
                        written[v['name']] = written.get(v['name'], 0) + 1
    cand = {n: e for n, e in defs.items() if n not in bad}

    def stable(e):
        return all(written.get(v['name'], 0) <= (1 if v.get('decl') == 'local' else 0) for v in nodes(e, lambda y: y.get('k') == 'var' and y.get('decl') in ('local', 'param')))
    f._sdefs = {n: e for n, e in cand.items() if stable(e)}
    return f._sdefs


EXPAND = [True]


def lin(f, e, depth=0):
    """linear form {term: coef, '': const}; locals with a single definition are expanded; None when not linear"""
    e = strip(e)
    if e is None:
        return None
    k = e.get('k')
    if k == 'lit':
        return {'': e['v']}
    if k == 'var' and EXPAND[0] and e.get('decl') == 'local' and depth < 4 and e['name'] in single_defs(f):
        r = lin(f, single_defs(f)[e['name']], depth + 1)
        if r is not None:
            return r
    if k in ('var', 'member') or (k == 'un' and e['op'] == '*'):
        if 'unsigned' in (e.get('t') or ''):
            UNSIGNED.add(P.K(e))
        return {P.K(e): 1}
    if k == 'bin' and e['op'] in ('+', '-'):
        l, r = lin(f, e['l'], depth), lin(f, e['r'], depth)
        if l is None or r is None:
            return None
        out = dict(l)
        for t, c in r.items():
            out[t] = out.get(t, 0) + (c if e['op'] == '+' else -c)
        return {t: c for t, c in out.items() if c != 0 or t == ''}
    if k == 'bin' and e['op'] == '*':
        l, r = lin(f, e['l'], depth), lin(f, e['r'], depth)
        if l is None or r is None:
            return None
        for a, b in ((l, r), (r, l)):
            if set(a) <= {''}:
                return {t: c * a.get('', 0) for t, c in b.items()}
    return None


UNSIGNED = set()


def sub(a, b):
    out = dict(a)
    for t, c in b.items():
        out[t] = out.get(t, 0) - c
    return {t: c for t, c in out.items() if c != 0}


def add(a, b):
    out = dict(a)
    for t, c in b.items():
        out[t] = out.get(t, 0) + c
    return {t: c for t, c in out.items() if c != 0}


def byte_pointer(t):
    return bool(re.search(r'\b(char|void)\b', t or ''))


def split_dst(f, d):
    """(base expression, byte offset linear form) of a destination pointer expression"""
    d = strip(d)
    if d is None:
        return None, None
    if d.get('k') == 'bin' and d['op'] == '+':
        base, off = split_dst(f, d['l'])
        o2 = lin(f, d['r'])
        if base is None or o2 is None or not byte_pointer(strip(d['l']).get('t') if strip(d['l']).get('k') != 'cast' else d['l'].get('t')):
            # pointer arithmetic on a non-byte pointer: scale unknown here
            if base is not None and o2 is not None and byte_pointer(d.get('t')):
                return base, add(off, o2)
            return None, None
        return base, add(off, o2)
    if d.get('k') == 'un' and d['op'] == '&' and strip(d['e']).get('k') == 'index':      # &A[i]  ==  A + i
        ix = strip(d['e'])
        base, off = split_dst(f, ix['base'])
        o2 = lin(f, ix['idx'])
        if base is not None and o2 is not None and byte_pointer(strip(ix['base']).get('t')):
            return base, add(off, o2)
        return None, None
    if d.get('k') == 'cond' and 'realptr' in P.K(d):        # bstr_ptr(X): the payload of the bstr X
        vs = [P.K(m['base']) for m in nodes(d, lambda y: y.get('k') == 'member' and y['field'] == 'realptr')]
        return {'k': 'bstrpayload', 'of': vs[0].lstrip('*').strip('()') if vs else '?'}, {}
    return d, {}


def capacity(db, f, base, b, i):
    """capacity in bytes of the object `base` points to, as (linear form, description) or (None, why)"""
    if base.get('k') == 'bstrpayload':
        X = base['of']
        src = single_defs(f).get(X)
        s0 = strip(src)
        if s0 is not None and s0.get('k') == 'call' and s0.get('callee') == 'bstr_alloc':
            return lin(f, s0['args'][0]), 'payload of %s = bstr_alloc(%s)' % (X, S(s0['args'][0]))
        return None, 'bstr payload of %s: size is the run-time field `size`' % X
    t = base.get('t') or ''
    if base.get('k') == 'un' and base['op'] == '&':
        obj = strip(base['e'])
        return ('typeof', (obj.get('t') or '').replace('const ', '')), 'object of type %s' % obj.get('t')
    m = re.search(r'\[(\d+)\]$', t)
    if m and byte_pointer(t):
        return {'': int(m.group(1))}, '%s (array of %s bytes)' % (P.K(base), m.group(1))
    # pointer: the allocation that reaches it in this function
    key = P.K(base)
    cands = []
    dom = C.dominators(f)
    for bb, ii, st in f.stmts():
        if not ((bb == b and ii < i) or (bb != b and bb in dom[b])):
            continue
        for x in nodes(st):
            if x['k'] == 'assign' and x['op'] == '=' and P.K(x['l']) == key:
                cands.append((bb, ii, x['r']))
            elif x['k'] == 'decl':
                for v in x['vars']:
                    if v['name'] == key and 'init' in v:
                        cands.append((bb, ii, v['init']))
    if not cands:
        return None, 'no allocation of %s in this function' % key
    cands.sort(key=lambda c_: (len(dom[c_[0]]), c_[1]))      # the closest dominating definition last
    src = strip(cands[-1][2])
    if src.get('k') == 'var' and src['name'] in single_defs(f):
        src = strip(single_defs(f)[src['name']])
    if src.get('k') == 'call' and src.get('callee') in ALLOCS:
        parts = [lin(f, a) for a in ALLOCS[src['callee']](src['args'])]
        if any(p is None for p in parts):
            return None, 'allocation size of %s is not linear' % key
        cap = parts[0]
        for p2 in parts[1:]:
            if set(cap) <= {''}:
                cap = {t_: c * cap.get('', 0) for t_, c in p2.items()}
            elif set(p2) <= {''}:
                cap = {t_: c * p2.get('', 0) for t_, c in cap.items()}
            else:
                return None, 'allocation size of %s is a product of two variables' % key
        return cap, '%s = %s' % (key, S(src)[:60])
    return None, '%s does not come from an allocation in this function (%s)' % (key, S(src)[:40])


def nonneg(diff, fs, uns):
    """is the linear form >= 0 ?  constant; all coefficients >= 0 on unsigned terms; or x - y + c with the zone facts"""
    c0 = diff.get('', 0)
    terms = {t: c for t, c in diff.items() if t != ''}
    if not terms:
        return c0 >= 0
    if all(c > 0 for c in terms.values()) and c0 >= 0 and all(t in uns or t in UNSIGNED or (fs is not None and fs.b.get(('0', t), 1) <= 0) for t in terms):
        return True
    if fs is None:
        return False
    if len(terms) == 1:
        (t, c), = terms.items()
        if c == -1:                          # c0 - t >= 0  <=>  t <= c0
            bnd = fs.b.get((t, '0'))
            return bnd is not None and bnd <= c0
        if c == 1:                           # t + c0 >= 0
            bnd = fs.b.get(('0', t))
            return bnd is not None and -bnd + c0 >= 0
    if len(terms) == 2 and sorted(terms.values()) == [-1, 1]:
        x = [t for t, c in terms.items() if c == 1][0]
        y = [t for t, c in terms.items() if c == -1][0]
        bnd = fs.b.get((y, x))                # y - x <= bnd ;  x - y + c0 >= 0  <=>  y - x <= c0
        return bnd is not None and bnd <= c0
    return False


def run(db, res):
    res.rule('C01.j', 'bounded copies: at every memcpy / memmove / memset / strncpy / (v)snprintf / strlcat the byte count plus the destination offset is at most the capacity of the destination (fixed-size object, or the size of the allocation that reaches the pointer in the same function), and an unsigned `x - k` count cannot have wrapped')
    n = 0
    recsize = {r['name']: r.get('size') for u in db.units.values() for r in u['records']}
    for name, f in sorted(db.fn.items()):
        sites = [(b, i, c) for b, i, c in f.calls() if c.get('callee') in COPIES]
        if not sites:
            continue
        states = {}

        def grab(x, fs, b, i):
            pass
        CTX, uns = G.solve(f, db)

        def facts_before(b, i):
            out = []
            for key, st0 in CTX.get(b, {}).items():
                fs = G.Facts(st0)
                for ii, st in enumerate(f.blocks[b]['stmts']):
                    if ii == i:
                        break
                    G.transfer(fs, st, uns=uns)
                    for u in uns:
                        fs.add('0', u, 0)
                out.append(fs)
            return out
        for b, i, c in sites:
            di, ni = COPIES[c['callee']]
            if ni >= len(c['args']):
                continue
            n += 1
            key = '%s:%s(%s, …, %s)' % (name, c['callee'], P.K(c['args'][di])[:40], P.K(c['args'][ni])[:40])
            base, off = split_dst(f, c['args'][di])
            cnt = lin(f, c['args'][ni])
            if base is None or cnt is None:
                res.unknown('C01.j', key, 'destination or count is not a linear expression of the function\'s terms', c['loc'])
                continue
            cap, why = capacity(db, f, base, b, i)
            if cap is None:
                res.unknown('C01.j', key, why, c['loc'])
                continue
            cnode = strip(c['args'][ni])
            if isinstance(cap, tuple):
                # &object: the count must be sizeof that type (or a smaller constant when the size is known)
                tname = cap[1]
                same = cnode.get('k') == 'lit' and (cnode.get('sizeof') or '').replace('const ', '') == tname
                sz = recsize.get(tname.replace('struct ', ''))
                ok = same or (sz is not None and set(cnt) <= {''} and cnt.get('', 0) <= sz)
                res.check(ok, 'C01.j', key, 'count is sizeof(%s)' % tname, '%s copies %s bytes into an object of type %s' % (c['callee'], S(cnode), tname), c['loc'])
                continue
            diff = sub(cap, add(off, cnt))
            fss = facts_before(b, i)
            live = [fs for fs in fss if not fs.bottom]
            ok = bool(live) and all(nonneg(diff, fs, uns) for fs in live) if live else nonneg(diff, None, uns)
            # an unsigned count of the form x - k must not have wrapped
            wrap_ok = True
            if cnode.get('k') == 'bin' and cnode['op'] == '-' and 'unsigned' in (cnode.get('t') or ''):
                raw = G.term(cnode)          # the count as written, x - k (a local that holds a difference is the same value the allocation used)
                wrap_ok = raw is not None and bool(live) and all(nonneg({raw[0]: 1, '': raw[1]}, fs, uns) for fs in live)
            if ok and wrap_ok:
                res.holds('C01.j', key, 'offset + count <= capacity (%s; capacity - offset - count = %s)' % (why, diff or 0), c['loc'])
            elif ok and not wrap_ok:
                res.unknown('C01.j', key, 'fits when the count is what it reads, but the unsigned count %s is not known to be >= 0 here' % S(cnode), c['loc'])
            else:
                exact = set(diff) <= {''} and diff.get('', 0) < 0
                # the strongest bound that the guards give on the one variable term still admits an overflow
                weak = None
                terms = {t: cc for t, cc in diff.items() if t != ''}
                if len(terms) == 1 and list(terms.values()) == [-1] and live:
                    t = list(terms)[0]
                    bnds = [fs.b.get((t, '0')) for fs in live]
                    if all(x is not None for x in bnds) and max(bnds) > diff.get('', 0):
                        weak = (t, max(bnds), diff.get('', 0))
                if weak:
                    res.violated('C01.j', key, '%s: the guards on this path bound %s by %d, but the copy fits only up to %d (capacity %s, offset %s, count %s): up to %d byte(s) are written past the destination'
                                 % (c['callee'], weak[0], weak[1], weak[2], why, off or 0, S(cnode), weak[1] - weak[2]), c['loc'])
                elif exact:
                    res.violated('C01.j', key, '%s writes %d byte(s) past its destination: capacity %s, offset %s, count %s' % (c['callee'], -diff.get('', 0), why, off or 0, S(cnode)), c['loc'])
                else:
                    res.unknown('C01.j', key, 'capacity (%s) minus offset minus count = %s is not known to be >= 0' % (why, diff), c['loc'])
    res.floor('C01.j', 'copy call sites', n, 25)


READS = {'memchr': [(0, 2)], 'memcmp': [(0, 2), (1, 2)], 'memrchr': [(0, 2)], 'memmem': [(0, 1), (2, 3)], 'strncmp': [(0, 2), (1, 2)], 'strncasecmp': [(0, 2), (1, 2)], 'crc32': [(1, 2)]}


def run_reads(db, res):
    """C01.k - sub-windows stay inside their window: a call that is handed (A + k, n) - libc memchr/memcmp family, or any
    library function with adjacent (pointer, length) parameters - where A is an array the caller pairs with a length L must
    have k + n <= L, and an unsigned n of the form L - c must not be able to wrap."""
    res.rule('C01.k', 'sub-windows stay inside their window: wherever (A + k, n) is handed to memchr / memcmp / ... or to a function with adjacent (pointer, length) parameters and the caller pairs A with a length L, k + n <= L holds and the unsigned count cannot have wrapped (linear forms + zone facts)')
    n = 0
    for name, f in sorted(db.fn.items()):
        if not f.blocks or f.loc.startswith('htp/lzma'):
            continue
        pairs = G.pairs_of(f)
        if not pairs:
            continue
        sites = []
        for b, i, c in f.calls():
            cal = c.get('callee')
            if cal in READS:
                ws = READS[cal]
            elif cal in db.fn:
                cp = G.pairs_of(db.fn[cal])
                pn = [p_['name'] for p_ in db.fn[cal].params]
                ws = [(pn.index(a_), pn.index(l_)) for a_, l_ in cp.items() if a_ in pn and l_ in pn]
            else:
                ws = []
            for pi, li in ws:
                if max(pi, li) >= len(c['args']):
                    continue
                base, off = split_dst(f, c['args'][pi])
                if base is None or base.get('k') != 'var' or base['name'] not in pairs:
                    continue
                sites.append((b, i, c, pi, li, base['name'], off))
        if not sites:
            continue
        CTX, uns = G.solve(f, db)

        def facts_before(b, i):
            out = []
            for key, st0 in CTX.get(b, {}).items():
                fs = G.Facts(st0)
                for ii, st in enumerate(f.blocks[b]['stmts']):
                    if ii == i:
                        break
                    G.transfer(fs, st, uns=uns)
                    for u in uns:
                        fs.add('0', u, 0)
                out.append(fs)
            return [fs for fs in out if not fs.bottom]
        for b, i, c, pi, li, A, off in sites:
            n += 1
            L = pairs[A]
            cnode = strip(c['args'][li])
            key = '%s:%s(%s, %s)' % (name, c['callee'], P.K(c['args'][pi])[:30], P.K(cnode)[:30])
            live = facts_before(b, i)
            fits, diff, cnt, diffs = False, None, None, []
            for expand in (False, True):                        # as written first (the zone facts speak about these terms), then with stable locals expanded
                EXPAND[0] = expand
                try:
                    base_, off_ = split_dst(f, c['args'][pi])
                    cnt = lin(f, cnode)
                    Llin = (lin(f, {'k': 'var', 'name': L, 'decl': 'local'}) if not L.startswith('*') else None) or {L: 1}
                finally:
                    EXPAND[0] = True
                if cnt is None or off_ is None:
                    continue
                diff = sub(Llin, add(off_ or {}, cnt))           # L - k - n >= 0 ?
                diffs.append(diff)
                if live and all(nonneg(diff, fs, uns) for fs in live):
                    fits = True
                    break
            if cnt is None or not live:
                res.unknown('C01.k', key, 'count is not a linear expression (or the call is unreachable for the analysis)', c['loc'])
                continue
            # wrap: count written as x - c (unsigned)
            wrap = None
            if cnode.get('k') == 'bin' and cnode['op'] == '-' and 'unsigned' in (cnode.get('t') or ''):
                raw = G.term(cnode)
                if raw is not None and raw[1] < 0:
                    lows = [fs.lower(raw[0]) for fs in live]
                    if all(lo is not None and lo >= -raw[1] for lo in lows):
                        wrap = 'no'
                    elif all(lo is not None for lo in lows) and raw[0] != '0':
                        wrap = ('weak', raw[0], min(lows), -raw[1])
                    else:
                        wrap = 'unknown'
                elif raw is None:
                    x_, y_ = G.term(cnode['l']), G.term(cnode['r'])
                    if x_ and y_ and x_[0] != '0' and y_[0] != '0':
                        d = y_[1] - x_[1]
                        bnds = [fs.b.get((y_[0], x_[0])) for fs in live]       # y - x <= bnd ; need y + ky <= x + kx
                        wrap = 'no' if all(bd is not None and bd <= x_[1] - y_[1] for bd in bnds) else 'unknown'
            if isinstance(wrap, tuple):
                res.violated('C01.k', key, '%s is called with the count %s, but the guards only give %s >= %d: for %s < %d the unsigned count wraps and the call reads far past the %s bytes at %s' % (c['callee'], S(cnode), wrap[1], wrap[2], wrap[1], wrap[3], L, A), c['loc'])
            elif fits and wrap in (None, 'no'):
                res.holds('C01.k', key, 'offset + count <= %s%s' % (L, '' if wrap is None else ' and the count cannot wrap'), c['loc'])
            else:
                exact = set(diff) <= {''} and diff.get('', 0) < 0
                offbyone = False
                for dv in diffs:
                    d1 = dict(dv)
                    d1[''] = d1.get('', 0) + 1
                    offbyone = offbyone or (bool(live) and all(nonneg(d1, fs, uns) for fs in live))      # the strongest facts are exactly one short
                if exact and wrap in (None, 'no'):
                    res.violated('C01.k', key, 'the window handed to %s ends %d byte(s) past %s + %s' % (c['callee'], -diff.get('', 0), A, L), c['loc'])
                elif offbyone and wrap in (None, 'no'):
                    res.violated('C01.k', key, 'the window handed to %s can end one byte past %s + %s: the guards give %s - offset - count >= -1 only' % (c['callee'], A, L, L), c['loc'])
                else:
                    res.unknown('C01.k', key, '%s - offset - count = %s is not known to be >= 0%s' % (L, diff, ' (the unsigned count may wrap)' if wrap == 'unknown' else ''), c['loc'])
    res.floor('C01.k', 'sub-window hand-overs on paired arrays', n, 20)


def lin_noexpand(e):
    e = strip(e)
    if e is None:
        return None
    k = e.get('k')
    if k == 'lit':
        return {'': e['v']} if e['v'] else {}
    if k in ('var', 'member') or (k == 'un' and e['op'] == '*'):
        if 'unsigned' in (e.get('t') or ''):
            UNSIGNED.add(P.K(e))
        return {P.K(e): 1}
    if k == 'bin' and e['op'] in ('+', '-'):
        l, r = lin_noexpand(e['l']), lin_noexpand(e['r'])
        if l is None or r is None:
            return None
        out = dict(l)
        for t, c in r.items():
            out[t] = out.get(t, 0) + (c if e['op'] == '+' else -c)
        return {t: c for t, c in out.items() if c != 0}
    return None


def lin_noexpand_d(d):
    return d or {}
