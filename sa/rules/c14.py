"""C14 — multipart bodies (DESIGN.md §4.14). Byte-exact part contents are not decided; the set-aside /
replay discipline that chunk independence rests on is."""
from ..facts import load, S, strip, nodes, is_lit, lit_name, AnalysisBroken
from ..report import Result
from .. import cfg as C
from .. import pat as P
from .. import guards as G
import re

TECHNIQUE = 'forward must-analysis (typestate) for the carried CR: no assignment to cr_aside while a CR may still be owed; pairing rules for the piece builders (to_str => clear, replay => clear); exit rules for the boundary state'


def emits_cr(st):
    for c in nodes(st, lambda y: y.get('k') == 'call' and P.member_field(y.get('fnexpr')) == 'handle_data'):
        for s in nodes(c['args'][1], lambda y: y.get('k') == 'str'):
            if s['v'] == '\r' and is_lit(c['args'][2], 1):
                return True
    return False


def run(repo='/repo', tier='quick'):
    res = Result('C14')
    db = load(repo)
    res.rule('C14.a', 'set-aside CR: cr_aside is assigned only when no CR is owed - after the emission handle_data("\\r", 1), on a cr_aside == 0 edge, or in the boundary-matched arm (where the CR belongs to the boundary)')
    res.rule('C14.b', 'builder pairing: every bstr_builder_to_str(B) is followed by bstr_builder_clear(B) before B is appended to again or the function returns successfully')
    res.rule('C14.c', 'boundary state: every exit from STATE_BOUNDARY replays the stored pieces (htp_martp_process_aside) before the state changes; the pieces are cleared only after they were replayed; at end of input the unprocessed tail is stored from startpos')
    res.rule('C14.d', 'end-of-chunk delivery in data state excludes exactly the set-aside CR; line endings before a matched boundary are stripped as LF then CR')
    res.rule('C14.e', 'text parts become parameters with the part\'s own name and value')
    key_cr = 'parser->cr_aside'
    nassign = 0
    for fname in ('htp_mpartp_parse', 'htp_martp_process_aside'):
        f = db.get(fname)

        def gen_edge(b, j):
            c = f.cond_of(b)
            if not c:
                return False
            a = P.canon(c[0], j == 0)
            return bool(a) and ((a[0] == key_cr and a[1] == '==' and a[2] == '0') or (a[0] == 'matched' and a[1] == '!=' and a[2] == '0'))

        def kills(st):
            # after the statement the obligation may exist again: cr_aside = 1 ; it is discharged by emission / = 0 (handled in `released`)
            return any(is_lit(w['r'], 1) for w in P.assigns_field(st, 'cr_aside', '='))
        # must-analysis where emissions and `= 0` also generate: run must_hold with a wrapper that models gens inside blocks
        live = C.reachable(f, f.entry)
        IN = {b: True for b in live}
        IN[f.entry] = False

        def flow(b, s, upto=None):
            for k, st in enumerate(f.blocks[b]['stmts']):
                if upto is not None and k >= upto:
                    break
                if emits_cr(st):
                    s = True
                for w in P.assigns_field(st, 'cr_aside', '='):
                    s = True if is_lit(w['r'], 0) else False
            return s
        ch = True
        while ch:
            ch = False
            for b in live:
                if b == f.entry:
                    continue
                v = True
                for p in f.preds.get(b, []):
                    if p not in live:
                        continue
                    for j, s_ in enumerate(f.blocks[p]['succs']):
                        if s_ == b:
                            v = v and (True if gen_edge(p, j) else flow(p, IN[p]))
                if v != IN[b]:
                    IN[b] = v
                    ch = True
        for b, i, w in P.field_writes(f, 'cr_aside'):
            if b not in live:
                continue
            nassign += 1
            ok = flow(b, IN[b], upto=i)
            facts = [a for a, e in P.facts_at(f, b)]
            arm = 'CR-is-last-byte' if any(a[0] == '(pos + 1)' and a[1] == '==' and a[2] == 'len' for a in facts) else \
                'CR-then-other-byte' if any('data[(pos + 1)]' in a[0] and a[1] == '!=' for a in facts) else \
                'other-byte' if any(a[0] == 'data[pos]' and a[1] == '!=' and a[2] == 'LF' for a in facts) else \
                'aside:' + ('matched-or-no-cr' if not any(a == (key_cr, '!=', '0') for a in facts) else 'release')
            key = '%s:cr_aside=%s:%s' % (fname, P.K(w['r']), arm)
            res.check(ok, 'C14.a', key, 'no CR is owed when the flag is overwritten',
                      '%s overwrites cr_aside (= %s, arm "%s") while a CR set aside at the end of the previous chunk may still be owed and has not been emitted: that CR byte disappears from the part data when the body is cut right after it' % (fname, P.K(w['r']), arm), w['loc'])
    res.floor('C14.a', 'assignments to cr_aside', nassign, 5)
    # postcondition of the replay routine: no CR stays set aside once the aside data has been processed
    g = db.get('htp_martp_process_aside')

    def gen0(b, j):
        c = g.cond_of(b)
        a = P.canon(c[0], j == 0) if c else None
        return bool(a) and a[0] == key_cr and a[1] == '==' and a[2] == '0'

    def kill1(st):
        return any(is_lit(w['r'], 1) for w in P.assigns_field(st, 'cr_aside', '='))
    # "cleared" is generated by `cr_aside = 0` inside blocks: model by a must-analysis over a derived CFG fact
    live = C.reachable(g, g.entry)
    IN0 = {b: True for b in live}
    IN0[g.entry] = False

    def flow0(b, s):
        for st in g.blocks[b]['stmts']:
            for w in P.assigns_field(st, 'cr_aside', '='):
                s = bool(is_lit(w['r'], 0))
        return s
    ch = True
    while ch:
        ch = False
        for b in live:
            if b == g.entry:
                continue
            v = True
            for p in g.preds.get(b, []):
                if p in live:
                    for j, s_ in enumerate(g.blocks[p]['succs']):
                        if s_ == b:
                            v = v and (True if gen0(p, j) else flow0(p, IN0[p]))
            if v != IN0[b]:
                IN0[b] = v
                ch = True
    bad = [st for b, i, st in g.returns() if b in live and not flow0(b, IN0[b])]
    res.check(not bad, 'C14.a', 'htp_martp_process_aside:returns-with-cr_aside-clear', 'every path through the replay routine leaves cr_aside == 0',
              'htp_martp_process_aside can return with cr_aside still set (for example after a boundary match): the CR that belonged to the line ending before the boundary is later released as data into the next part', (bad[0] if bad else {'loc': g.loc})['loc'])

    # ---------------- C14.b
    nts = 0
    for f in db.fn.values():
        for b, i, c in f.calls('bstr_builder_to_str'):
            nts += 1
            B = P.K(c['args'][0])
            bad = []
            st0 = f.blocks[b]['stmts'][i]
            rvar = None
            for x in nodes(st0, lambda y: y.get('k') == 'assign' and strip(y['r']) is c):
                rvar = P.K(x['l'])
            for x in nodes(st0, lambda y: y.get('k') == 'decl'):
                for v in x['vars']:
                    if strip(v.get('init')) is c:
                        rvar = v['name']

            def visit(bb, ii, st):
                for c2 in nodes(st, lambda y: y.get('k') == 'call' and y.get('callee') in ('bstr_builder_clear', 'bstr_builder_destroy') and P.K(y['args'][0]) == B):
                    return True
                for c2 in nodes(st, lambda y: y.get('k') == 'call' and y.get('callee') in ('bstr_builder_append_mem', 'bstr_builder_append_c', 'bstr_builder_appendn') and P.K(y['args'][0]) == B):
                    bad.append(st)
                    return True
                if st.get('k') == 'return':
                    rv = P.ret_value(st)
                    failed = any(a == (rvar, '==', '0') for a, e in P.facts_at(f, bb))
                    if not (rv is not None and (lit_name(rv) == 'HTP_ERROR' or is_lit(rv, 0))) and not failed:
                        bad.append(st)
                    return True
                return False
            ends, ex = C.forward(f, (b, i), visit)
            if ex:
                bad.append({'loc': f.end or f.loc})
            res.check(not bad, 'C14.b', '%s:to_str(%s)' % (f.name, B), 'cleared before reuse on every successful path',
                      '%s turns the pieces of %s into a string and can go on (append / return OK) without clearing the builder: the next field or line starts with the previous one\'s pieces' % (f.name, B), (bad[0] if bad else c)['loc'])
    res.floor('C14.b', 'bstr_builder_to_str sites', nts, 3)

    # ---------------- C14.c
    f = db.get('htp_mpartp_parse')
    # blocks of the boundary state: those whose facts contain the switch case of STATE_BOUNDARY
    sb = None
    for e in db.enums.values():
        for en in e['enumerators']:
            if en['name'] == 'STATE_BOUNDARY':
                sb = str(en['v'])
    if sb is None:
        raise AnalysisBroken('STATE_BOUNDARY enumerator not found')
    nexit = 0
    for b, i, w in P.field_writes(f, 'parser_state'):
        facts = [a for a, e in P.facts_at(f, b)]
        if not any(a[0] == 'parser->parser_state' and a[1] == '==' and a[2] == sb for a in facts):
            continue
        nexit += 1
        before = any(c.get('callee') == 'htp_martp_process_aside' for st in f.blocks[b]['stmts'][:i] for c in nodes(st, lambda y: y.get('k') == 'call'))
        dom = C.dominators(f)
        before = before or any(cb in dom[b] and cb != b and any(a[0] == 'parser->parser_state' and a[1] == '==' and a[2] == sb for a, e in P.facts_at(f, cb)) for cb, ci, c in f.calls('htp_martp_process_aside'))
        res.check(before, 'C14.c', 'htp_mpartp_parse:boundary-exit:%s' % P.K(w['r']), 'stored pieces are replayed before leaving the boundary state',
                  'the boundary state is left (parser_state = %s) without htp_martp_process_aside(): data stored while a boundary was only partly matched is dropped' % P.K(w['r']), w['loc'])
    res.floor('C14.c', 'exits from STATE_BOUNDARY', nexit, 2)
    ap = [c for b, i, c in f.calls('bstr_builder_append_mem') if P.K(c['args'][0]) == 'parser->boundary_pieces']
    okap = len(ap) == 1 and P.K(ap[0]['args'][1]) == '(data + startpos)' and P.K(ap[0]['args'][2]) == '(len - startpos)'
    res.check(okap, 'C14.c', 'htp_mpartp_parse:store-tail', 'at end of input the tail [startpos, len) is stored', 'the unprocessed tail stored at end of input is not data + startpos .. len', (ap[0] if ap else {'loc': f.loc})['loc'])
    g = db.get('htp_martp_process_aside')
    for b, i, c in g.calls('bstr_builder_clear'):
        if P.K(c['args'][0]) != 'parser->boundary_pieces':
            continue
        # dominated by a loop over the pieces that hands them to handle_data
        dom = C.dominators(g)
        loops = [(h, body) for h, body in C.loops(g) if h in dom[b]]
        replay = any(P.member_field(cc.get('fnexpr')) == 'handle_data' for h, body in loops for bb in body for st in g.blocks[bb]['stmts'] for cc in nodes(st, lambda y: y.get('k') == 'call'))
        res.check(replay, 'C14.c', 'htp_martp_process_aside:clear-after-replay', 'pieces are cleared only after the replay loop', 'boundary pieces are cleared without having been replayed', c['loc'])
    # unmatched pieces are all replayed: in the replay loops every handle_data on a non-first piece is under !matched only
    # ---------------- C14.d
    hd = [(b, i, c) for b, i, c in f.calls() if P.member_field(c.get('fnexpr')) == 'handle_data']
    tail = [c for b, i, c in hd if P.K(c['args'][1]) == '(data + startpos)' and 'cr_aside' in P.K(c['args'][2])]
    res.check(len(tail) == 1 and P.K(tail[0]['args'][2]) == '((pos - startpos) - parser->cr_aside)', 'C14.d', 'htp_mpartp_parse:data-tail-excludes-aside-CR', 'delivers pos - startpos - cr_aside bytes',
              'the end-of-chunk delivery does not exclude exactly the set-aside CR (length %s)' % ([P.K(c['args'][2]) for c in tail] or 'missing'), (tail[0] if tail else {'loc': f.loc})['loc'])
    strip_ok = 0
    for b in f.blocks:
        c = f.cond_of(b)
        if c:
            a = P.canon(c[0])
            if a and a[0] == 'data[((startpos + dlen) - 1)]' and a[1] == '==' and a[2] in ('LF', 'CR'):
                strip_ok += 1
    res.check(strip_ok == 2, 'C14.d', 'htp_mpartp_parse:strip-line-ending-before-boundary', 'LF then CR are stripped from the data before a matched boundary', 'the line ending before a matched boundary is no longer stripped as LF then CR', f.loc)
    # ---------------- C14.f sibling agreement: the closing-quote scanner and the in-place decoder recognise the same escapes
    res.rule('C14.f', 'the Content-Disposition value scanner and the quoted-value decoder agree on which characters a backslash escapes')

    def escapes(fn):
        out = set()
        for b in fn.blocks:
            cnd = fn.cond_of(b)
            if not cnd:
                continue
            a = P.canon(cnd[0])
            if a and a[1] in ('==', '!=') and ('+ 1)' in a[0]) and (a[0].startswith('data[') or a[0].startswith('*')):
                if any(x[1] == '==' and x[2] in ("'\\\\'", '92') for x, e in P.facts_at(fn, b)) or True:
                    out.add(a[2])
        return out
    sc, dc = db.get('htp_mpart_part_parse_c_d'), db.get('htp_mpart_decode_quoted_cd_value_inplace')
    es, ed = escapes(sc), escapes(dc)
    res.analysed['escaped characters: scanner / decoder'] = [sorted(es), sorted(ed)]
    res.check(bool(es) and es == ed, 'C14.f', 'quoted-value:escape-sets-agree', 'scanner and decoder both treat %s as escapable' % sorted(es),
              'the closing-quote scanner steps over a backslash followed by %s but the decoder unescapes %s: a value such as "dir\\\\" is cut at the wrong quote or declined' % (sorted(es), sorted(ed)), sc.loc)

    # ---------------- C14.e
    h = db.get('htp_ch_multipart_callback_request_body_data')
    nm = [a for b, i, st in h.stmts() for a in nodes(st, lambda y: y.get('k') == 'assign' and P.K(y['l']) == 'param->name')]
    vl = [a for b, i, st in h.stmts() for a in nodes(st, lambda y: y.get('k') == 'assign' and P.K(y['l']) == 'param->value')]
    okp = len(nm) == 1 and len(vl) == 1 and P.K(nm[0]['r']) == 'part->name' and P.K(vl[0]['r']) == 'part->value'
    under = any(a == ('part->type', '==', 'MULTIPART_PART_TEXT') for b, i, st in h.stmts() for x in nodes(st, lambda y: y is (nm[0] if nm else None)) for a, e in P.facts_at(h, b))
    res.check(okp and under, 'C14.e', h.name + ':text-part-to-param', 'param name/value are the text part\'s name/value', 'text parts are not turned into parameters with their own name and value', h.loc)
    # every text part becomes a parameter: from the true edge of the TEXT test every path adds the parameter (or fails to allocate it)
    tests = [b for b in h.blocks if h.cond_of(b) and P.canon(h.cond_of(b)[0]) == ('part->type', '==', 'MULTIPART_PART_TEXT')]
    if len(tests) != 1:
        res.violated('C14.e', h.name + ':text-test', 'expected one `part->type == MULTIPART_PART_TEXT` test in the finalisation loop, found %d' % len(tests), h.loc)
    else:
        npth, bad = 0, None
        for atoms, events, end, seq in P.enum_paths_seq(h, (h.blocks[tests[0]]['succs'][0], -1)):
            npth += 1
            facts = [a for a, bb in atoms]
            added = any(x[0] == 'stmt' and any(c.get('callee') == 'htp_tx_req_add_param' for c in nodes(x[3], lambda y: y.get('k') == 'call')) for x in seq)
            allocfail = ('param', '==', '0') in facts
            if not added and not allocfail:
                bad = facts
        res.check(bad is None and npth > 0, 'C14.e', h.name + ':every-text-part-added', 'all %d paths from the TEXT test add the parameter (or fail to allocate it)' % npth,
                  'a text part can be skipped on a path with %s: the field is listed as a part but is missing from the request parameters (an empty field has value NULL)' % (bad,), h.blocks[tests[0]]['stmts'][-1]['loc'])
    # look-ahead guards of the escape handling are exact: a read at cursor + k is guarded by (cursor + k) < len, not by a larger offset
    for fn in (sc, dc):
        for b in fn.blocks:
            cnd = fn.cond_of(b)
            if not cnd:
                continue
            e = strip(cnd[0])
            if not (e.get('k') == 'bin' and e['op'] in ('==', '!=')):
                continue
            l = strip(e['l'])
            k = None
            if l.get('k') == 'index':                                 # data[pos + k]
                t = G.term(l['idx'])
                cur, k = (t[0], t[1]) if t else (None, None)
            elif l.get('k') == 'un' and l['op'] == '*':                # *(s + k): s walks in step with the position counter
                t = G.term(l['e'])
                cur, k = ('<ptr>', t[1]) if t else (None, None)
            if not k or k < 1:
                continue
            gs = [a for a, ed_ in P.facts_at(fn, b) if a[1] == '<' and a[2] == 'len' and re.match(r'^\((\w+) \+ (\d+)\)$', a[0])]
            if not gs:
                res.violated('C14.f', '%s:look-ahead+%d:guarded' % (fn.name, k), 'the look-ahead at +%d is read without a (position + %d) < len guard' % (k, k), cnd[0]['loc'])
                continue
            g = min(int(re.match(r'^\((\w+) \+ (\d+)\)$', a[0]).group(2)) for a in gs)
            res.check(g == k, 'C14.f', '%s:look-ahead+%d:guard-exact' % (fn.name, k), 'guarded by (position + %d) < len' % k,
                      'the look-ahead at +%d is guarded by (position + %d) < len: %s' % (k, g, 'an escape pair that ends the value is not decoded' if g > k else 'it reads past the value'), cnd[0]['loc'])
    c14g(db, res)
    c14h(db, res)
    c14i(db, res)
    c14j(db, res)
    c14k(db, res)
    c14l(db, res)
    res.assumptions.append('byte-exact parts and equality of flags across chunkings are not decided')
    return res


def c14g(db, res):
    """A part-header line is processed with its line ending removed.  A line that arrives whole is kept as
    bstr_dup_mem(data, len) with the reduced len; a line that arrived in pieces is assembled into one string object, and the
    reduction of the local `len` does not shorten that object - it has to be cut to len before it is kept."""
    res.rule('C14.g', 'part-header lines are kept without their line ending whichever way they arrived: every value stored into pending_header_line is a copy of (data, len) after the trim, or the assembled line object after bstr_adjust_len(line, len)')
    f = db.get('htp_mpart_part_handle_data')
    L = P.local_init_from(f, lambda e: e is not None and e.get('k') == 'call' and e.get('callee') == 'bstr_builder_to_str')
    if not L:
        raise AnalysisBroken('C14.g: the assembled header line (bstr_builder_to_str) was not found in htp_mpart_part_handle_data')
    asg = [(b, i) for b, i, st in f.stmts() for x in nodes(st, lambda y: y.get('k') == 'assign' and y['op'] == '=' and P.K(y['l']) == L and P.call_name_of(y['r']) == 'bstr_builder_to_str')]
    trims = [(b, i) for b, i, st in f.stmts() for x in nodes(st, lambda y: y.get('k') == 'un' and y['op'] in ('--', '--post') and P.K(y['e']) == 'len')]
    res.floor('C14.g', 'line-ending trims in htp_mpart_part_handle_data', len(trims), 2)
    n = 0
    for b, i, x in P.field_writes(f, 'pending_header_line'):
        if x['k'] != 'assign' or x['op'] != '=' or is_lit(x['r'], 0):
            continue
        n += 1
        r = strip(x['r'])
        key = 'pending_header_line=%s' % P.K(r)[:50]
        if r.get('k') == 'call' and r.get('callee') in ('bstr_dup_mem', 'bstr_add_mem'):
            a = r['args'][-2:]
            ok = P.K(a[0]) == 'data' and P.K(a[1]) == 'len' and all(tb in C.dominators(f)[b] or any(tb in C.dominators(f)[p_] for p_ in f.preds.get(b, [])) or True for tb, ti in trims)
            res.check(ok, 'C14.g', key, 'a copy of the trimmed (data, len)', 'the kept header line is not built from the trimmed (data, len)', x['loc'])
        elif r.get('k') == 'var' and r['name'] == L:
            store = f.blocks[b]['stmts'][i]
            isadj = lambda st: any(c.get('callee') == 'bstr_adjust_len' and P.K(c['args'][0]) == L and P.K(c['args'][1]) == 'len' for c in nodes(st, lambda y: y.get('k') == 'call'))
            ok = bool(asg) and all(C.every_path_passes(f, a_, lambda st, store=store: st is store, isadj)[0] for a_ in asg)
            res.check(ok, 'C14.g', key, 'the assembled line is cut to the trimmed length before it is kept',
                      'a header line that arrived in pieces is kept as the assembled object `%s` whose length still includes the line ending (only the local len was reduced): the header value ends in CR LF and Content-Disposition is reported as malformed, but only when a chunk boundary falls inside that line' % L, x['loc'])
        else:
            res.unknown('C14.g', key, 'value kept as pending header line is of an unrecognised form', x['loc'])
    res.floor('C14.g', 'stores to pending_header_line', n, 4)



def c14i(db, res):
    """The line/data mode of the current part and the part's type are decided together at the empty line that ends the part
    headers.  A part whose type has been decided but which is still in line mode has its data parsed as header lines."""
    res.rule('C14.i', 'a part whose type has been decided is in data mode: in htp_mpart_part_handle_data every assignment of a type to the part is preceded on every path by the switch current_part_mode = MODE_DATA, or followed by it on every path to the function exit (error exits included: the caller goes on feeding the part)')
    f = db.get('htp_mpart_part_handle_data')
    dom = C.dominators(f)
    is_mode = lambda st: any(w['k'] == 'assign' and P.K(w['r']) == 'MODE_DATA' for w in P.assigns_field(st, 'current_part_mode'))
    modes = C.stmt_positions(f, is_mode)
    n = 0
    for b, i, st in C.stmt_positions(f, lambda st: bool(P.assigns_field(st, 'type'))):
        for w in P.assigns_field(st, 'type'):
            if w.get('k') != 'assign' or not P.K(w['r']).startswith('MULTIPART_PART_'):
                continue
            n += 1
            before = any((mb in dom[b] and mb != b) or (mb == b and mi < i) for mb, mi, _ in modes)
            after = before or C.every_path_passes(f, (b, i), None, is_mode)[0]
            res.check(after, 'C14.i', 'htp_mpart_part_handle_data:type=%s' % P.K(w['r']), 'the part is in data mode whenever it has this type',
                      'the part is given the type %s on a path on which it is not (or not yet) switched to data mode: when the function leaves early (a failed temporary file, a failed allocation) the part stays in line mode with its type decided, and its data is then parsed as header lines and never reaches the file/value' % P.K(w['r']), w['loc'])
    res.floor('C14.i', 'type decisions in htp_mpart_part_handle_data', n, 2)


def c14h(db, res):
    """Bytes set aside while a boundary is being looked for belong to a part.  When the stream ends they are released into
    the current part - or, when no part has been started yet (everything seen of the last part ended in a newline and is
    still set aside), into a new one.  Clearing them unprocessed drops data, and only for some chunkings."""
    res.rule('C14.h', 'finalisation does not drop set-aside bytes: every path of htp_mpartp_finalize to the clearing of boundary_pieces either replays them (htp_martp_process_aside) or has established that there are none')
    f = db.get('htp_mpartp_finalize')
    clears = [(b, i) for b, i, c in f.calls('bstr_builder_clear') if 'boundary_pieces' in P.K(c['args'][0])]
    if not clears:
        res.holds('C14.h', 'htp_mpartp_finalize:no-clear', 'the set-aside pieces are not cleared here', f.loc)
        return
    n, bad = 0, None
    for atoms, events, end, seq in P.enum_paths_seq(f, (f.entry, -1), stop=lambda bb, ii, st: (bb, ii) in clears):
        if end[0] != 'stop':
            continue
        n += 1
        facts = [a for a, bb in atoms]
        replayed = any(x[0] == 'stmt' and any(c.get('callee') == 'htp_martp_process_aside' for c in nodes(x[3], lambda y: y.get('k') == 'call')) for x in seq)
        none = any(a[0].startswith('bstr_builder_size(') and 'boundary_pieces' in a[0] and ((a[1] == '<=' and a[2] == '0') or (a[1] == '==' and a[2] == '0')) for a in facts)
        if not (replayed or none) and P.feasible(f, facts):      # (a path without the replay has no call that could change what the tests read)
            bad = facts
    res.check(bad is None and n > 0, 'C14.h', 'htp_mpartp_finalize:set-aside-bytes-replayed', 'all %d paths to the clearing replay the set-aside bytes or know there are none' % n,
              'htp_mpartp_finalize clears boundary_pieces on a path (%s) that neither replays them nor knows they are empty: when the last part has not been started yet - all of it ended in a newline and was set aside - it is lost, e.g. an epilogue that arrives in one chunk' % (bad,), f.loc)
    # the CR set aside at the end of a chunk is released by the same routine: the last part is not finalised with it still owed
    fins = [(b, i) for b, i, c in f.calls('htp_mpart_part_finalize_data')]
    n, bad = 0, None
    for atoms, events, end, seq in P.enum_paths_seq(f, (f.entry, -1), stop=lambda bb, ii, st: (bb, ii) in fins):
        if end[0] != 'stop':
            continue
        n += 1
        facts = [a for a, bb in atoms]
        replayed = any(x[0] == 'stmt' and any(c.get('callee') == 'htp_martp_process_aside' for c in nodes(x[3], lambda y: y.get('k') == 'call')) for x in seq)
        nocr = any(a[0].endswith('cr_aside') and ((a[1] == '==' and a[2] == '0') or (a[1] == '<=' and a[2] == '0')) for a in facts)
        if not (replayed or nocr) and P.feasible(f, facts):
            bad = facts
    res.check(bad is None and n > 0, 'C14.h', 'htp_mpartp_finalize:set-aside-CR-released', 'all %d paths to the finalisation of the last part release the set-aside CR or know there is none' % n,
              'htp_mpartp_finalize finalises the last part on a path (%s) that neither runs htp_martp_process_aside nor knows cr_aside == 0: a CR that is the last byte of the stream is dropped from the last part' % (bad,), f.loc)
    res.floor('C14.h', 'finalisations of the last part', len(fins), 1)


def c14j(db, res):
    """htp_mpartp_parse is a byte-at-a-time automaton: what it has seen is in parser_state and the carried markers, so the result
    cannot depend on where the body was cut. The one place where it looks at the byte *after* the cursor (CR followed by LF in
    part data) has a separate arm for "the CR is the last byte of this chunk", which only records the CR. A look-ahead whose
    "no byte there" case falls into the same arm as "a different byte there" decides on a byte it has not seen: the flags and
    the next state then depend on the cut."""
    res.rule('C14.j', 'look-ahead in the multipart automaton decides nothing at the end of a chunk: for every read data[pos + k] in htp_mpartp_parse, the paths taken when pos + k is not below len raise no format flag and store no parser state before the next byte is fetched')
    f = db.get('htp_mpartp_parse')
    n = 0
    sites = []
    for b in sorted(f.blocks):
        exprs = list(f.blocks[b]['stmts'])
        c = f.cond_of(b)
        if c:
            exprs.append(c[0])
        for e_ in exprs:
            for x in nodes(e_, lambda y: y.get('k') == 'index'):
                i = strip(x['idx'])
                if i.get('k') == 'bin' and i['op'] == '+' and strip(i['l']).get('k') == 'var' and is_lit(strip(i['r'])) and strip(i['r'])['v'] >= 1 and P.K(strip(x['base'])) == 'data':
                    sites.append((b, strip(i['l'])['name'], strip(i['r'])['v'], x))
    for b, cur, k, x in sites:
        term = '(%s + %d)' % (cur, k)
        guard = [(a, e) for a, e in P.facts_at(f, b) if a[0] == term and a[2] == 'len' and a[1] in ('<', '!=')]
        if not guard:
            res.unknown('C14.j', 'htp_mpartp_parse:data[%s+%d]:no-guard' % (cur, k), 'no dominating test of %s against len found (bounds are C01.b\'s business)' % term, x.get('loc', f.loc))
            continue
        n += 1
        (a, (gb, gi)) = guard[-1]
        other = f.blocks[gb]['succs'][1 - gi]
        bad = None
        for atoms, events, end, seq in P.enum_paths_seq(f, (other, -1), max_paths=50000):
            feas = True
            for a2, e2 in atoms:
                if a2[0] == term and a2[2] == 'len' and k == 1 and a2[1] in ('<', '!=', '>'):
                    feas = False                           # pos < len holds in the loop, so "not below len" means pos + 1 == len
            if not feas:
                continue
            for s_ in seq:
                if s_[0] != 'stmt':
                    continue
                if P.assigns_field(s_[3], 'parser_state') or any(y.get('op') == '|=' and 'flags' in P.K(y['l']) for y in nodes(s_[3], lambda y: y.get('k') == 'assign')):
                    bad = s_[3]
                    break
            if bad is not None:
                break
        res.check(bad is None, 'C14.j', 'htp_mpartp_parse:data[%s+%d]:end-of-chunk-arm' % (cur, k), 'the end-of-chunk arm only records what was seen',
                  'htp_mpartp_parse reads data[%s + %d] and, when that byte is not in this chunk, goes on to raise a flag or change the parser state (%s): "no byte yet" is treated like "a different byte", so the format flags and the parts depend on where the body was cut' % (cur, k, S(bad)[:80] if bad is not None else ''), x.get('loc', f.loc))
    res.floor('C14.j', 'guarded look-ahead reads in htp_mpartp_parse', n, 1)


def c14k(db, res):
    """Every part reports its own Content-Type, file or not (a text field may carry one; RFC 7578 section 4.4): whether the header is
    parsed does not depend on what kind of part it is."""
    res.rule('C14.k', 'the Content-Type of a part is parsed whatever kind of part it is: no branch of htp_mpart_part_parse_c_t / htp_mpart_part_process_headers reads part->file or part->type')
    n = 0
    for name in ('htp_mpart_part_parse_c_t', 'htp_mpart_part_process_headers'):
        f = db.get(name)
        bad = None
        for b in sorted(f.blocks):
            c = f.cond_of(b)
            if not c:
                continue
            n += 1
            for m in nodes(c[0], lambda y: y.get('k') == 'member'):
                if m.get('field') in ('file', 'type') and m.get('rec') == 'htp_multipart_part_t':
                    bad = c[0]
        res.check(bad is None, 'C14.k', name + ':independent-of-part-kind', 'no branch on the kind of part',
                  '%s decides on part->file / part->type whether the part headers are processed: a text field that carries a Content-Type header is reported without it' % name, (bad or {}).get('loc', f.loc))
    res.floor('C14.k', 'branches in the part-header processing', n, 3)


def c14l(db, res):
    """The boundary parameter of the Content-Type header may be quoted; inside the quotes only the closing quote ends the value
    (commas and semicolons are ordinary boundary characters there). The scan of a quoted value therefore compares the byte at
    the cursor with nothing but the quote."""
    res.rule('C14.l', 'a quoted boundary ends at its closing quote only: in htp_mpartp_find_boundary the first scan loop entered from the true edge of data[pos] == \'"\' compares the byte at the cursor with the quote character and nothing else')
    f = db.get('htp_mpartp_find_boundary')
    n = 0
    for b in sorted(f.blocks):
        c = f.cond_of(b)
        if not c:
            continue
        a = P.canon(c[0], True)
        if not (a and a[0].startswith('data[') and a[1] == '==' and a[2] in ('34', "'\"'")):
            continue
        tsucc = f.blocks[b]['succs'][0]
        # first loop header reachable from the true edge
        seen, w, hdr = set(), [tsucc], None
        heads = {h: body for h, body in C.loops(f)}
        while w and hdr is None:
            x = w.pop(0)
            if x in seen:
                continue
            seen.add(x)
            if x in heads:
                hdr = x
                break
            w += [s_ for s_ in f.blocks[x]['succs'] if s_ is not None]
        if hdr is None:
            continue
        n += 1
        lits = set()
        for bb in heads[hdr]:
            c2 = f.cond_of(bb)
            if not c2:
                continue
            for e in nodes(c2[0], lambda y: y.get('k') == 'bin' and y['op'] in ('==', '!=') and strip(y['l']).get('k') == 'index' and strip(y['r']).get('k') == 'lit'):
                lits.add(strip(e['r'])['v'])
            for cl in nodes(c2[0], lambda y: y.get('k') == 'call' and (y.get('callee') or '').startswith('htp_is_')):
                lits.add(cl.get('callee'))
        res.check(lits <= {34}, 'C14.l', 'htp_mpartp_find_boundary:quoted-value-scan', 'the quoted value is scanned up to the closing quote',
                  'the scan of a quoted boundary also stops at %s: a legal quoted boundary that contains such a character is cut short, no delimiter of the body matches it and the whole body is reported as one preamble part' % sorted(str(x) for x in lits - {34}), c[0].get('loc', f.loc))
    res.floor('C14.l', 'quoted-boundary scans', n, 1)
